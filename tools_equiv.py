#!/usr/bin/env python3
"""Behaviour-preserving changes (refactorings a maintainer could legitimately make): every check must stay silent.

  tools_equiv.py run <name>...     apply /verif/equiv/<name>/patch.diff in a scratch worktree, run the quick tier of
                                   all 19 checks against it (VERIF_REPO), record the outcome in result.json
  tools_equiv.py all               every stored change without a result, 3 at a time
"""
import json, os, subprocess, sys
from concurrent.futures import ThreadPoolExecutor

ROOT = os.path.dirname(os.path.abspath(__file__))
EQ = os.path.join(ROOT, "equiv")
ENV = dict(os.environ, GOFLAGS="-mod=mod", GOPROXY="off", GOSUMDB="off", GOTOOLCHAIN="local")


def freeze_harness():
    """Long runs build from a frozen copy of the harness so that /verif/harness can be edited meanwhile."""
    import shutil, atexit
    snap = "/tmp/harness-snap-%d" % os.getpid()
    shutil.copytree(os.path.join(ROOT, "harness"), snap, ignore=shutil.ignore_patterns("testdata"))
    ENV["VERIF_HARNESS_DIR"] = snap
    atexit.register(lambda: shutil.rmtree(snap, ignore_errors=True))
PROPS = ["C%02d" % i for i in range(1, 20)]
# VERIF_EQUIV_PROPS=C01,C06 restricts a run to some properties (results are merged into the stored result.json)
SUBSET = [p for p in os.environ.get("VERIF_EQUIV_PROPS", "").split(",") if p]
if SUBSET:
    PROPS = SUBSET


def sh(cmd, cwd, env=ENV, timeout=7200):
    p = subprocess.run(cmd, cwd=cwd, env=env, shell=True, stdout=subprocess.PIPE, stderr=subprocess.STDOUT, text=True, timeout=timeout)
    return p.returncode, p.stdout


def run(name):
    d = os.path.join(EQ, name)
    wt = "/tmp/equivrun-%s" % name
    sh("git worktree remove --force %s" % wt, "/repo")
    rc, txt = sh("git worktree add -q --detach %s HEAD" % wt, "/repo")
    res = dict(name=name, checks={})
    try:
        rc, txt = sh("git apply %s" % os.path.join(d, "patch.diff"), wt)
        if rc != 0:
            res["error"] = "patch does not apply: " + txt[-500:]
            print(name, "ERROR", res["error"], flush=True)
            return res
        rc, txt = sh("go build ./... && go test -vet=off -count=1 . ./internal/fastcsv ./internal/io/sql 2>&1 | tail -5", wt)
        res["suite_tail"] = txt[-600:]
        env = dict(ENV, VERIF_REPO=wt, VERIF_NO_EVIDENCE="1", VERIF_SEED=os.environ.get("VERIF_SEED", "1"))
        for pid in PROPS:
            rc, txt = sh("./check %s quick" % pid, ROOT, env=env)
            alarm = rc != 0
            res["checks"][pid] = dict(exit=rc, tail=txt[-1500:] if alarm else "")
            for l in txt.splitlines():
                if l.startswith("VIOLATION"):
                    rp = l.split("replay=")[-1].strip()
                    if os.path.exists(rp):
                        os.remove(rp)
    finally:
        sh("git worktree remove --force %s; git worktree prune" % wt, "/repo")
    if SUBSET and os.path.exists(os.path.join(d, "result.json")):
        prev = json.load(open(os.path.join(d, "result.json")))
        merged = dict(prev.get("checks", {}))
        merged.update(res["checks"])
        res["checks"] = merged
    res["alarms"] = [p for p, r in res["checks"].items() if r["exit"] != 0]
    json.dump(res, open(os.path.join(d, "result.json"), "w"), indent=1)
    print(name, "alarms:", res["alarms"], flush=True)
    return res


if __name__ == "__main__":
    freeze_harness()
    if sys.argv[1] == "run":
        names = sys.argv[2:]
    else:
        names = [n for n in sorted(os.listdir(EQ)) if os.path.exists(os.path.join(EQ, n, "patch.diff"))
                 and (not os.path.exists(os.path.join(EQ, n, "result.json")) or "--force" in sys.argv)]
    with ThreadPoolExecutor(3) as ex:
        list(ex.map(run, names))
