#!/usr/bin/env python3
"""Seeded-change workflow.

  tools_seeded.py verify <ID> <k> <worktree>   confirm a candidate change in a scratch worktree and store it as
                                               /verif/seeded/<ID>-m<k>/ (patch.diff, demo_test.go, meta.json)
  tools_seeded.py run <name> [tier]            apply /verif/seeded/<name>/patch.diff to /repo, run ./check <ID> <tier>,
                                               undo, record the outcome in meta.json
  tools_seeded.py runall [tier]                run every stored change that has no recorded outcome for the tier

A change is kept only if (1) it applies and compiles, (2) the existing suite passes with it, (3) the
demonstration fails with it and (4) passes without it.
"""
import json
import os
import shutil
import subprocess
import sys
import time

ROOT = os.path.dirname(os.path.abspath(__file__))
SEEDED = os.path.join(ROOT, "seeded")
ENV = dict(os.environ, GOFLAGS="-mod=mod", GOPROXY="off", GOSUMDB="off", GOTOOLCHAIN="local")


def freeze_harness():
    """Long runs build from a frozen copy of the harness so that /verif/harness can be edited meanwhile."""
    import shutil, atexit
    snap = "/tmp/harness-snap-%d" % os.getpid()
    shutil.copytree(os.path.join(ROOT, "harness"), snap, ignore=shutil.ignore_patterns("testdata"))
    ENV["VERIF_HARNESS_DIR"] = snap
    atexit.register(lambda: shutil.rmtree(snap, ignore_errors=True))


def sh(cmd, cwd, timeout=1800):
    p = subprocess.run(cmd, cwd=cwd, env=ENV, shell=True, stdout=subprocess.PIPE, stderr=subprocess.STDOUT, text=True, errors="replace", timeout=timeout)
    return p.returncode, p.stdout


SUITE = "go test -vet=off -count=1 $(go list ./... | grep -v '/out$')"


def verify(pid, k, wt, store_as=None):
    out = os.path.join(wt, "out")
    diff = os.path.join(out, "mut%s.diff" % k)
    demo = os.path.join(out, "mut%s_demo_test.go" % k)
    note = os.path.join(out, "mut%s.md" % k)
    name = "%s-m%s" % (pid, store_as or k)
    meta = dict(name=name, property=pid, verified=False, steps=[])
    demo_in_tree = os.path.join(wt, "zz_seeded_demo_test.go")

    def step(what, rc, text, want_ok):
        ok = (rc == 0) == want_ok
        meta["steps"].append(dict(step=what, exit=rc, as_expected=ok, tail=text[-1500:]))
        return ok

    sh("git checkout -- . && rm -f zz_seeded_demo_test.go", wt)
    rc, txt = sh("git apply --check %s && git apply %s" % (diff, diff), wt)
    if not step("git apply patch.diff", rc, txt, True):
        return meta
    try:
        rc, txt = sh("go build ./... ", wt)
        if not step("go build ./... (with change)", rc, txt, True):
            return meta
        rc, txt = sh(SUITE, wt)
        if rc != 0:  # the baseline has one flaky test (internal/hash Test_StringDistribution): retry once
            rc, txt = sh(SUITE, wt)
        if not step("existing suite with change: " + SUITE, rc, txt, True):
            return meta
        shutil.copy(demo, demo_in_tree)
        race = "-race " if pid == "C11" else ""
        rc, txt = sh("go test %s-vet=off -count=1 -run 'Mut|Demo|mut|demo' . 2>&1 | tail -40" % race, wt)
        rc2, txt2 = sh("go test %s-vet=off -count=1 . >/dev/null 2>&1" % race, wt)
        if not step("demonstration with change (must fail): go test .", rc2, txt, False):
            return meta
    finally:
        sh("git checkout -- .", wt)
    race = "-race " if pid == "C11" else ""
    rc, txt = sh("go test %s-vet=off -count=1 . 2>&1 | tail -15" % race, wt)
    rc2, _ = sh("go test %s-vet=off -count=1 . >/dev/null 2>&1" % race, wt)
    os.remove(demo_in_tree)
    if not step("demonstration without change (must pass): go test .", rc2, txt, True):
        return meta
    meta["verified"] = True
    d = os.path.join(SEEDED, name)
    os.makedirs(d, exist_ok=True)
    shutil.copy(diff, os.path.join(d, "patch.diff"))
    shutil.copy(demo, os.path.join(d, "demo_test.go.txt"))
    meta["needs"] = open(note).read() if os.path.exists(note) else ""
    meta["what_i_ran"] = [s["step"] for s in meta["steps"]]
    meta["checks"] = {}
    old = os.path.join(d, "meta.json")
    if os.path.exists(old):
        meta["checks"] = json.load(open(old)).get("checks", {})
    json.dump(meta, open(old, "w"), indent=1)
    return meta


def run_in_worktree(name, tier="quick", pid=None):
    """Like run, but in a throw-away worktree of /repo (VERIF_REPO), so /repo itself is never touched and
    several changes can be tried at the same time."""
    d = os.path.join(SEEDED, name)
    meta = json.load(open(os.path.join(d, "meta.json")))
    pid = pid or meta["property"]
    wt = "/tmp/seedrun-%s-%d" % (name, os.getpid())
    rc, txt = sh("git worktree add -q --detach %s HEAD" % wt, "/repo")
    if rc != 0:
        print("cannot create worktree:", txt)
        return 3
    t0 = time.time()
    try:
        rc, txt = sh("git apply %s" % os.path.join(d, "patch.diff"), wt)
        if rc != 0:
            print("patch does not apply:", txt)
            return 3
        env = dict(ENV, VERIF_REPO=wt, VERIF_NO_EVIDENCE="1")
        p = subprocess.run("./check %s %s" % (pid, tier), cwd=ROOT, env=env, shell=True, stdout=subprocess.PIPE, stderr=subprocess.STDOUT,
                           text=True, timeout=4 * 3600)
        rc, txt = p.returncode, p.stdout
    finally:
        sh("git worktree remove --force %s; git worktree prune" % wt, "/repo")
    viol = [l for l in txt.splitlines() if l.startswith("VIOLATION")]
    outcome = dict(exit=rc, detected=(rc == 1 and bool(viol)), wall_s=round(time.time() - t0, 1), seed=os.environ.get("VERIF_SEED", "1"),
                   violation_line=viol[0] if viol else "", tail=txt[-1200:], in_worktree=True)
    for l in viol:
        rp = l.split("replay=")[-1].strip()
        if os.path.exists(rp):
            os.remove(rp)
    meta.setdefault("checks", {})["%s:%s" % (pid, tier)] = outcome
    json.dump(meta, open(os.path.join(d, "meta.json"), "w"), indent=1)
    print("%-10s %s %-8s detected=%s exit=%s %.0fs (worktree)" % (name, pid, tier, outcome["detected"], rc, outcome["wall_s"]))
    return 0


def run(name, tier="quick", pid=None):
    d = os.path.join(SEEDED, name)
    meta = json.load(open(os.path.join(d, "meta.json")))
    pid = pid or meta["property"]
    rc, txt = sh("git status --porcelain", "/repo")
    if txt.strip():
        print("/repo is not clean, refusing")
        return 3
    rc, txt = sh("git apply %s" % os.path.join(d, "patch.diff"), "/repo")
    if rc != 0:
        print("patch does not apply:", txt)
        sh("git checkout -- .", "/repo")
        return 3
    t0 = time.time()
    try:
        rc, txt = sh("./check %s %s" % (pid, tier), ROOT, timeout=4 * 3600)
    finally:
        sh("git checkout -- . && git clean -fdq", "/repo")
    viol = [l for l in txt.splitlines() if l.startswith("VIOLATION")]
    outcome = dict(exit=rc, detected=(rc == 1 and bool(viol)), wall_s=round(time.time() - t0, 1), seed=os.environ.get("VERIF_SEED", "1"),
                   violation_line=viol[0] if viol else "", tail=txt[-1200:])
    # the replay files of seeded runs are not findings: remove them
    for l in viol:
        p = l.split("replay=")[-1].strip()
        if os.path.exists(p):
            os.remove(p)
    rep = os.path.join(ROOT, "replays")
    if os.path.isdir(rep):
        for f in os.listdir(rep):
            if f.startswith(pid + "-"):
                os.remove(os.path.join(rep, f))
    meta.setdefault("checks", {})["%s:%s" % (pid, tier)] = outcome
    json.dump(meta, open(os.path.join(d, "meta.json"), "w"), indent=1)
    print("%-10s %s %-8s detected=%s exit=%s %.0fs" % (name, pid, tier, outcome["detected"], rc, outcome["wall_s"]))
    return 0


def main():
    if sys.argv[1] == "verify":
        m = verify(sys.argv[2], sys.argv[3], sys.argv[4], sys.argv[5] if len(sys.argv) > 5 else None)
        print(m["name"], "verified" if m["verified"] else "REJECTED", [(s["step"][:40], s["as_expected"]) for s in m["steps"] if not s["as_expected"]])
    elif sys.argv[1] == "run":
        run(sys.argv[2], sys.argv[3] if len(sys.argv) > 3 else "quick")
    elif sys.argv[1] == "wrun":
        # optional 4th argument: run the check of another property against the change (cross-check)
        run_in_worktree(sys.argv[2], sys.argv[3] if len(sys.argv) > 3 else "quick", sys.argv[4] if len(sys.argv) > 4 else None)
    elif sys.argv[1] == "matrix":
        freeze_harness()
        # every stored change x the given seeds, quick tier, in scratch worktrees, 4 at a time
        from concurrent.futures import ThreadPoolExecutor
        seeds = sys.argv[2].split(",")
        names = [n for n in sorted(os.listdir(SEEDED)) if os.path.exists(os.path.join(SEEDED, n, "meta.json"))]
        # VERIF_MATRIX_PROPS=C01,C06 restricts the matrix to the changes of some properties
        only = [p for p in os.environ.get("VERIF_MATRIX_PROPS", "").split(",") if p]
        if only:
            names = [n for n in names if n.split("-")[0] in only]
        jobs = [(n, sd) for n in names for sd in seeds]

        def one(job):
            n, sd = job
            meta = json.load(open(os.path.join(SEEDED, n, "meta.json")))
            pid = meta["property"]
            wt = "/tmp/seedrun-%s-s%s" % (n, sd)
            sh("git worktree add -q --detach %s HEAD" % wt, "/repo")
            try:
                rc, txt = sh("git apply %s" % os.path.join(SEEDED, n, "patch.diff"), wt)
                env = dict(ENV, VERIF_REPO=wt, VERIF_SEED=sd, VERIF_NO_EVIDENCE="1")
                p = subprocess.run("./check %s quick" % pid, cwd=ROOT, env=env, shell=True, stdout=subprocess.PIPE, stderr=subprocess.STDOUT, text=True, timeout=3600)
                det = p.returncode == 1 and "VIOLATION" in p.stdout
                for l in p.stdout.splitlines():
                    if l.startswith("VIOLATION"):
                        rp = l.split("replay=")[-1].strip()
                        if os.path.exists(rp):
                            os.remove(rp)
                return n, sd, det, p.returncode
            finally:
                sh("git worktree remove --force %s" % wt, "/repo")

        res = {}
        with ThreadPoolExecutor(4) as ex:
            for n, sd, det, rc in ex.map(one, jobs):
                res.setdefault(n, {})[sd] = det
                print(n, "seed", sd, "detected" if det else "MISSED rc=%s" % rc, flush=True)
        sh("git worktree prune", "/repo")
        mpath = os.path.join(ROOT, "seeded", "matrix.json")
        stored = res
        if only and os.path.exists(mpath):
            stored = json.load(open(mpath))
            stored.update(res)
        json.dump(stored, open(mpath, "w"), indent=1, sort_keys=True)
        missed = [(n, sd) for n, r in res.items() for sd, d in r.items() if not d]
        print("missed:", missed)
    elif sys.argv[1] == "runall":
        tier = sys.argv[2] if len(sys.argv) > 2 else "quick"
        for name in sorted(os.listdir(SEEDED)):
            mp = os.path.join(SEEDED, name, "meta.json")
            if not os.path.exists(mp):
                continue
            meta = json.load(open(mp))
            key = "%s:%s" % (meta["property"], tier)
            if key in meta.get("checks", {}) and "--force" not in sys.argv:
                continue
            run(name, tier)


if __name__ == "__main__":
    main()
