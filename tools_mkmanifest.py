#!/usr/bin/env python3
"""Generates MANIFEST.json from checks.json (single source of truth for budgets and texts)."""
import json, os
ROOT = os.path.dirname(os.path.abspath(__file__))
conf = json.load(open(os.path.join(ROOT, "checks.json")))
props = [json.loads(l) for l in open(os.path.join(ROOT, "properties.jsonl"))]
checks, na = [], []
for p in props:
    pid = p["id"]
    spec = conf["properties"].get(pid)
    if not spec or spec.get("disabled"):
        na.append(dict(property_id=pid, reason=(spec or {}).get("na_reason", "check not built yet (work in progress); the technique applies, see DESIGN.md section 5")))
        continue
    checks.append(dict(
        property_id=pid,
        quick_cmd="./check %s quick" % pid,
        thorough_cmd="./check %s thorough" % pid,
        evidence_file="/verif/evidence/%s.json" % pid,
        replay_cmd_template="./check %s --replay {path}" % pid,
        engine="rapid-harness",
        level_claimed=dict(category=spec["level"], text=spec["level_text"], design_ref=spec.get("design_ref", "DESIGN.md section 5, " + pid)),
        level_note=spec["level_note"],
        technique=spec["technique"],
    ))
m = dict(
    version=1,
    setup_cmd="./check --setup",
    hooks=dict(guard="verif", enable="none needed: every observation point is public API; checks build /repo as it is",
               baseline_off_cmd="cd /repo && GOFLAGS=-mod=mod GOPROXY=off go test -vet=off -count=1 -timeout 25m ./...", source_commits=[], add_only=True),
    engines=[dict(name="rapid-harness", path="/verif/harness", serves_properties=[c["property_id"] for c in checks],
                  kind_free_text="Go module with pgregory.net/rapid v1.3.0 property tests (generators, reference model, stateful sequences, fault injection), native go fuzzing legs, go test -race for C11; driven by /verif/check")],
    checks=checks,
    notes=conf.get("notes", ""),
    not_applicable=na,
)
json.dump(m, open(os.path.join(ROOT, "MANIFEST.json"), "w"), indent=1)
print("claimed", [c["property_id"] for c in checks], "not claimed", [n["property_id"] for n in na])
