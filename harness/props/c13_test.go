package props

import (
	"bytes"
	"fmt"
	"github.com/tobgu/qframe/config/newqf"
	"math"
	"os"
	"sort"
	"strconv"
	"strings"
	"testing"

	"github.com/tobgu/qframe"
	"github.com/tobgu/qframe/config/csv"
	"pgregory.net/rapid"

	"verifharness/ev"
	"verifharness/hx"
)

// C13 — ToCSV followed by ReadCSV reproduces the frame.

var evC13 = ev.New("C13", "derived frames with >=1 column: strings of any bytes but CR (non-UTF-8, quotes, delimiters, LF, leading/trailing blanks), floats over raw and structured bit patterns (powers of two/ten +-1 ulp, short decimal literals, whole numbers beyond 2^63) incl. +-Inf, NaN, -0.0, subnormals, "+
	"ints incl. extremes, declared and derived enums, hostile legal column names; options Header(bool), Columns(order); read back with the frame's types (and enum values; Headers when no header row) and both EmptyNull settings; "+
	"oracle: round trip - same columns in written order, same rows in order, ints/bools/strings/enums identical, non-NaN floats bit-identical, NaN stays NaN, null<->\"\" as stated; "+
	"non-trivial = >=2 rows, non-identity index, and a cell that forces quoting or a float with >=16 significant digits; distinct = FNV-64 of (table, route, options)")

var hostileLegalNames = []string{"a", "b", "c", "d", "e", "col 1", "x,y", "q\"q", "l\nf", " lead", "trail ", "ä€", "\xff\xfe", "'", "a'b'", "\"", "1", "-", "\\.", "tab\there", "\ufeffbom", "''", "null", "\ufeff"}

func noCR(tab hx.Table) hx.Table {
	for ci, c := range tab.Cols {
		if c.Kind != hx.KString && c.Kind != hx.KEnum {
			continue
		}
		s := make([]*string, len(c.S))
		for i, p := range c.S {
			if p != nil {
				s[i] = hx.Sp(strings.ReplaceAll(*p, "\r", "r"))
			}
		}
		tab.Cols[ci].S = s
	}
	return tab
}

func renameCols(t *rapid.T, tab hx.Table, pool []string) hx.Table {
	names := rapid.Permutation(pool).Draw(t, "hostilenames")
	for i := range tab.Cols {
		tab.Cols[i].Name = names[i]
	}
	return tab
}

func TestC13(t *testing.T) { rapid.Check(t, propC13) }

// FuzzC13: the same property driven by coverage-guided bytes (thorough tier).
func FuzzC13(f *testing.F) { f.Fuzz(rapid.MakeFuzz(propC13)) }

func propC13(t *rapid.T) {
	base := noCR(hx.GenTable(t, hx.TableOpt{MinCols: 1, MaxCols: 5, AllowDerived: true, Wide: true}))
	if rapid.Bool().Draw(t, "hostilenames") {
		base = renameCols(t, base, hostileLegalNames)
	}
	steps := 4
	if hx.Rarely(t, 150, "fullenum") {
		// an enum column that uses the full range: 255 (or 254) distinct values, declared or derived, no nulls
		nv := rapid.SampledFrom([]int{255, 255, 254}).Draw(t, "fullenumvalues")
		n := nv + rapid.IntRange(0, 40).Draw(t, "fullenumextra")
		rng := hx.SplitMix(rapid.Uint64().Draw(t, "fullenumseed"))
		vals := make([]string, nv)
		for i := range vals {
			vals[i] = fmt.Sprintf("v%03d", (i*101)%nv)
		}
		e := hx.Col{Name: "efull", Kind: hx.KEnum, S: make([]*string, n)}
		for r := range e.S {
			k := r
			if r >= nv {
				k = rng.Intn(nv)
			}
			e.S[r] = hx.Sp(vals[k])
		}
		if rapid.Bool().Draw(t, "fullenumdeclared") {
			e.Enum = vals
		}
		base, steps = hx.Table{Cols: []hx.Col{e, {Name: "k", Kind: hx.KInt, I: hx.Iota(n)}}}, 2
	}
	d := hx.GenDerived(t, base, steps)
	in := d.Input(t)
	// now and then the frame has an earlier life that touched its data columns (no cell text it did not hold before; observed afterwards)
	if steps > 2 && len(in.Cols) > 0 && rapid.IntRange(0, 5).Draw(t, "history") == 0 {
		var hist hx.History
		d.QF, in, hist = hx.GenHistory(t, d.QF, in, true)
		d.Route = append(d.Route, hist.String())
	}
	// now and then the frame written is itself the result of reading a CSV text (fields quoted only where needed - often
	// nowhere), possibly reordered afterwards
	reread := false
	if steps > 2 && len(in.Cols) > 0 && rapid.IntRange(0, 4).Draw(t, "rereadfirst") == 0 {
		if qf2, ok := hx.FromCSV(in, true); ok {
			d.QF, reread = qf2, true
			d.Route = append(d.Route, "re-read from a CSV text with minimal quoting")
			if rapid.Bool().Draw(t, "rereadsort") {
				d.QF = d.QF.Sort(qframe.Order{Column: in.Cols[0].Name, Reverse: true})
				d.Route = append(d.Route, "sorted")
				in = d.Input(t)
			}
		}
	}
	// now and then a numeric column under a name that needs quoting joins the frame right before it is written (by Copy
	// or as a constant): what a frame remembers of the text it was read from says nothing about such a column
	if steps > 2 && len(in.Cols) > 0 && (reread || rapid.IntRange(0, 4).Draw(t, "latecolumn") == 0) {
		name := rapid.SampledFrom([]string{"x,y", "q\"q", "l\nf", " lead", "late", "a,\"b\"\n"}).Draw(t, "latename")
		if in.Find(name) < 0 {
			var nums []string
			for _, c := range in.Cols {
				if c.Kind == hx.KInt || c.Kind == hx.KFloat || c.Kind == hx.KBool {
					nums = append(nums, c.Name)
				}
			}
			var added qframe.QFrame
			if len(nums) > 0 && rapid.Bool().Draw(t, "latecopy") {
				added = d.QF.Copy(name, nums[rapid.IntRange(0, len(nums)-1).Draw(t, "latesrc")])
			} else {
				added = d.QF.Apply(qframe.Instruction{Fn: 7, DstCol: name})
			}
			if added.Err == nil {
				d.QF = added
				d.Route = append(d.Route, fmt.Sprintf("numeric column %q added", name))
				in = d.Input(t)
			}
		}
	}
	header := rapid.IntRange(0, 3).Draw(t, "header") > 0
	order := in.Names()
	explicitOrder := rapid.Bool().Draw(t, "columnsopt")
	if explicitOrder {
		order = rapid.Permutation(order).Draw(t, "order")
	}
	emptyNull := rapid.Bool().Draw(t, "emptynull")
	desc := func() string {
		return d.String() + fmt.Sprintf("names %q header=%v columns=%q(explicit=%v) emptyNull=%v", in.Names(), header, order, explicitOrder, emptyNull)
	}
	var buf bytes.Buffer
	var wfns []csv.ToConfigFunc
	if !header {
		wfns = append(wfns, csv.Header(false))
	}
	if explicitOrder {
		wfns = append(wfns, csv.Columns(append([]string(nil), order...)))
	}
	var werr error
	if rapid.IntRange(0, 3).Draw(t, "secondcall") == 0 {
		// the same writer options served an earlier ToCSV of the same frame: the second output counts
		_ = hx.Safely(func() { _ = d.QF.ToCSV(&bytes.Buffer{}, wfns...) })
	}
	if perr := hx.Safely(func() { werr = d.QF.ToCSV(&buf, wfns...) }); perr != nil {
		t.Fatalf("ToCSV panicked: %v\n%s", perr, desc())
	}
	if werr != nil {
		t.Fatalf("ToCSV error: %v\n%s", werr, desc())
	}
	// writing leaves the frame as it was: a plain ToCSV afterwards still starts with the frame's own column order, and
	// the frame still observes as before (Columns(order) is about the output of that one call)
	if after, err := hx.Observe(d.QF); err != nil || hx.Diff(in, after) != "" {
		t.Fatalf("ToCSV changed the frame it wrote: %v %s\n%s", err, hx.Diff(in, after), desc())
	}
	if explicitOrder && len(in.Cols) > 1 {
		var plain bytes.Buffer
		if err := d.QF.ToCSV(&plain); err != nil {
			t.Fatalf("plain ToCSV after ToCSV(Columns): %v\n%s", err, desc())
		}
		var ref bytes.Buffer
		if err := d.QF.ToCSV(&ref, csv.Columns(in.Names())); err != nil || !bytes.Equal(plain.Bytes(), ref.Bytes()) {
			t.Fatalf("a plain ToCSV after ToCSV(Columns(%q)) does not write the frame's own column order %q: %v\n%s\n%s", order, in.Names(), err, clipS(plain.String()), desc())
		}
	}
	// read back with the frame's types declared
	typs := map[string]string{}
	enumVals := map[string][]string{}
	for _, c := range in.Cols {
		typs[c.Name] = c.Kind.String()
		if c.Kind == hx.KEnum && c.Enum != nil {
			vals := append([]string(nil), c.Enum...)
			hasEmpty := false
			for _, v := range vals {
				if v == "" {
					hasEmpty = true
				}
			}
			if !emptyNull && !hasEmpty && c.HasNull() {
				vals = append(vals, "") // null strings return as empty strings
			}
			enumVals[c.Name] = vals
		}
	}
	rfns := []csv.ConfigFunc{csv.Types(typs), csv.EmptyNull(emptyNull)}
	if len(enumVals) > 0 {
		rfns = append(rfns, csv.EnumValues(enumVals))
	}
	if !header {
		rfns = append(rfns, csv.Headers(append([]string(nil), order...)))
	}
	out := buf.Bytes()
	var back qframe.QFrame
	if rapid.IntRange(0, 3).Draw(t, "secondread") == 0 {
		_ = hx.Safely(func() { _ = qframe.ReadCSV(bytes.NewReader(out), rfns...) }) // same reader options, second read counts
	}
	if perr := hx.Safely(func() { back = qframe.ReadCSV(bytes.NewReader(out), rfns...) }); perr != nil {
		t.Fatalf("ReadCSV panicked: %v\ncsv %q\n%s", perr, clipS(string(out)), desc())
	}
	if back.Err != nil {
		t.Fatalf("reading back failed: %v\ncsv %q\n%s", back.Err, clipS(string(out)), desc())
	}
	// expectation: written order, null <-> "" as stated
	want := in.Project(order)
	for ci, c := range want.Cols {
		if c.Kind != hx.KString && c.Kind != hx.KEnum {
			continue
		}
		s := make([]*string, len(c.S))
		for i, p := range c.S {
			switch {
			case emptyNull && (p == nil || *p == ""):
				s[i] = nil
			case p == nil:
				s[i] = hx.Sp("")
			default:
				s[i] = p
			}
		}
		want.Cols[ci].S = s
	}
	got, err := hx.Observe(back)
	if err != nil {
		t.Fatalf("observe: %v\n%s", err, desc())
	}
	if in.N() > 0 || header {
		if back.Len() != in.N() {
			t.Fatalf("read back %d rows, frame has %d\ncsv %q\n%s", back.Len(), in.N(), clipS(string(out)), desc())
		}
	}
	if diff := hx.Diff(want, got); diff != "" {
		t.Fatalf("round trip differs: %s\ncsv %q\n%s", diff, clipS(string(out)), desc())
	}
	// "with the frame's column types (and enum values) declared": the columns read back are enums over the declared list, so
	// ordering the read-back frame by one of them follows the declared order (also when the option values served a read before)
	for _, c := range want.Cols {
		vals, declared := enumVals[c.Name]
		if c.Kind != hx.KEnum || !declared || c.Len() < 2 {
			continue
		}
		rank := map[string]int{}
		for i, v := range vals {
			rank[v] = i + 1
		}
		wantSeq := make([]int, c.Len())
		for i, p := range c.S {
			if p != nil {
				wantSeq[i] = rank[*p]
			}
		}
		sort.Ints(wantSeq)
		sorted := back.Sort(qframe.Order{Column: c.Name})
		so, err := hx.Observe(sorted)
		if err != nil || sorted.Err != nil {
			t.Fatalf("sorting the read-back frame by %q: %v %v\n%s", c.Name, sorted.Err, err, desc())
		}
		sc := so.MustCol(c.Name)
		for i := range wantSeq {
			g := 0
			if sc.S[i] != nil {
				g = rank[*sc.S[i]]
			}
			if g != wantSeq[i] {
				t.Fatalf("the read-back enum column %q does not order by its declared values %q: position %d holds %s\ncsv %q\n%s", c.Name, vals, i, sc.Cell(i), clipS(string(out)), desc())
			}
		}
	}
	quoting, digits := false, false
	for _, c := range in.Cols {
		for r := 0; r < c.Len(); r++ {
			switch c.Kind {
			case hx.KString, hx.KEnum:
				if c.S[r] != nil && (strings.ContainsAny(*c.S[r], ",\"\n") || strings.HasPrefix(*c.S[r], " ")) {
					quoting = true
				}
			case hx.KFloat:
				f := c.F[r]
				if !math.IsNaN(f) && !math.IsInf(f, 0) {
					m := math.Float64bits(f) & ((1 << 52) - 1)
					if m&0xffff != 0 {
						digits = true
					}
				}
			}
		}
	}
	classes := []string{fmt.Sprintf("header=%v", header), fmt.Sprintf("columns-option=%v", explicitOrder), fmt.Sprintf("emptyNull=%v", emptyNull)}
	if quoting {
		classes = append(classes, "cell-forces-quoting")
	}
	if digits {
		classes = append(classes, "float-many-digits")
	}
	evC13.Case(in.N() >= 2 && d.NonIdentity() && (quoting || digits), desc, classes...)
}

// TestC13Blocks: the round trip on frames of a few thousand rows, read back with RowCountHint values below, at and above
// the real row count (the reader sizes its per-column storage from the hint once the document is longer than its
// first estimate), from a frame that is not in storage order.
func TestC13Blocks(t *testing.T) {
	seed, _ := strconv.ParseUint(os.Getenv("VERIF_SHARD_SEED"), 10, 64)
	rng := hx.SplitMix(seed)
	sizes := []int{2100, 4100}
	if tier() == "thorough" {
		sizes = []int{2100, 4100, 9000, 33000}
	}
	decl := []string{"low", "mid", "high", "a,b", ""}
	runs := 0
	for _, n := range sizes {
		ints, floats, strs, enums, ids := make([]int, n), make([]float64, n), make([]string, n), make([]string, n), make([]int, n)
		for i := 0; i < n; i++ {
			ints[i] = int(rng.Next()%2_000_001) - 1_000_000
			floats[i] = float64(int64(rng.Next()%1_000_000)-500_000) / 64
			strs[i] = []string{"s", "two words", "quo\"te", "com,ma", "line\nbreak", ""}[rng.Next()%6] + strconv.Itoa(int(rng.Next()%977))
			if i > 1000 && rng.Next()%3 == 0 {
				strs[i] += "-a-longer-cell-after-the-first-thousand-rows-" + strconv.Itoa(i)
			}
			enums[i] = decl[rng.Next()%uint64(len(decl))]
			ids[i] = i
		}
		qf := qframe.New(map[string]interface{}{"id": ids, "i": ints, "f": floats, "s": strs, "e": enums},
			newqf.ColumnOrder("s", "i", "f", "e", "id"), newqf.Enums(map[string][]string{"e": decl})).Sort(qframe.Order{Column: "i"}, qframe.Order{Column: "id"})
		if qf.Err != nil {
			t.Fatal(qf.Err)
		}
		want, err := hx.Observe(qf)
		if err != nil {
			t.Fatal(err)
		}
		var buf bytes.Buffer
		if err := qf.ToCSV(&buf); err != nil {
			t.Fatal(err)
		}
		for _, hint := range []int{0, 1500, 2001, 2050, n - 50, n, 2 * n} {
			fns := []csv.ConfigFunc{csv.Types(map[string]string{"id": "int", "i": "int", "f": "float", "s": "string", "e": "enum"}), csv.EnumValues(map[string][]string{"e": decl})}
			if hint > 0 {
				fns = append(fns, csv.RowCountHint(hint))
			}
			back := qframe.ReadCSV(bytes.NewReader(buf.Bytes()), fns...)
			if back.Err != nil {
				t.Fatalf("reading back %d rows with RowCountHint(%d): %v", n, hint, back.Err)
			}
			got, err := hx.Observe(back)
			if err != nil {
				t.Fatal(err)
			}
			if diff := hx.Diff(want, got); diff != "" {
				t.Fatalf("round trip of %d rows read back with RowCountHint(%d) differs: %s", n, hint, diff)
			}
			runs++
		}
	}
	evC13.CaseHash(true, seed, func() string {
		return fmt.Sprintf("block sizes: %v rows x RowCountHint below/at/above the row count (%d round trips)", sizes, runs)
	}, "block-sizes")
}
