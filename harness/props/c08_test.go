package props

import (
	"fmt"
	"github.com/tobgu/qframe/config/groupby"
	"sort"
	"strings"
	"testing"
	"unicode/utf8"

	"github.com/tobgu/qframe"
	"github.com/tobgu/qframe/config/newqf"
	"pgregory.net/rapid"

	"verifharness/ev"
	"verifharness/hx"
)

// C08 — New reproduces its input or rejects it; Select/Drop/Slice/Copy project exactly.

var evC08New = ev.New("C08", "New: column maps over []int/[]float64/[]bool/[]string/[]*string/Const* (and unsupported data), equal and unequal lengths in every arrangement incl. zero-length columns, "+
	"legal hostile and illegal names, ColumnOrder absent/permutation/unknown entry/wrong length, Enums declared/derived/for a missing column, values outside a declared enum, >255 distinct enum values, "+
	"byte strings up to 100 KB; oracle: the model decides reject or accept, on accept the observed frame must equal the input in the requested order; "+
	"non-trivial = accepted frame with >=2 columns holding a null and an empty string, or a rejection that depends on >=2 columns (lengths) or on the configuration; distinct = FNV-64 of the case rendering")

var evC08Proj = ev.New("C08", "projections: valid and invalid Select/Drop/Slice/Copy requests on derived frames; oracle: model projection or predicted Err "+
	"(Drop of an unknown column: ignored or Err both accepted); non-trivial = non-identity index and >=2 rows; distinct = FNV-64 of (table, route, request)")

type newCol struct {
	Name string
	Form string // ints, floats, bools, strings, ptrs, cint, cfloat, cbool, cstring, int32s, nilval, mapval, scalar
	Len  int
	Col  hx.Col // the content (for const forms: all cells equal)
	Enum string // "", "declared", "derived", "declared-bad" (data outside), "toomany-declared"
}

func (c newCol) data() interface{} {
	switch c.Form {
	case "ints":
		return append([]int{}, c.Col.I...)
	case "floats":
		return append([]float64{}, c.Col.F...)
	case "bools":
		return append([]bool{}, c.Col.B...)
	case "strings":
		out := make([]string, len(c.Col.S))
		for i, p := range c.Col.S {
			out[i] = *p
		}
		return out
	case "ptrs":
		out := make([]*string, len(c.Col.S))
		for i, p := range c.Col.S {
			if p != nil {
				s := *p
				out[i] = &s
			}
		}
		return out
	case "cint":
		v := 7 // also for a column without rows: the value is then never seen, the count must still be honoured
		if c.Len > 0 {
			v = c.Col.I[0]
		}
		return qframe.ConstInt{Val: v, Count: c.Len}
	case "cfloat":
		v := 2.5
		if c.Len > 0 {
			v = c.Col.F[0]
		}
		return qframe.ConstFloat{Val: v, Count: c.Len}
	case "cbool":
		v := true
		if c.Len > 0 {
			v = c.Col.B[0]
		}
		return qframe.ConstBool{Val: v, Count: c.Len}
	case "cstring":
		var v *string // (a value here would have to respect a declared enum list)
		if c.Len > 0 {
			v = c.Col.S[0]
		}
		return qframe.ConstString{Val: v, Count: c.Len}
	case "int32s":
		return make([]int32, c.Len)
	case "ifaces":
		out := make([]interface{}, c.Len)
		for i := range out {
			out[i] = "a" // every element a string - still not a supported column type
		}
		return out
	case "int64s":
		return make([]int64, c.Len)
	case "float32s":
		return make([]float32, c.Len)
	case "bytes":
		return make([]byte, c.Len)
	case "uints":
		return make([]uint, c.Len)
	case "string-scalar":
		return "ab"
	case "nilval":
		return nil
	case "mapval":
		return map[string]int{"a": 1}
	}
	return 42
}

func supported(form string) bool {
	switch form {
	case "int32s", "nilval", "mapval", "scalar", "ifaces", "int64s", "float32s", "bytes", "uints", "string-scalar":
		return false
	}
	return true
}

var legalNames = []string{"a", "b", "c", "d", "e", "f", "A", "a b", "a,b", "ä", "x'", "'x", "\xff\xfe", "col\"q", "1", " "}
var illegalNames = []string{"", "'abc'", "\"abc\"", "$x", "$", "'a b'", "'a\nb'", "\"a\nb\"", "'\xff'", "\"'\"", "'\n'", "$\n", "''a'", "\"a\"\"", "'''", "''a''", "\"\"\"", "'a'b'"}

func genNewCol(t *rapid.T, name string, n int, wide bool) newCol {
	c := newCol{Name: name, Len: n}
	c.Form = rapid.SampledFrom([]string{"ints", "floats", "bools", "strings", "ptrs", "ptrs", "cint", "cfloat", "cbool", "cstring"}).Draw(t, "form")
	switch c.Form {
	case "ints":
		c.Col = hx.Col{Name: name, Kind: hx.KInt, I: make([]int, n)}
		for i := range c.Col.I {
			c.Col.I[i] = hx.GenInt(t)
		}
	case "cint":
		v := hx.GenInt(t)
		c.Col = hx.Col{Name: name, Kind: hx.KInt, I: make([]int, n)}
		for i := range c.Col.I {
			c.Col.I[i] = v
		}
	case "floats":
		c.Col = hx.Col{Name: name, Kind: hx.KFloat, F: make([]float64, n)}
		for i := range c.Col.F {
			c.Col.F[i] = hx.GenFloat(t, true)
		}
	case "cfloat":
		v := hx.GenFloat(t, true) // (-0.0 included: "constants repeated", D24)
		c.Col = hx.Col{Name: name, Kind: hx.KFloat, F: make([]float64, n)}
		for i := range c.Col.F {
			c.Col.F[i] = v
		}
	case "bools":
		c.Col = hx.Col{Name: name, Kind: hx.KBool, B: make([]bool, n)}
		for i := range c.Col.B {
			c.Col.B[i] = rapid.Bool().Draw(t, "b")
		}
	case "cbool":
		v := rapid.Bool().Draw(t, "b")
		c.Col = hx.Col{Name: name, Kind: hx.KBool, B: make([]bool, n)}
		for i := range c.Col.B {
			c.Col.B[i] = v
		}
	case "strings", "ptrs":
		c.Col = hx.Col{Name: name, Kind: hx.KString, S: make([]*string, n)}
		longAt := -1
		if wide && n > 0 && rapid.IntRange(0, 9).Draw(t, "haslong") == 0 {
			longAt = rapid.IntRange(0, n-1).Draw(t, "longat")
		}
		for i := range c.Col.S {
			if i == longAt {
				// long byte strings: arbitrary bytes, up to 100 KB
				ln := rapid.SampledFrom([]int{300, 5000, 70000, 100000}).Draw(t, "longlen")
				seed := hx.SplitMix(rapid.Uint64().Draw(t, "longseed"))
				b := make([]byte, ln)
				for j := range b {
					b[j] = byte(seed.Next())
				}
				c.Col.S[i] = hx.Sp(string(b))
				continue
			}
			c.Col.S[i] = hx.GenStrPtr(t, true, c.Form == "strings")
		}
	case "cstring":
		v := hx.GenStrPtr(t, true, false)
		c.Col = hx.Col{Name: name, Kind: hx.KString, S: make([]*string, n)}
		for i := range c.Col.S {
			c.Col.S[i] = v
		}
	}
	return c
}

func TestC08New(t *testing.T) {
	rapid.Check(t, func(t *rapid.T) {
		// the empty column map: an empty frame - unless the configuration names columns, which then are unknown
		if hx.Rarely(t, 40, "emptymap") {
			var data map[string]interface{}
			if rapid.Bool().Draw(t, "nonnilmap") {
				data = map[string]interface{}{}
			}
			var fns []newqf.ConfigFunc
			what := rapid.SampledFrom([]string{"none", "order", "enums", "both", "empty-options"}).Draw(t, "emptymapconf")
			switch what {
			case "order":
				fns = append(fns, newqf.ColumnOrder("a"))
			case "enums":
				fns = append(fns, newqf.Enums(map[string][]string{"a": {"x"}}))
			case "both":
				fns = append(fns, newqf.ColumnOrder("a", "b"), newqf.Enums(map[string][]string{"a": nil}))
			case "empty-options":
				fns = append(fns, newqf.ColumnOrder(), newqf.Enums(map[string][]string{}))
			}
			var qf qframe.QFrame
			if perr := hx.Safely(func() { qf = qframe.New(data, fns...) }); perr != nil {
				t.Fatalf("New(empty map, %s) panicked: %v", what, perr)
			}
			mustReject := what == "order" || what == "enums" || what == "both"
			if mustReject && qf.Err == nil {
				t.Fatalf("New of an empty column map accepted a configuration (%s) naming columns that do not exist", what)
			}
			if !mustReject && (qf.Err != nil || qf.Len() != 0 || len(qf.ColumnNames()) != 0) {
				t.Fatalf("New of an empty column map (%s): err %v, %d rows, columns %q", what, qf.Err, qf.Len(), qf.ColumnNames())
			}
			evC08New.Case(mustReject, func() string { return "empty column map, configuration " + what }, "empty-map")
			return
		}
		n := rapid.OneOf(rapid.IntRange(0, 3), rapid.IntRange(0, 12), rapid.IntRange(13, 40)).Draw(t, "n")
		ncols := rapid.IntRange(1, 5).Draw(t, "ncols")
		names := rapid.Permutation(legalNames).Draw(t, "names")[:ncols]
		cols := make([]newCol, ncols)
		reject := []string{}
		for i := range cols {
			ln := n
			// unequal lengths in any arrangement, incl. a zero-length column first
			if rapid.IntRange(0, 11).Draw(t, "lendev") == 0 {
				ln = rapid.SampledFrom([]int{0, 1, n + 1, n + 2, 2 * n}).Draw(t, "otherlen")
			}
			cols[i] = genNewCol(t, names[i], ln, true)
		}
		if rapid.IntRange(0, 14).Draw(t, "unsupported") == 0 {
			i := rapid.IntRange(0, ncols-1).Draw(t, "unsupcol")
			cols[i].Form = rapid.SampledFrom([]string{"int32s", "nilval", "mapval", "scalar", "ifaces", "int64s", "float32s", "bytes", "uints", "string-scalar"}).Draw(t, "unsform")
			reject = append(reject, "unsupported data type")
		}
		if rapid.IntRange(0, 14).Draw(t, "illegalname") == 0 {
			i := rapid.IntRange(0, ncols-1).Draw(t, "illcol")
			cols[i].Name = rapid.SampledFrom(illegalNames).Draw(t, "illname")
			cols[i].Col.Name = cols[i].Name
			reject = append(reject, "illegal column name")
		}
		// enum configuration
		enums := map[string][]string{}
		for i := range cols {
			c := &cols[i]
			if c.Col.Kind != hx.KString || !supported(c.Form) || rapid.IntRange(0, 2).Draw(t, "enum") != 0 {
				continue
			}
			distinct := map[string]bool{}
			var vals []string
			for _, p := range c.Col.S {
				if p != nil && !distinct[*p] {
					distinct[*p] = true
					vals = append(vals, *p)
				}
			}
			switch rapid.IntRange(0, 5).Draw(t, "enumkind") {
			case 0, 1:
				c.Enum = "derived"
				if rapid.Bool().Draw(t, "emptylist") {
					enums[c.Name] = []string{}
				} else {
					enums[c.Name] = nil
				}
				c.Col.Kind = hx.KEnum
			case 2, 3:
				c.Enum = "declared"
				decl := append(vals, "zz-unused")
				decl = rapid.Permutation(decl).Draw(t, "declperm")
				enums[c.Name] = decl
				c.Col.Kind = hx.KEnum
				c.Col.Enum = decl
			case 4:
				if len(vals) > 0 {
					c.Enum = "declared-bad"
					enums[c.Name] = append([]string{"zz-other"}, vals[1:]...)
					reject = append(reject, "value outside declared enum")
				}
			case 5:
				c.Enum = "toomany-declared"
				decl := make([]string, 256)
				for j := range decl {
					decl[j] = fmt.Sprintf("v%d", j)
				}
				enums[c.Name] = append(decl, vals...)
				reject = append(reject, "more than 255 declared enum values")
			}
		}
		if rapid.IntRange(0, 19).Draw(t, "enumnonstring") == 0 {
			// an Enums entry that cannot be honoured: the column exists but holds ints, floats or bools
			// (the library reports it like an entry for a missing column)
			var cands []int
			for i, c := range cols {
				if c.Col.Kind != hx.KString && c.Col.Kind != hx.KEnum && supported(c.Form) {
					cands = append(cands, i)
				}
			}
			if len(cands) > 0 {
				c := cols[cands[rapid.IntRange(0, len(cands)-1).Draw(t, "nonstrcol")]]
				if rapid.Bool().Draw(t, "nonstrdecl") {
					enums[c.Name] = []string{"1", "true", "0.5"}
				} else {
					enums[c.Name] = nil
				}
				reject = append(reject, "Enums entry for a non-string column")
			}
		}
		if rapid.IntRange(0, 19).Draw(t, "enummissing") == 0 {
			enums["nosuchcol"] = []string{"a"}
			reject = append(reject, "Enums entry for a missing column")
		}
		// column order
		data := map[string]interface{}{}
		for _, c := range cols {
			data[c.Name] = c.data()
		}
		var order []string
		orderKind := rapid.SampledFrom([]string{"absent", "absent", "perm", "perm", "unknown", "short", "long", "repeat", "longrepeat"}).Draw(t, "orderkind")
		colNames := make([]string, ncols)
		for i, c := range cols {
			colNames[i] = c.Name
		}
		switch orderKind {
		case "perm":
			order = rapid.Permutation(colNames).Draw(t, "order")
		case "unknown":
			order = rapid.Permutation(colNames).Draw(t, "order")
			order[rapid.IntRange(0, ncols-1).Draw(t, "unk")] = "nosuchcol"
			reject = append(reject, "unknown ColumnOrder entry")
		case "short":
			if ncols > 1 {
				order = rapid.Permutation(colNames).Draw(t, "order")[:ncols-1]
				reject = append(reject, "ColumnOrder too short")
			}
		case "long":
			order = append(rapid.Permutation(colNames).Draw(t, "order"), "extra")
			reject = append(reject, "ColumnOrder too long")
		case "repeat":
			// every entry is a known name and the length fits, but one column is named twice and another not at all: a frame
			// in that "order" cannot hold exactly the supplied values
			if ncols > 1 {
				order = rapid.Permutation(colNames).Draw(t, "order")
				a := rapid.IntRange(0, ncols-1).Draw(t, "repa")
				b := rapid.IntRange(0, ncols-2).Draw(t, "repb")
				if b >= a {
					b++
				}
				order[a] = order[b]
				reject = append(reject, "ColumnOrder names a column twice")
			}
		case "longrepeat":
			order = rapid.Permutation(colNames).Draw(t, "order")
			order = append(order, order[rapid.IntRange(0, ncols-1).Draw(t, "repc")])
			reject = append(reject, "ColumnOrder names a column twice (too long)")
		}
		// lengths: all supported columns must have equal length
		lens := map[int]bool{}
		for _, c := range cols {
			if supported(c.Form) {
				lens[c.Len] = true
			}
		}
		if len(lens) > 1 {
			reject = append(reject, "columns of unequal length")
		}
		desc := func() string {
			var sb strings.Builder
			fmt.Fprintf(&sb, "New: order(%s)=%q enums=%q\n", orderKind, order, fmt.Sprint(enums))
			for _, c := range cols {
				fmt.Fprintf(&sb, "  %q form=%s len=%d enum=%s: ", c.Name, c.Form, c.Len, c.Enum)
				for r := 0; r < c.Col.Len() && r < 45; r++ {
					cell := c.Col.Cell(r)
					if len(cell) > 40 {
						cell = fmt.Sprintf("%s…(%d bytes,h=%x)", cell[:20], len(cell), ev.Hash(cell))
					}
					sb.WriteString(cell + " ")
				}
				sb.WriteByte('\n')
			}
			fmt.Fprintf(&sb, "model: reject=%q", reject)
			return sb.String()
		}

		var fns []newqf.ConfigFunc
		if order != nil {
			fns = append(fns, newqf.ColumnOrder(order...))
		}
		if len(enums) > 0 {
			fns = append(fns, newqf.Enums(enums))
		}
		var qf qframe.QFrame
		if perr := hx.Safely(func() { qf = qframe.New(data, fns...) }); perr != nil {
			t.Fatalf("New panicked: %v\n%s", perr, desc())
		}
		if len(reject) > 0 {
			if qf.Err == nil {
				// make sure the frame is not quietly unusable either
				t.Fatalf("New accepted input that must be rejected\n%s", desc())
			}
			if qf.Len() != -1 {
				t.Fatalf("rejected frame exposes Len()=%d\n%s", qf.Len(), desc())
			}
			multi := false
			for _, r := range reject {
				if r == "columns of unequal length" || strings.Contains(r, "ColumnOrder") || strings.Contains(r, "Enums") || strings.Contains(r, "enum") {
					multi = true
				}
			}
			cls := []string{}
			for _, r := range reject {
				cls = append(cls, "reject:"+r)
			}
			evC08New.Case(multi, desc, cls...)
			return
		}
		if qf.Err != nil {
			t.Fatalf("New rejected valid input: %v\n%s", qf.Err, desc())
		}
		// expected frame: requested order, default alphabetical
		wantOrder := order
		if wantOrder == nil {
			wantOrder = append([]string(nil), colNames...)
			sort.Strings(wantOrder)
		}
		want := hx.Table{}
		for _, name := range wantOrder {
			for _, c := range cols {
				if c.Name == name {
					want.Cols = append(want.Cols, c.Col)
				}
			}
		}
		got, err := hx.Observe(qf)
		if err != nil {
			t.Fatalf("observe: %v\n%s", err, desc())
		}
		if qf.Len() != cols[0].Len {
			t.Fatalf("Len()=%d, want %d\n%s", qf.Len(), cols[0].Len, desc())
		}
		if diff := hx.Diff(want, got); diff != "" {
			t.Fatalf("New frame differs from its input: %s\n%s", diff, desc())
		}
		hasNull, hasEmpty := false, false
		cls := []string{"accept", "order:" + orderKind}
		for _, c := range cols {
			cls = append(cls, "form:"+c.Form)
			if c.Enum != "" {
				cls = append(cls, "enum:"+c.Enum)
			}
			for _, p := range c.Col.S {
				if p == nil {
					hasNull = true
				} else if *p == "" {
					hasEmpty = true
				}
			}
		}
		evC08New.Case(ncols >= 2 && hasNull && hasEmpty, desc, cls...)
	})
}

func TestC08Project(t *testing.T) {
	rapid.Check(t, func(t *rapid.T) {
		base := hx.GenTable(t, hx.TableOpt{MinCols: 1, MaxCols: 6, AllowDerived: true, Wide: true})
		d := hx.GenDerived(t, base, 4)
		obs, err := hx.Observe(d.QF)
		if err != nil {
			t.Fatalf("observe derived: %v\n%s", err, d.String())
		}
		if diff := hx.Diff(d.Exp, obs); diff != "" {
			t.Fatalf("derived frame differs from model: %s\n%s", diff, d.String())
		}
		// a chain of 1-3 requests: later requests see the column positions left by earlier ones
		cur, in := d.QF, d.Exp
		var reqs []string
		// now and then the receiver is an Aggregate result (its columns come with positions of their own): what it
		// holds is taken as observed, the requests on it are C08's
		if len(in.Cols) >= 2 && in.N() > 0 && rapid.IntRange(0, 4).Draw(t, "aggreceiver") == 0 {
			ki := rapid.IntRange(1, len(in.Cols)-1).Draw(t, "aggkeypos") // a key that is not the first column
			vi := rapid.IntRange(0, len(in.Cols)-1).Draw(t, "aggvalpos")
			agg := d.QF.GroupBy(groupby.Columns(in.Cols[ki].Name), groupby.Null(true)).Aggregate(qframe.Aggregation{Fn: "count", Column: in.Cols[vi].Name, As: "zz-count"})
			if aobs, err := hx.Observe(agg); err == nil && agg.Err == nil {
				cur, in = agg, hx.WithEnumDecl(aobs, d.Exp)
				reqs = append(reqs, fmt.Sprintf("(receiver: GroupBy(%q).Aggregate(count %q))", d.Exp.Cols[ki].Name, d.Exp.Cols[vi].Name))
			}
		}
		desc := func() string { return d.String() + "requests " + strings.Join(reqs, " ; ") }
		nreq := rapid.IntRange(1, 4).Draw(t, "nreq")
		// every frame met so far with what it has to hold: a request may go to an earlier frame again (siblings forked
		// from one parent), and all of them are observed once more when the chain is over
		type node struct {
			qf  qframe.QFrame
			tab hx.Table
			how string
		}
		nodes := []node{{cur, in, "receiver"}}
		recheck := func() {
			for _, nd := range nodes {
				if len(nd.tab.Cols) == 0 {
					continue
				}
				again, err := hx.Observe(nd.qf)
				if err != nil || hx.Diff(nd.tab, again) != "" {
					t.Fatalf("the result of %s no longer holds what it held when it was returned: %v %s\n%s", nd.how, err, hx.Diff(nd.tab, again), desc())
				}
			}
		}
		for step := 0; step < nreq; step++ {
			if step > 0 && rapid.IntRange(0, 2).Draw(t, "fork") == 0 {
				k := rapid.IntRange(0, len(nodes)-1).Draw(t, "forkfrom")
				cur, in = nodes[k].qf, nodes[k].tab
				reqs = append(reqs, fmt.Sprintf("(back to the result of %s)", nodes[k].how))
			}
			n := in.N()
			names := in.Names()
			if len(names) == 0 {
				break
			}
			var req string
			var res qframe.QFrame
			var want hx.Table
			wantErr, eitherErr, skipRows := false, false, false
			op := rapid.SampledFrom([]string{"select", "drop", "slice", "copy", "copy", "addpair"}).Draw(t, "op")
			run := func(f func()) {
				if perr := hx.Safely(f); perr != nil {
					t.Fatalf("%s panicked: %v\n%s", req, perr, desc())
				}
			}
			switch op {
			case "select":
				perm := rapid.Permutation(names).Draw(t, "perm")
				k := rapid.IntRange(1, len(perm)).Draw(t, "k")
				cols := append([]string(nil), perm[:k]...)
				if rapid.IntRange(0, 7).Draw(t, "unknown") == 0 {
					pos := rapid.IntRange(0, k-1).Draw(t, "pos")
					// a name nobody has, or a known name with a blank in front or behind it, or in another letter case: no such column
					unk := "nosuchcol"
					switch rapid.IntRange(0, 4).Draw(t, "unknownkind") {
					case 1:
						unk = cols[pos] + " "
					case 2:
						unk = " " + cols[pos]
					case 3:
						if up := strings.ToUpper(cols[pos]); up != cols[pos] {
							unk = up
						} else if lo := strings.ToLower(cols[pos]); lo != cols[pos] {
							unk = lo
						}
					}
					if in.Find(unk) < 0 {
						cols[pos] = unk
						wantErr = true
					}
				}
				req = fmt.Sprintf("Select(%q)", cols)
				run(func() { res = cur.Select(cols...) })
				if !wantErr {
					want = in.Project(cols)
				}
			case "drop":
				perm := rapid.Permutation(names).Draw(t, "perm")
				k := rapid.IntRange(0, len(perm)).Draw(t, "k")
				cols := append([]string(nil), perm[:k]...)
				if rapid.IntRange(0, 7).Draw(t, "unknown") == 0 {
					cols = append(cols, "nosuchcol")
					eitherErr = true
				}
				if k > 0 && rapid.IntRange(0, 3).Draw(t, "repeat") == 0 {
					// naming a column twice still means: drop it
					cols = append(cols, cols[rapid.IntRange(0, k-1).Draw(t, "repeatpos")])
				}
				req = fmt.Sprintf("Drop(%q)", cols)
				run(func() { res = cur.Drop(cols...) })
				want = in.Without(cols...)
				if len(want.Cols) == 0 {
					skipRows = true
				}
			case "slice":
				a := rapid.IntRange(-2, n+2).Draw(t, "a")
				b := rapid.IntRange(-2, n+3).Draw(t, "b")
				if rapid.Bool().Draw(t, "validslice") {
					a = rapid.IntRange(0, n).Draw(t, "va")
					b = rapid.IntRange(a, n).Draw(t, "vb")
				}
				req = fmt.Sprintf("Slice(%d,%d)", a, b)
				run(func() { res = cur.Slice(a, b) })
				if a < 0 || a > b || b > n {
					wantErr = true
				} else {
					want = in.Rows(hx.Iota(n)[a:b])
				}
			case "addpair":
				// two additions of a new column to the same receiver: siblings, each must hold its own column
				// afterwards (the first one is observed again at the end of the chain)
				src1 := rapid.SampledFrom(names).Draw(t, "pairsrc1")
				src2 := rapid.SampledFrom(names).Draw(t, "pairsrc2")
				new1, new2 := fmt.Sprintf("p%da", step), fmt.Sprintf("p%db", step)
				req = fmt.Sprintf("Copy(%q,%q) and, on the same receiver, Copy(%q,%q)", new1, src1, new2, src2)
				var first qframe.QFrame
				run(func() { first = cur.Copy(new1, src1); res = cur.Copy(new2, src2) })
				c1 := in.MustCol(src1)
				c1.Name = new1
				if first.Err != nil {
					t.Fatalf("%s returned Err: %v\n%s", req, first.Err, desc())
				}
				nodes = append(nodes, node{first, in.With(c1), fmt.Sprintf("Copy(%q,%q)", new1, src1)})
				c2 := in.MustCol(src2)
				c2.Name = new2
				want = in.With(c2)
			case "copy":
				src := rapid.SampledFrom(append(append([]string(nil), names...), "nosuchcol")).Draw(t, "src")
				dst := rapid.SampledFrom(append(append([]string(nil), names...), "n1", "n2", "", "'q'", "$v", "'q\nq'")).Draw(t, "dst")
				if src == "nosuchcol" && rapid.Bool().Draw(t, "samedst") {
					dst = "nosuchcol" // Copy(X, X) with an unknown X is still an unknown source
				}
				if src != "nosuchcol" && rapid.IntRange(0, 4).Draw(t, "casedst") == 0 {
					// a destination that differs from the source in letter case only is another column
					if up := strings.ToUpper(src); up != src && utf8.ValidString(up) {
						dst = up
					} else if lo := strings.ToLower(src); lo != src && utf8.ValidString(lo) {
						dst = lo
					}
				}
				req = fmt.Sprintf("Copy(%q,%q)", dst, src)
				run(func() { res = cur.Copy(dst, src) })
				switch {
				case src == "nosuchcol":
					wantErr = true
				case dst == src:
					want = in
				case dst == "" || dst == "'q'" || dst == "$v" || dst == "'q\nq'":
					wantErr = true
				default:
					c := in.MustCol(src)
					c.Name = dst
					want = in.With(c)
				}
			}
			reqs = append(reqs, req)
			switch {
			case wantErr:
				if res.Err == nil {
					t.Fatalf("%s must be rejected through Err\n%s", req, desc())
				}
				if res.Len() != -1 {
					t.Fatalf("%s: failed frame has Len()=%d\n%s", req, res.Len(), desc())
				}
				recheck()
				evC08Proj.Case(false, desc, "op:"+op+":rejected")
				return
			case eitherErr && res.Err != nil:
				recheck()
				evC08Proj.Case(false, desc, "op:"+op+":unknown-rejected")
				return
			}
			if res.Err != nil {
				t.Fatalf("%s returned Err: %v\n%s", req, res.Err, desc())
			}
			got, err := hx.Observe(res)
			if err != nil {
				t.Fatalf("observe: %v\n%s", err, desc())
			}
			if skipRows {
				if len(got.Cols) != 0 {
					t.Fatalf("%s: want no columns, got %q\n%s", req, got.Names(), desc())
				}
			} else {
				if diff := hx.Diff(want, got); diff != "" {
					t.Fatalf("%s differs from model: %s\n%s\nresult %s", req, diff, desc(), got.String())
				}
				if res.Len() != want.N() {
					t.Fatalf("%s: Len()=%d, want %d\n%s", req, res.Len(), want.N(), desc())
				}
			}
			// the receiver is untouched
			after, err := hx.Observe(cur)
			if err != nil || hx.Diff(in, after) != "" {
				t.Fatalf("%s changed its receiver: %v %s\n%s", req, err, hx.Diff(in, after), desc())
			}
			evC08Proj.Class("op:" + op)
			cur, in = res, want
			nodes = append(nodes, node{res, want, req})
		}
		recheck()
		evC08Proj.Case(d.NonIdentity() && d.Exp.N() >= 2, desc, fmt.Sprintf("chain=%d", len(reqs)))
	})
}
