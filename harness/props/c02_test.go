package props

import (
	"fmt"
	"testing"

	"pgregory.net/rapid"

	"verifharness/ev"
	"verifharness/hx"
)

// C02 — Filter keeps exactly the rows satisfying the clause, in frame order.
//
// Generated: a derived frame with two columns of every type (shared declared enum
// list, or both derived) and a clause tree of depth <= 3. Oracle: the reference model
// evaluates the tree per logical row; the result must hold exactly the rows evaluating
// to true, in frame order, all columns intact, Err nil.

var evC02 = ev.New("C02", "derived frame (two columns per type, nulls) x clause tree depth<=3 over all comparators/argument kinds (like/ilike patterns fixed or derived from the column values in another case); "+
	"non-trivial = tree has >=2 leaves or a negated leaf on a column containing null, non-identity index, result neither empty nor everything; "+
	"distinct = FNV-64 of (base table, route, clause)")

func TestC02(t *testing.T) { rapid.Check(t, propC02) }

// FuzzC02: the same property driven by coverage-guided bytes (thorough tier).
func FuzzC02(f *testing.F) { f.Fuzz(rapid.MakeFuzz(propC02)) }

func propC02(t *rapid.T) {
	base := hx.GenTable(t, hx.TableOpt{PerKind: 2, SharedEnum: true, AllowDerived: true, MinEnum: 2})
	steps := 4
	if hx.Rarely(t, 1500, "blocksize") {
		b := hx.GenBlockTable(t)
		// two columns per type, as the clause generator expects
		b.Cols = append(b.Cols, b.Cols[2], b.Cols[3], b.Cols[4])
		b.Cols[7].Name, b.Cols[8].Name, b.Cols[9].Name = "b2", "s2", "e2"
		base, steps = b, 1
	}
	d := hx.GenDerived(t, base, steps)
	// C02 owns Filter (and the frame must be what the derivation says)
	obs, err := hx.Observe(d.QF)
	if err != nil {
		t.Fatalf("observe derived: %v\n%s", err, d.String())
	}
	if diff := hx.Diff(d.Exp, obs); diff != "" {
		t.Fatalf("derived frame differs from model: %s\n%s", diff, d.String())
	}
	in := d.Exp
	// now and then the frame has an earlier life that touched its data columns (what it holds then is observed)
	var hist hx.History
	if steps > 1 && rapid.IntRange(0, 3).Draw(t, "history") == 0 {
		d.QF, in, hist = hx.GenHistory(t, d.QF, in, true)
		d.Route = append(d.Route, hist.String())
	}
	clause := hx.GenClause(t, in, 3, hx.ClauseOpt{Focus: hist.Focus})
	desc := func() string { return d.String() + "input " + in.String() + "clause " + clause.String() }

	var res = d.QF
	realClause := clause.Build(hx.KindMap(in))
	if rapid.IntRange(0, 3).Draw(t, "secondcall") == 0 {
		// the same clause value on the same frame a second time: that result counts (nothing may be left
		// behind in the frame, its columns or the clause by the first call)
		_ = hx.Safely(func() { _ = d.QF.Filter(realClause) })
	}
	if perr := hx.Safely(func() { res = d.QF.Filter(realClause) }); perr != nil {
		t.Fatalf("Filter panicked: %v\n%s", perr, desc())
	}
	if res.Err != nil {
		t.Fatalf("Filter returned Err for a well-typed clause: %v\n%s", res.Err, desc())
	}
	var keep []int
	for r := 0; r < in.N(); r++ {
		if clause.Eval(in, r) {
			keep = append(keep, r)
		}
	}
	want := in.Rows(keep)
	got, err := hx.Observe(res)
	if err != nil {
		t.Fatalf("observe result: %v\n%s", err, desc())
	}
	if diff := hx.Diff(want, got); diff != "" {
		t.Fatalf("Filter result differs from model (kept rows want %v): %s\n%s\nresult %s", keep, diff, desc(), got.String())
	}

	// follow-up calls on the result: whatever a frame remembers about how it was made, a later Filter looks at its
	// own clause - another clause narrows further, the same clause again changes nothing
	if rapid.IntRange(0, 3).Draw(t, "followup") == 0 {
		clause2 := hx.GenClause(t, in, 2, hx.ClauseOpt{})
		r2 := res.Filter(clause2.Build(hx.KindMap(in)))
		var keep2 []int
		for _, r := range keep {
			if clause2.Eval(in, r) {
				keep2 = append(keep2, r)
			}
		}
		g2, err := hx.Observe(r2)
		if err != nil || r2.Err != nil {
			t.Fatalf("second Filter on the result: %v %v\n%s\nsecond clause %s", r2.Err, err, desc(), clause2.String())
		}
		if diff := hx.Diff(in.Rows(keep2), g2); diff != "" {
			t.Fatalf("Filter(%s) of the Filter result differs from the model: %s\n%s", clause2.String(), diff, desc())
		}
		r3 := res.Filter(realClause)
		g3, err := hx.Observe(r3)
		if err != nil || r3.Err != nil || hx.Diff(want, g3) != "" {
			t.Fatalf("the same Filter applied to its own result changed it: %v %v %s\n%s", r3.Err, err, hx.Diff(want, g3), desc())
		}
	}
	// classification
	negNull := false
	classes := []string{}
	clause.Walk(func(c hx.Clause) {
		if c.Op == "leaf" {
			col := in.MustCol(c.Col)
			classes = append(classes, fmt.Sprintf("leaf:%s:%s:%s", col.Kind, c.Comp, c.Arg))
			if c.Inverse && col.HasNull() {
				negNull = true
			}
		}
		if c.Op == "not" && c.Kids[0].Op == "leaf" && in.MustCol(c.Kids[0].Col).HasNull() {
			negNull = true
		}
		if c.Op == "or" && len(c.Kids) > 1 {
			classes = append(classes, "or-with-several-children")
		}
	})
	if negNull {
		classes = append(classes, "negated-leaf-on-nullable-column")
	}
	if d.NonIdentity() {
		classes = append(classes, "non-identity-index")
	}
	nontrivial := (clause.Leaves() >= 2 || negNull) && d.NonIdentity() && len(keep) > 0 && len(keep) < in.N()
	// the receiver is as it was (its positional and its by-name observers)
	if again, err := hx.Observe(d.QF); err != nil || hx.Diff(in, again) != "" {
		t.Fatalf("the operation changed its receiver: %v %s\n%s", err, hx.Diff(in, again), desc())
	}
	evC02.Case(nontrivial, desc, classes...)
}
