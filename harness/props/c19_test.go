package props

import (
	"database/sql/driver"
	"fmt"
	"github.com/tobgu/qframe/config/newqf"
	"math"
	"strconv"
	"strings"
	"testing"
	"unicode"

	"github.com/tobgu/qframe"
	qsql "github.com/tobgu/qframe/config/sql"
	"pgregory.net/rapid"

	"verifharness/ev"
	"verifharness/faults"
	"verifharness/hx"
)

// C19 — ToSQL writes each row as one INSERT; ReadSQL rebuilds the result set.

var evC19 = ev.New("C19", "(a) derived frames with >=1 row of all column types (string/enum columns not entirely null) x dialect (escape character none/\"/`/'/non-ASCII, ? or $n placeholders, table names, Postgres/MySQL/SQLite presets): "+
	"one recorded statement per row in frame order, each parsed by a tolerant tokenizer as INSERT INTO <table> (<all columns in frame order>) VALUES (<n placeholders>), arguments = that row's cells (null string => NULL), "+
	"and ReadSQL of the stored rows reproduces the frame (enum => string); (b) generated result sets with NULLs in text/float columns (leading, middle, trailing), Int64ToBool/StringToFloat coercions and Precision: names, order, values, NULL => null/NaN, "+
	"precision as a predicate; non-trivial = >=2 rows and (non-identity index or a NULL or escape+incrementing dialect); distinct = FNV-64 of the case rendering")

type dialect struct {
	escape      rune // 0 = none
	incr        bool
	table       string
	preset      string // "", postgres, mysql, sqlite
	presetFirst bool
	opts        []dialectOpt
	readOpts    int // > 0: options that only concern ReadSQL (Precision, Coerce) are passed to ToSQL too - one configuration for both directions
}

type dialectOpt struct {
	kind string // postgres, mysql, sqlite, escape, incr
	r    rune
}

func (d dialect) fns() []qsql.ConfigFunc {
	fns := []qsql.ConfigFunc{qsql.Table(d.table)}
	if d.readOpts > 0 {
		// documented as read options ("rounded to when read from SQL"): writing must ignore them
		fns = append(fns, qsql.Precision(d.readOpts))
	}
	// the dialect options in the order drawn: each one sets its fields, later ones win
	for _, o := range d.opts {
		switch o.kind {
		case "postgres":
			fns = append(fns, qsql.Postgres())
		case "mysql":
			fns = append(fns, qsql.MySQL())
		case "sqlite":
			fns = append(fns, qsql.SQLite())
		case "escape":
			fns = append(fns, qsql.EscapeChar(o.r))
		case "incr":
			fns = append(fns, qsql.Incrementing())
		}
	}
	return fns
}

func (d dialect) String() string {
	return fmt.Sprintf("dialect{escape=%q incrementing=%v table=%q preset=%q precision-option=%d}", d.escape, d.incr, d.table, d.preset, d.readOpts)
}

// parseInsert is a tolerant parser for INSERT INTO <table> (<cols>) VALUES (<placeholders>)[;]
// expect lists the identifiers the statement should name (table first): an identifier that contains the escape character
// itself is only told from its surroundings by knowing it, so at each identifier position the expected one, wrapped, is tried first.
func parseInsert(stmt string, escape rune, expect []string) (table string, cols []string, placeholders []string, err error) {
	nIdent := 0
	s := strings.TrimSpace(stmt)
	s = strings.TrimSpace(strings.TrimSuffix(s, ";"))
	pos := 0
	skip := func() {
		for pos < len(s) && unicode.IsSpace(rune(s[pos])) {
			pos++
		}
	}
	keyword := func(k string) bool {
		skip()
		if len(s)-pos >= len(k) && strings.EqualFold(s[pos:pos+len(k)], k) {
			pos += len(k)
			return true
		}
		return false
	}
	ident := func() (string, bool) {
		skip()
		if pos >= len(s) {
			return "", false
		}
		if escape != 0 && nIdent < len(expect) {
			w := string(escape) + expect[nIdent] + string(escape)
			if rest := s[pos:]; strings.HasPrefix(rest, w) && (len(rest) == len(w) || strings.ContainsRune(" (),;", rune(rest[len(w)]))) {
				pos += len(w)
				nIdent++
				return expect[nIdent-1], true
			}
		}
		nIdent++
		if escape != 0 && strings.HasPrefix(s[pos:], string(escape)) {
			e := string(escape)
			end := strings.Index(s[pos+len(e):], e)
			if end < 0 {
				return "", false
			}
			id := s[pos+len(e) : pos+len(e)+end]
			pos += 2*len(e) + end
			return id, true
		}
		start := pos
		for pos < len(s) && !unicode.IsSpace(rune(s[pos])) && !strings.ContainsRune("(),;", rune(s[pos])) {
			pos++
		}
		return s[start:pos], pos > start
	}
	punct := func(c byte) bool {
		skip()
		if pos < len(s) && s[pos] == c {
			pos++
			return true
		}
		return false
	}
	if !keyword("INSERT") || !keyword("INTO") {
		return "", nil, nil, fmt.Errorf("does not start with INSERT INTO")
	}
	var ok bool
	if table, ok = ident(); !ok {
		return "", nil, nil, fmt.Errorf("no table name")
	}
	if !punct('(') {
		return "", nil, nil, fmt.Errorf("no column list")
	}
	for {
		c, ok := ident()
		if !ok {
			return "", nil, nil, fmt.Errorf("bad column list at %d", pos)
		}
		cols = append(cols, c)
		if punct(',') {
			continue
		}
		if punct(')') {
			break
		}
		return "", nil, nil, fmt.Errorf("bad column list at %d", pos)
	}
	if !keyword("VALUES") || !punct('(') {
		return "", nil, nil, fmt.Errorf("no VALUES (")
	}
	for {
		p, ok := ident()
		if !ok {
			return "", nil, nil, fmt.Errorf("bad placeholder list at %d", pos)
		}
		placeholders = append(placeholders, p)
		if punct(',') {
			continue
		}
		if punct(')') {
			break
		}
		return "", nil, nil, fmt.Errorf("bad placeholder list at %d", pos)
	}
	skip()
	if pos != len(s) {
		return "", nil, nil, fmt.Errorf("trailing text %q", s[pos:])
	}
	return table, cols, placeholders, nil
}

func argMatches(c hx.Col, r int, v driver.Value) bool {
	switch c.Kind {
	case hx.KInt:
		x, ok := v.(int64)
		return ok && int(x) == c.I[r]
	case hx.KFloat:
		x, ok := v.(float64)
		return ok && (math.Float64bits(x) == math.Float64bits(c.F[r]) || (math.IsNaN(x) && math.IsNaN(c.F[r])))
	case hx.KBool:
		x, ok := v.(bool)
		return ok && x == c.B[r]
	default:
		if c.S[r] == nil {
			return v == nil
		}
		switch x := v.(type) {
		case string:
			return x == *c.S[r]
		case []byte:
			return string(x) == *c.S[r]
		}
		return false
	}
}

var simpleNames = []string{"a", "b", "c", "col1", "Col2", "x_y", "id", "value", "pct%", "%d", "100%s"}
var quotedNames = []string{"a", "b c", "Col 2", "ä", "x,y", "a(b)", "sel;ect", "1$", "?", "tab\tname", "e", "100%", "a %d b", "%s", "%!v", "main.t", "v1.2 data", "a.b.c", ".",
	// blanks at the ends belong to the name
	" padded ", "trail ", " lead", "\ttab", "nl\n"}

func TestC19(t *testing.T) { rapid.Check(t, propC19) }

// FuzzC19: the same property driven by coverage-guided bytes (thorough tier).
func FuzzC19(f *testing.F) { f.Fuzz(rapid.MakeFuzz(propC19)) }

func propC19(t *rapid.T) {
	if rapid.IntRange(0, 2).Draw(t, "mode") > 0 {
		c19RoundTrip(t)
	} else if hx.Rarely(t, 6, "untypable") {
		c19Untypable(t)
	} else {
		c19ResultSet(t)
	}
}

func c19RoundTrip(t *rapid.T) {
	var d dialect
	// 0-3 dialect options in any order: presets (Postgres sets escape and numbering, MySQL/SQLite the escape
	// character only), EscapeChar, Incrementing; what a later option does not set stays as it was
	nopts := rapid.IntRange(0, 3).Draw(t, "nopts")
	for i := 0; i < nopts; i++ {
		o := dialectOpt{kind: rapid.SampledFrom([]string{"postgres", "mysql", "sqlite", "escape", "escape", "incr"}).Draw(t, "opt")}
		switch o.kind {
		case "postgres":
			d.escape, d.incr = '"', true
		case "sqlite":
			d.escape = '"'
		case "mysql":
			d.escape = '`'
		case "escape":
			o.r = rapid.SampledFrom([]rune{'"', '`', '"', '`', '\'', '´', '«', '“', '＂'}).Draw(t, "escape")
			d.escape = o.r
		case "incr":
			d.incr = true
		}
		d.opts = append(d.opts, o)
		d.preset += o.kind + ","
	}
	if rapid.IntRange(0, 3).Draw(t, "readoptsonwrite") == 0 {
		d.readOpts = rapid.IntRange(1, 3).Draw(t, "precisiononwrite")
	}
	pool := simpleNames
	if d.escape != 0 {
		pool = quotedNames
	}
	d.table = rapid.SampledFrom(pool).Draw(t, "table")
	// identifiers that contain the escape character themselves, also as their first and last character: they are
	// wrapped like any other (the statement is about the caller's name, whatever it looks like)
	wrapNames := d.escape != 0 && rapid.IntRange(0, 5).Draw(t, "escapeinnames") == 0
	if wrapNames {
		e := string(d.escape)
		d.table = rapid.SampledFrom([]string{e + "my table" + e, e + e, "a" + e + "b", e + "t", "t" + e, e + "main" + e + "." + e + "t" + e}).Draw(t, "wrappedtable")
	}
	maxCols := 5
	if rapid.IntRange(0, 4).Draw(t, "wide") == 0 {
		maxCols = 14 // two-digit placeholder numbers
		for i := 0; i < 8; i++ {
			pool = append(pool, fmt.Sprintf("w%d", i))
		}
	}
	base := hx.GenTable(t, hx.TableOpt{MinCols: 1, MaxCols: maxCols, AllowDerived: true, Wide: true, Rows: rapid.OneOf(rapid.IntRange(1, 25), rapid.IntRange(1, 25), rapid.IntRange(1, 25), rapid.IntRange(1, 25), rapid.IntRange(1, 25), rapid.IntRange(95, 210))})
	if maxCols > 5 {
		target := rapid.IntRange(10, 14).Draw(t, "widecols")
		for len(base.Cols) < target {
			base.Cols = append(base.Cols, hx.Col{Name: fmt.Sprintf("x%d", len(base.Cols)), Kind: hx.KInt, I: make([]int, base.N())})
		}
	}
	base = renameCols(t, base, pool)
	if wrapNames && d.escape != '"' && d.escape != '\'' && rapid.Bool().Draw(t, "wrapcol") {
		// (column names wrapped in ' or " are not legal column names)
		e := string(d.escape)
		base.Cols[0].Name = rapid.SampledFrom([]string{e + "a" + e, e + e, "a" + e + "b", e + "col 1" + e}).Draw(t, "wrappedcol")
		for i := 1; i < len(base.Cols); i++ {
			if base.Cols[i].Name == base.Cols[0].Name {
				base.Cols[i].Name += "2"
			}
		}
	}
	// string/enum columns not entirely null
	for ci, c := range base.Cols {
		if (c.Kind == hx.KString || c.Kind == hx.KEnum) && c.Len() > 0 {
			all := true
			for _, p := range c.S {
				if p != nil {
					all = false
				}
			}
			if all {
				v := "a"
				if c.Enum != nil {
					v = c.Enum[0]
				}
				s := append([]*string(nil), c.S...)
				s[0] = hx.Sp(v)
				base.Cols[ci].S = s
			}
		}
	}
	der := hx.GenDerived(t, base, 3)
	in := der.Input(t)
	if in.N() == 0 {
		t.Skip("no rows left")
	}
	for _, c := range in.Cols {
		if c.Kind == hx.KString || c.Kind == hx.KEnum {
			all := true
			for _, p := range c.S {
				if p != nil {
					all = false
				}
			}
			if all {
				t.Skip("a string column became entirely null")
			}
		}
	}
	desc := func() string { return "round trip " + d.String() + "\n" + der.String() }
	m, db := faults.New()
	defer m.Release(db)
	tx, err := db.Begin()
	if err != nil {
		t.Fatal(err)
	}
	// now and then another frame was written before, in the same process, to the same table with the same options, whose
	// column list reads the same once the names are glued together (["a,b"] next to ["a","b"]): the statement of the
	// checked write below names the checked frame's columns all the same
	if len(in.Cols) >= 2 && rapid.IntRange(0, 3).Draw(t, "decoywrite") == 0 {
		sep := rapid.SampledFrom([]string{",", ", ", ",", " ", "|", "\x00", ""}).Draw(t, "decoysep")
		names := in.Names()
		glued := append([]string{names[0] + sep + names[1]}, names[2:]...)
		data := map[string]interface{}{}
		for _, n := range glued {
			data[n] = []int{1}
		}
		if dq := qframe.New(data, newqf.ColumnOrder(glued...)); dq.Err == nil {
			dm, ddb := faults.New()
			if dtx, err := ddb.Begin(); err == nil {
				_ = hx.Safely(func() { _ = dq.ToSQL(dtx, d.fns()...) })
				_ = dtx.Rollback()
			}
			dm.Release(ddb)
		}
	}
	// now and then the store refuses one of the rows: a ToSQL that reports success has stored every row (only then can
	// reading back reproduce the frame), so success is no possible outcome here
	refused := -1
	if rapid.IntRange(0, 7).Draw(t, "storerefuses") == 0 {
		refused = rapid.IntRange(0, in.N()-1).Draw(t, "refusedrow")
		m.FailExecAt = refused
	}
	var werr error
	if perr := hx.Safely(func() { werr = der.QF.ToSQL(tx, d.fns()...) }); perr != nil {
		t.Fatalf("ToSQL panicked: %v\n%s", perr, desc())
	}
	if refused >= 0 {
		if werr == nil && m.Delivered > 0 {
			t.Fatalf("ToSQL reported success although the store refused the INSERT of row %d (%d statements were sent for %d rows): the stored rows do not reproduce the frame\n%s",
				refused, len(m.Execs), in.N(), desc())
		}
		if werr == nil {
			t.Fatalf("the INSERT of row %d was never sent (%d statements for %d rows)\n%s", refused, len(m.Execs), in.N(), desc())
		}
		evC19.Case(in.N() >= 2, desc, "mode:roundtrip", "store-refuses-a-row")
		return
	}
	if werr != nil {
		t.Fatalf("ToSQL failed: %v\n%s", werr, desc())
	}
	if len(m.Execs) != in.N() {
		t.Fatalf("%d statements executed for %d rows\n%s", len(m.Execs), in.N(), desc())
	}
	for r, call := range m.Execs {
		table, cols, phs, err := parseInsert(call.Query, d.escape, append([]string{d.table}, in.Names()...))
		if err != nil {
			t.Fatalf("statement %d is not an INSERT of the expected shape: %v: %q\n%s", r, err, call.Query, desc())
		}
		if table != d.table {
			t.Fatalf("statement %d names table %q, want %q: %q\n%s", r, table, d.table, call.Query, desc())
		}
		if fmt.Sprint(cols) != fmt.Sprint(in.Names()) {
			t.Fatalf("statement %d names columns %q, want %q: %q\n%s", r, cols, in.Names(), call.Query, desc())
		}
		if len(phs) != len(cols) {
			t.Fatalf("statement %d has %d placeholders for %d columns: %q\n%s", r, len(phs), len(cols), call.Query, desc())
		}
		for i, p := range phs {
			want := "?"
			if d.incr {
				want = "$" + strconv.Itoa(i+1)
			}
			if p != want {
				t.Fatalf("statement %d placeholder %d is %q, want %q: %q\n%s", r, i, p, want, call.Query, desc())
			}
		}
		if len(call.Args) != len(cols) {
			t.Fatalf("statement %d got %d arguments for %d columns\n%s", r, len(call.Args), len(cols), desc())
		}
		for ci, c := range in.Cols {
			if !argMatches(c, r, call.Args[ci]) {
				t.Fatalf("statement %d argument %d is %#v, row %d of the frame holds %s in column %q\n%s", r, ci, call.Args[ci], r, c.Cell(r), c.Name, desc())
			}
		}
	}
	// read the stored rows back
	m.Cols = in.Names()
	m.Rows = make([][]driver.Value, len(m.Execs))
	for i, call := range m.Execs {
		m.Rows[i] = call.Args
	}
	var back qframe.QFrame
	if perr := hx.Safely(func() { back = qframe.ReadSQL(tx, qsql.Query("select * from x")) }); perr != nil {
		t.Fatalf("ReadSQL panicked: %v\n%s", perr, desc())
	}
	if back.Err != nil {
		t.Fatalf("ReadSQL of the stored rows failed: %v\n%s", back.Err, desc())
	}
	want := hx.Table{Cols: append([]hx.Col(nil), in.Cols...)}
	for ci, c := range want.Cols {
		if c.Kind == hx.KEnum {
			want.Cols[ci].Kind = hx.KString
			want.Cols[ci].Enum = nil
		}
	}
	got, err := hx.Observe(back)
	if err != nil {
		t.Fatal(err)
	}
	if diff := hx.Diff(want, got); diff != "" {
		t.Fatalf("frame written with ToSQL and read back with ReadSQL differs: %s\n%s", diff, desc())
	}
	_ = tx.Rollback()
	hasNull := false
	for _, c := range in.Cols {
		if c.HasNull() {
			hasNull = true
		}
	}
	classes := []string{"mode:roundtrip", "preset:" + d.preset, fmt.Sprintf("escape=%q", d.escape), fmt.Sprintf("incrementing=%v", d.incr)}
	evC19.Case(in.N() >= 2 && (der.NonIdentity() || hasNull || (d.escape != 0 && d.incr)), desc, classes...)
}

func c19ResultSet(t *rapid.T) {
	rs := genResultSet(t, 1)
	var pairs []qsql.CoercePair
	exp := rs.Exp
	// coercions: add an int 0/1 column read as bool and a numeric text column read as float
	n := len(rs.Rows)
	if rapid.Bool().Draw(t, "coercebool") {
		c := hx.Col{Name: "asbool", Kind: hx.KBool}
		for r := 0; r < n; r++ {
			v := rapid.SampledFrom([]int{0, 1, 2, -1}).Draw(t, "i01")
			rs.Rows[r] = append(rs.Rows[r], int64(v))
			c.B = append(c.B, v != 0)
		}
		rs.Cols = append(rs.Cols, "asbool")
		exp.Cols = append(exp.Cols, c)
		pairs = append(pairs, qsql.CoercePair{Column: "asbool", Type: qsql.Int64ToBool})
	}
	nullInCoerced := false
	if rapid.Bool().Draw(t, "coercefloat") {
		c := hx.Col{Name: "asfloat", Kind: hx.KFloat}
		for r := 0; r < n; r++ {
			if r > 0 && rapid.IntRange(0, 7).Draw(t, "coercednull") == 0 {
				// a NULL in a coerced text column: the outcome (Err, or NaN) is not specified, but it must not panic
				rs.Rows[r] = append(rs.Rows[r], nil)
				c.F = append(c.F, math.NaN())
				nullInCoerced = true
				continue
			}
			// number texts in the spellings stores hand out (what they denote is decided by strconv in the model)
			txt := rapid.SampledFrom([]string{"1.5", "-0.25", "1e3", "0", "42", "3.14159", "1e-7", "+7", "007", ".5", "5.", "1E3", "-0", "1e+2", "12345678901234567890", "0.1", "100.00", "-1e-3",
				// more significant digits than a float64 holds: the nearest float64 is what the text denotes
				"0.12345678901234567", "1234567.8901234567", "3.141592653589793238", "9007199254740993", "0.30000000000000004", "123456789012345678.5", "0.000123456789012345678"}).Draw(t, "numtext")
			f, _ := strconv.ParseFloat(txt, 64)
			rs.Rows[r] = append(rs.Rows[r], txt)
			c.F = append(c.F, f)
		}
		rs.Cols = append(rs.Cols, "asfloat")
		exp.Cols = append(exp.Cols, c)
		pairs = append(pairs, qsql.CoercePair{Column: "asfloat", Type: qsql.StringToFloat})
	}
	precision := rapid.SampledFrom([]int{0, 0, 1, 2, 4, 0, 0, 1, 2, 4, 16, 17}).Draw(t, "precision")
	if precision >= 16 {
		// many decimals: only meaningful (and within what the scaled value can hold) for small magnitudes
		for ci, c := range exp.Cols {
			if c.Kind != hx.KFloat {
				continue
			}
			for r := range c.F {
				if f := c.F[r]; !math.IsNaN(f) && (math.Abs(f) >= 0.02 || (f != 0 && math.Abs(f) < 1e-9)) {
					f = float64(rapid.IntRange(-30000000, 30000000).Draw(t, "pnumsmall")) / (1 << 31)
					if f != 0 && math.Abs(f) < 1e-6 {
						f = 0.001953125
					}
					exp.Cols[ci].F[r] = f
					if _, isText := rs.Rows[r][ci].(string); isText {
						rs.Rows[r][ci] = strconv.FormatFloat(f, 'g', -1, 64)
					} else {
						rs.Rows[r][ci] = f
					}
				}
			}
		}
	}
	if precision > 0 && precision < 16 {
		// keep the floats in a range where decimal rounding is meaningful
		for ci, c := range exp.Cols {
			if c.Kind != hx.KFloat {
				continue
			}
			for r := range c.F {
				f := c.F[r]
				if math.IsNaN(f) {
					continue // NULL
				}
				if math.IsInf(f, 0) || math.Abs(f) > 1e9 || (f != 0 && math.Abs(f) < 1e-9) {
					f = float64(rapid.IntRange(-100000, 100000).Draw(t, "pnum")) / 1024
					exp.Cols[ci].F[r] = f
					if _, isText := rs.Rows[r][ci].(string); isText {
						rs.Rows[r][ci] = strconv.FormatFloat(f, 'g', -1, 64)
					} else {
						rs.Rows[r][ci] = f
					}
				}
			}
		}
	}
	desc := func() string { return fmt.Sprintf("%scoerce=%v precision=%d", rs.String(), pairs, precision) }
	m, db := faults.New()
	defer m.Release(db)
	m.Cols, m.Rows = rs.Cols, rs.Rows
	m.ReuseBuffers = rapid.Bool().Draw(t, "reusebuffers")
	tx, err := db.Begin()
	if err != nil {
		t.Fatal(err)
	}
	defer tx.Rollback()
	fns := []qsql.ConfigFunc{qsql.Query("select * from t")}
	if len(pairs) > 0 {
		fns = append(fns, qsql.Coerce(pairs...))
	}
	if precision > 0 {
		fns = append(fns, qsql.Precision(precision))
	}
	var qf qframe.QFrame
	// now and then through ReadSQLWithArgs: the query arguments must reach the driver unchanged
	var qargs []interface{}
	if rapid.IntRange(0, 2).Draw(t, "withargs") == 0 {
		for i, n := 0, rapid.IntRange(0, 3).Draw(t, "nqargs"); i < n; i++ {
			switch rapid.IntRange(0, 2).Draw(t, "qargkind") {
			case 0:
				qargs = append(qargs, int64(hx.GenInt(t)))
			case 1:
				qargs = append(qargs, hx.GenStr(t, false))
			default:
				qargs = append(qargs, rapid.Bool().Draw(t, "qargb"))
			}
		}
		if qargs == nil {
			qargs = []interface{}{}
		}
	}
	if rapid.IntRange(0, 3).Draw(t, "decoyprecision") == 0 {
		// an earlier Precision option that a later one overrides (also by Precision(0): no rounding)
		fns = append([]qsql.ConfigFunc{qsql.Precision(rapid.IntRange(1, 3).Draw(t, "decoyp"))}, append(fns, qsql.Precision(precision))...)
	}
	if rapid.IntRange(0, 3).Draw(t, "reuseconfig") == 0 {
		// the same option values (and the pair list behind Coerce) served an earlier read: the second read counts
		_ = hx.Safely(func() { _ = qframe.ReadSQL(tx, fns...) })
		m.Queries = nil
	}
	if perr := hx.Safely(func() {
		if qargs != nil {
			qf = qframe.ReadSQLWithArgs(tx, qargs, fns...)
		} else {
			qf = qframe.ReadSQL(tx, fns...)
		}
	}); perr != nil {
		t.Fatalf("ReadSQL panicked: %v\n%s", perr, desc())
	}
	if qf.Err != nil && nullInCoerced {
		evC19.Case(false, desc, "mode:resultset", "null-in-coerced-column:error")
		return
	}
	if qf.Err != nil {
		t.Fatalf("ReadSQL failed: %v\n%s", qf.Err, desc())
	}
	if len(m.Queries) != 1 || m.Queries[0].Query != "select * from t" {
		t.Fatalf("ReadSQL ran %v, want exactly the configured query\n%s", m.Queries, desc())
	}
	if fmt.Sprint(m.Queries[0].Args) != fmt.Sprint(append([]interface{}{}, qargs...)) && !(len(m.Queries[0].Args) == 0 && len(qargs) == 0) {
		t.Fatalf("query arguments %v reached the driver as %v\n%s", qargs, m.Queries[0].Args, desc())
	}
	got, err := hx.Observe(qf)
	if err != nil {
		t.Fatal(err)
	}
	if precision == 0 {
		if diff := hx.Diff(exp, got); diff != "" {
			t.Fatalf("ReadSQL result differs from the result set: %s\n%s", diff, desc())
		}
	} else {
		// compare everything but floats exactly, floats by the rounding predicate
		if fmt.Sprint(got.Names()) != fmt.Sprint(exp.Names()) || got.N() != exp.N() {
			t.Fatalf("ReadSQL result shape differs: %q x %d vs %q x %d\n%s", got.Names(), got.N(), exp.Names(), exp.N(), desc())
		}
		for ci, c := range exp.Cols {
			g := got.Cols[ci]
			if g.Kind != c.Kind {
				t.Fatalf("column %q type %s, want %s\n%s", c.Name, g.Kind, c.Kind, desc())
			}
			for r := 0; r < c.Len(); r++ {
				if c.Kind != hx.KFloat {
					if !hx.CellEq(c, r, g, r) {
						t.Fatalf("column %q row %d: %s, want %s\n%s", c.Name, r, g.Cell(r), c.Cell(r), desc())
					}
					continue
				}
				w, x := c.F[r], g.F[r]
				if math.IsNaN(w) != math.IsNaN(x) {
					t.Fatalf("column %q row %d: NULL handling differs: %v vs %v\n%s", c.Name, r, x, w, desc())
				}
				if math.IsNaN(w) {
					continue
				}
				// rounding predicate with tolerances that scale with the magnitude (float64 has ~16 digits: at
				// |w| = 1e9 and 4 decimals the product w*10^p is only exact to about 1e-3)
				scale := math.Pow(10, float64(precision))
				tolDiff := 0.5/scale + 8*math.Abs(w)*2.3e-16 + 1e-12
				if precision >= 16 {
					tolDiff = 0.5/scale + 8*math.Abs(w)*2.3e-16 // (the small magnitudes leave no room for an absolute allowance)
				}
				tolInt := math.Max(1e-6, 16*math.Abs(x*scale)*2.3e-16)
				if math.Abs(x-w) > tolDiff || math.Abs(x*scale-math.Round(x*scale)) > tolInt {
					t.Fatalf("column %q row %d: %v is not %v rounded to %d decimals\n%s", c.Name, r, x, w, precision, desc())
				}
			}
		}
	}
	hasNull := false
	for _, c := range exp.Cols {
		if c.HasNull() {
			hasNull = true
		}
	}
	classes := []string{"mode:resultset", fmt.Sprintf("precision=%d", precision), fmt.Sprintf("coercions=%d", len(pairs))}
	// "its values in row order": a result set whose fetch breaks off at row k is never handed out as if it were the
	// result set (an error, or - if the failure is not reached - the complete frame)
	if len(m.Rows) > 0 && rapid.IntRange(0, 3).Draw(t, "truncate") == 0 {
		k := rapid.IntRange(0, len(m.Rows)).Draw(t, "failrow")
		m.FailNextAt = k
		var part qframe.QFrame
		if perr := hx.Safely(func() { part = qframe.ReadSQL(tx, fns...) }); perr != nil {
			t.Fatalf("ReadSQL panicked when the fetch of row %d failed: %v\n%s", k, perr, desc())
		}
		m.FailNextAt = -1
		if part.Err == nil && part.Len() != qf.Len() {
			t.Fatalf("the fetch of row %d of %d failed but ReadSQL returned an error-free frame with %d rows\n%s", k, len(m.Rows), part.Len(), desc())
		}
		classes = append(classes, "fetch-broken-off")
	}
	evC19.Case(n >= 2 && hasNull, desc, classes...)
}
