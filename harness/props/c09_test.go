package props

import (
	"bytes"
	"encoding/json"
	"fmt"
	"github.com/tobgu/qframe/config/csv"
	"math"
	"sort"
	"strconv"
	"strings"
	"testing"

	"github.com/tobgu/qframe"
	"github.com/tobgu/qframe/config/groupby"
	"pgregory.net/rapid"

	"verifharness/ev"
	"verifharness/hx"
)

// C09 — All observations of a frame agree and Equals means cell-wise equality.

var evC09 = ev.New("C09", "frames reached through arbitrary derivations; (a) Len, views (Len/ItemAt/Slice), ToCSV cells (independent RFC 4180 reader), ToJSON records (encoding/json token stream, key order) and "+
	"String() rows (fixed-width fields read off the dash line) must all describe the model table (and the column-less frame GroupBy().Aggregate() must be written as one empty record per row); (b) Equals against the frame itself, a rebuild with New and single-point mutants of the rebuild "+
	"(cell, name, column order, type string<->enum / int<->float, one row fewer), both argument orders, must equal model equality; (c) the same deterministic operation applied to the frame and to its rebuild gives Equal results; "+
	"non-trivial = non-identity index, >=2 rows, a nullable column containing a null; distinct = FNV-64 of (table, route, mutation, operation)")

func noInf(tab hx.Table) hx.Table {
	for ci, c := range tab.Cols {
		if c.Kind != hx.KFloat {
			continue
		}
		f := append([]float64(nil), c.F...)
		for i, v := range f {
			if math.IsInf(v, 0) {
				f[i] = 12.75
			}
		}
		tab.Cols[ci].F = f
	}
	return tab
}

// modelEquals is the equality of the property statement: same names in the same
// order, same types, pairwise equal cells (null = null, NaN = NaN, enum by value,
// floats by numeric equality).
func modelEquals(a, b hx.Table) bool {
	if len(a.Cols) != len(b.Cols) || a.N() != b.N() {
		return false
	}
	for i := range a.Cols {
		x, y := a.Cols[i], b.Cols[i]
		if x.Name != y.Name || x.Kind != y.Kind {
			return false
		}
		for r := 0; r < x.Len(); r++ {
			if x.Kind == hx.KFloat {
				if x.F[r] != y.F[r] && !(math.IsNaN(x.F[r]) && math.IsNaN(y.F[r])) {
					return false
				}
				continue
			}
			if !hx.CellEq(x, r, y, r) {
				return false
			}
		}
	}
	return true
}

func checkViews(qf qframe.QFrame, tab hx.Table) string {
	if qf.Len() != tab.N() && len(tab.Cols) > 0 {
		return fmt.Sprintf("Len()=%d, model %d", qf.Len(), tab.N())
	}
	// the cheap name/type observers
	tm := qf.ColumnTypeMap()
	if len(tm) != len(tab.Cols) {
		return fmt.Sprintf("ColumnTypeMap has %d entries, frame has %d columns", len(tm), len(tab.Cols))
	}
	for _, c := range tab.Cols {
		if !qf.Contains(c.Name) {
			return fmt.Sprintf("Contains(%q) is false for a column of the frame", c.Name)
		}
		if string(tm[c.Name]) != c.Kind.String() {
			return fmt.Sprintf("ColumnTypeMap[%q]=%s, ColumnTypes says %s", c.Name, tm[c.Name], c.Kind)
		}
	}
	if qf.Contains("no-such-column") || qf.Contains(hx.HelperRank) {
		return "Contains reports a column that is not in the frame"
	}
	for _, c := range tab.Cols {
		switch c.Kind {
		case hx.KInt:
			v, err := qf.IntView(c.Name)
			if err != nil {
				return err.Error()
			}
			s := v.Slice()
			if v.Len() != len(c.I) || len(s) != len(c.I) {
				return fmt.Sprintf("int view %q: Len %d, Slice len %d, model %d", c.Name, v.Len(), len(s), len(c.I))
			}
			for r := range c.I {
				if v.ItemAt(r) != c.I[r] || s[r] != c.I[r] {
					return fmt.Sprintf("int view %q row %d: ItemAt %d Slice %d model %d", c.Name, r, v.ItemAt(r), s[r], c.I[r])
				}
			}
		case hx.KFloat:
			v, err := qf.FloatView(c.Name)
			if err != nil {
				return err.Error()
			}
			s := v.Slice()
			if v.Len() != len(c.F) || len(s) != len(c.F) {
				return fmt.Sprintf("float view %q: Len %d, Slice len %d, model %d", c.Name, v.Len(), len(s), len(c.F))
			}
			sc := hx.Col{Kind: hx.KFloat, F: s}
			for r := range c.F {
				if !hx.CellEq(c, r, sc, r) {
					return fmt.Sprintf("float view %q row %d: Slice %v model %v", c.Name, r, s[r], c.F[r])
				}
			}
		case hx.KBool:
			v, err := qf.BoolView(c.Name)
			if err != nil {
				return err.Error()
			}
			s := v.Slice()
			if v.Len() != len(c.B) || len(s) != len(c.B) {
				return fmt.Sprintf("bool view %q: Len %d, Slice len %d, model %d", c.Name, v.Len(), len(s), len(c.B))
			}
			for r := range c.B {
				if s[r] != c.B[r] {
					return fmt.Sprintf("bool view %q row %d: Slice %v model %v", c.Name, r, s[r], c.B[r])
				}
			}
		case hx.KString, hx.KEnum:
			var s []*string
			var l int
			if c.Kind == hx.KString {
				v, err := qf.StringView(c.Name)
				if err != nil {
					return err.Error()
				}
				s, l = v.Slice(), v.Len()
			} else {
				v, err := qf.EnumView(c.Name)
				if err != nil {
					return err.Error()
				}
				s, l = v.Slice(), v.Len()
			}
			if l != len(c.S) || len(s) != len(c.S) {
				return fmt.Sprintf("view %q: Len %d, Slice len %d, model %d", c.Name, l, len(s), len(c.S))
			}
			sc := hx.Col{Kind: c.Kind, S: s}
			for r := range c.S {
				if !hx.CellEq(c, r, sc, r) {
					return fmt.Sprintf("view %q row %d: Slice %s model %s", c.Name, r, sc.Cell(r), c.Cell(r))
				}
			}
		}
	}
	return ""
}

// cellText is the text a cell must denote in CSV / String output: checked by value
// for numbers and bools, literally for strings.
func cellMatches(c hx.Col, r int, text string, nullText string) bool {
	switch c.Kind {
	case hx.KInt:
		v, err := strconv.Atoi(text)
		return err == nil && v == c.I[r]
	case hx.KFloat:
		if math.IsNaN(c.F[r]) {
			return text == nullText
		}
		v, err := strconv.ParseFloat(text, 64)
		return err == nil && math.Float64bits(v) == math.Float64bits(c.F[r])
	case hx.KBool:
		v, err := strconv.ParseBool(text)
		return err == nil && v == c.B[r] && (text == "true" || text == "false")
	default:
		if c.S[r] == nil {
			return text == nullText
		}
		return text == *c.S[r]
	}
}

func checkCSV(qf qframe.QFrame, tab hx.Table) string {
	// first in another column order, twice with the same option value (and the caller's slice behind it): both
	// writes tell the same as the plain one
	if len(tab.Cols) > 1 {
		rev := make([]string, len(tab.Cols))
		for i, c := range tab.Cols {
			rev[len(rev)-1-i] = c.Name
		}
		opt := csv.Columns(rev)
		var outs [2]string
		for k := range outs {
			var b bytes.Buffer
			if err := qf.ToCSV(&b, opt); err != nil {
				return fmt.Sprintf("ToCSV with Columns(%q), call %d: %v", rev, k+1, err)
			}
			outs[k] = b.String()
		}
		if outs[0] != outs[1] {
			return fmt.Sprintf("two ToCSV calls with one Columns option wrote different texts: %q vs %q", clipS(outs[0]), clipS(outs[1]))
		}
		rows, err := hx.ParseCSV([]byte(outs[1]), ',')
		if err != nil || len(rows) != tab.N()+1 {
			return fmt.Sprintf("ToCSV with Columns wrote %d lines (%v), want header + %d rows", len(rows), err, tab.N())
		}
		for r := 0; r <= tab.N(); r++ {
			if len(rows[r]) != len(tab.Cols) {
				return fmt.Sprintf("ToCSV with Columns: line %d has %d fields, want %d", r, len(rows[r]), len(tab.Cols))
			}
			for ci := range tab.Cols {
				c := tab.Cols[len(tab.Cols)-1-ci]
				if r == 0 && rows[0][ci] != c.Name {
					return fmt.Sprintf("ToCSV with Columns(%q): header field %d is %q", rev, ci, rows[0][ci])
				}
				if r > 0 && !cellMatches(c, r-1, rows[r][ci], "") {
					return fmt.Sprintf("ToCSV with Columns: row %d column %q: wrote %q, frame holds %s", r-1, c.Name, rows[r][ci], c.Cell(r-1))
				}
			}
		}
	}
	var buf bytes.Buffer
	if err := qf.ToCSV(&buf); err != nil {
		return "ToCSV error: " + err.Error()
	}
	rows, err := hx.ParseCSV(buf.Bytes(), ',')
	if err != nil {
		return fmt.Sprintf("ToCSV output is not RFC 4180: %v: %q", err, buf.String())
	}
	if len(rows) != tab.N()+1 {
		return fmt.Sprintf("ToCSV wrote %d lines, want header + %d rows: %q", len(rows), tab.N(), clipS(buf.String()))
	}
	if fmt.Sprint(rows[0]) != fmt.Sprint(tab.Names()) {
		return fmt.Sprintf("ToCSV header %q, want %q", rows[0], tab.Names())
	}
	for r := 0; r < tab.N(); r++ {
		if len(rows[r+1]) != len(tab.Cols) {
			return fmt.Sprintf("ToCSV row %d has %d fields, want %d", r, len(rows[r+1]), len(tab.Cols))
		}
		for ci, c := range tab.Cols {
			if !cellMatches(c, r, rows[r+1][ci], "") {
				return fmt.Sprintf("ToCSV row %d column %q: wrote %q, frame holds %s", r, c.Name, rows[r+1][ci], c.Cell(r))
			}
		}
	}
	return ""
}

func clipS(s string) string {
	if len(s) > 300 {
		return s[:300] + "…"
	}
	return s
}

func checkJSON(qf qframe.QFrame, tab hx.Table) string {
	var buf bytes.Buffer
	if err := qf.ToJSON(&buf); err != nil {
		return "ToJSON error: " + err.Error()
	}
	return hx.CheckJSONDenotes(buf.Bytes(), tab)
}

func checkString(qf qframe.QFrame, tab hx.Table) string {
	for _, c := range tab.Cols {
		if strings.ContainsAny(c.Name, "\n") {
			return ""
		}
		for _, p := range c.S {
			if p != nil && strings.ContainsAny(*p, "\n") {
				return "" // line breaks in cells make the printout ambiguous: observer skipped
			}
		}
	}
	out := qf.String()
	lines := strings.Split(out, "\n")
	if len(lines) < 4 {
		return fmt.Sprintf("String() has %d lines: %q", len(lines), out)
	}
	// column widths from the dash line
	var widths []int
	if len(tab.Cols) > 0 {
		for _, f := range strings.Split(lines[1], " ") {
			if strings.Trim(f, "-") != "" {
				return fmt.Sprintf("String() second line is not a dash line: %q", lines[1])
			}
			widths = append(widths, len(f))
		}
	}
	if len(widths) != len(tab.Cols) {
		return fmt.Sprintf("String() dash line has %d fields, frame has %d columns: %q", len(widths), len(tab.Cols), lines[1])
	}
	cut := func(line string) ([]string, bool) {
		var fs []string
		pos := 0
		for i, w := range widths {
			if pos+w > len(line) {
				return nil, false
			}
			fs = append(fs, line[pos:pos+w])
			pos += w
			if i < len(widths)-1 {
				if pos >= len(line) || line[pos] != ' ' {
					return nil, false
				}
				pos++
			}
		}
		return fs, pos == len(line)
	}
	hdr, ok := cut(lines[0])
	if !ok {
		return fmt.Sprintf("String() header does not fit the dash line: %q / %q", lines[0], lines[1])
	}
	for ci, c := range tab.Cols {
		wantH := c.Name + "(" + c.Kind.String()[:1] + ")"
		if strings.TrimLeft(hdr[ci], " ") != wantH && !(strings.HasPrefix(hdr[ci], " ") == false && hdr[ci] == wantH) {
			// names starting with blanks are ambiguous after trimming; compare suffix
			if !strings.HasSuffix(hdr[ci], wantH) {
				return fmt.Sprintf("String() header field %d is %q, want %q", ci, hdr[ci], wantH)
			}
		}
	}
	shown := tab.N()
	if shown > 50 {
		shown = 50
	}
	for r := 0; r < shown; r++ {
		fs, ok := cut(lines[2+r])
		if !ok {
			return fmt.Sprintf("String() row %d does not fit the column widths: %q", r, lines[2+r])
		}
		for ci, c := range tab.Cols {
			f := fs[ci]
			w := widths[ci]
			if strings.HasSuffix(f, "...") && len(f) == w {
				// possibly truncated: the kept part must be a prefix of the cell text (strings only)
				if (c.Kind == hx.KString || c.Kind == hx.KEnum) && c.S[r] != nil && len(*c.S[r]) > w {
					if !strings.HasPrefix(*c.S[r], f[:w-3]) {
						return fmt.Sprintf("String() row %d column %q: truncated cell %q is not a prefix of %q", r, c.Name, f, *c.S[r])
					}
					continue
				}
			}
			text := f
			if c.Kind == hx.KString || c.Kind == hx.KEnum {
				// left padded with blanks up to the width
				var val string
				if c.S[r] == nil {
					val = "null"
				} else {
					val = *c.S[r]
				}
				if len(val) <= w {
					if f != strings.Repeat(" ", w-len(val))+val {
						return fmt.Sprintf("String() row %d column %q: printed %q, frame holds %s", r, c.Name, f, c.Cell(r))
					}
					continue
				}
				if f != val[:w-3]+"..." {
					return fmt.Sprintf("String() row %d column %q: printed %q, frame holds %s", r, c.Name, f, c.Cell(r))
				}
				continue
			}
			text = strings.TrimLeft(f, " ")
			if strings.HasSuffix(text, "...") && len(f) == w {
				continue // truncated number: nothing more to compare
			}
			if !cellMatches(c, r, text, "null") {
				return fmt.Sprintf("String() row %d column %q: printed %q, frame holds %s", r, c.Name, f, c.Cell(r))
			}
		}
	}
	// the footer is not part of "the rows printed"; when there is one it must not contradict Len()
	last := lines[len(lines)-1]
	if want := fmt.Sprintf("Dims = %d x %d", len(tab.Cols), qf.Len()); strings.HasPrefix(last, "Dims = ") && last != want {
		return fmt.Sprintf("String() last line %q, want %q", last, want)
	}
	return ""
}

// mutate returns a single-point mutant of tab and a description, or ok=false.
func mutate(t *rapid.T, tab hx.Table) (hx.Table, string, bool) {
	out := hx.Table{Cols: append([]hx.Col(nil), tab.Cols...)}
	n := tab.N()
	kind := rapid.SampledFrom([]string{"cell", "cell", "name", "order", "type", "fewer", "enum-relabel", "enum-relabel"}).Draw(t, "mutation")
	ci := rapid.IntRange(0, len(tab.Cols)-1).Draw(t, "mutcol")
	c := tab.Cols[ci]
	switch kind {
	case "enum-relabel":
		// another value dictionary but the same internal ordinals: every cell changes its
		// string while its rank stays (declared: rotated list, derived: renamed values)
		var enums []int
		for i, x := range tab.Cols {
			if x.Kind == hx.KEnum {
				enums = append(enums, i)
			}
		}
		if len(enums) == 0 {
			return out, "", false
		}
		ci = enums[rapid.IntRange(0, len(enums)-1).Draw(t, "enumcol")]
		c = tab.Cols[ci]
		m := c.Take(hx.Iota(n))
		if c.Enum != nil {
			if len(c.Enum) < 2 {
				return out, "", false
			}
			rot := append(append([]string(nil), c.Enum[1:]...), c.Enum[0])
			m.Enum = rot
			for r, p := range c.S {
				if p != nil {
					for k, v := range c.Enum {
						if v == *p {
							m.S[r] = hx.Sp(rot[k])
						}
					}
				}
			}
		} else {
			for r, p := range c.S {
				if p != nil {
					m.S[r] = hx.Sp(*p + "~")
				}
			}
		}
		out.Cols[ci] = m
		return out, fmt.Sprintf("enum-relabel %q: same ranks, other strings", c.Name), true
	case "cell":
		if n == 0 {
			return out, "", false
		}
		r := rapid.IntRange(0, n-1).Draw(t, "mutrow")
		m := c.Take(hx.Iota(n))
		switch c.Kind {
		case hx.KInt:
			m.I[r]++
		case hx.KFloat:
			if math.IsNaN(m.F[r]) {
				m.F[r] = 1
			} else if rapid.Bool().Draw(t, "tonan") {
				m.F[r] = math.NaN()
			} else {
				m.F[r] = m.F[r]*2 + 1
				if math.IsInf(m.F[r], 0) || m.F[r] == c.F[r] {
					m.F[r] = 3.25
				}
			}
		case hx.KBool:
			m.B[r] = !m.B[r]
		case hx.KString:
			switch {
			case m.S[r] == nil:
				m.S[r] = hx.Sp("")
			case *m.S[r] == "" && rapid.Bool().Draw(t, "tonil"):
				m.S[r] = nil
			default:
				m.S[r] = hx.Sp(*m.S[r] + "x")
			}
		case hx.KEnum:
			if c.Enum == nil {
				if m.S[r] == nil {
					m.S[r] = hx.Sp("q")
				} else {
					m.S[r] = nil
				}
			} else {
				cur := -1
				if m.S[r] != nil {
					for i, v := range c.Enum {
						if v == *m.S[r] {
							cur = i
						}
					}
				}
				nxt := cur + 1
				if nxt >= len(c.Enum) {
					m.S[r] = nil
					if cur == -1 {
						return out, "", false
					}
				} else {
					m.S[r] = hx.Sp(c.Enum[nxt])
				}
			}
		}
		out.Cols[ci] = m
		return out, fmt.Sprintf("cell %q[%d] %s -> %s", c.Name, r, c.Cell(r), m.Cell(r)), true
	case "name":
		m := c
		m.Name = c.Name + "x"
		out.Cols[ci] = m
		return out, fmt.Sprintf("name %q -> %q", c.Name, m.Name), true
	case "order":
		if len(tab.Cols) < 2 {
			return out, "", false
		}
		cj := (ci + 1) % len(tab.Cols)
		out.Cols[ci], out.Cols[cj] = out.Cols[cj], out.Cols[ci]
		return out, fmt.Sprintf("swap columns %d and %d", ci, cj), true
	case "type":
		m := c
		switch c.Kind {
		case hx.KString:
			// string -> derived enum with the same values (needs <= 255 distinct, always true here)
			m.Kind = hx.KEnum
			m.Enum = nil
		case hx.KEnum:
			m.Kind = hx.KString
			m.Enum = nil
		case hx.KInt:
			m = hx.Col{Name: c.Name, Kind: hx.KFloat, F: make([]float64, n)}
			for r := range m.F {
				m.F[r] = float64(c.I[r])
			}
		default:
			return out, "", false
		}
		out.Cols[ci] = m
		return out, fmt.Sprintf("type of %q %s -> %s", c.Name, c.Kind, m.Kind), true
	default:
		if n == 0 {
			return out, "", false
		}
		drop := rapid.IntRange(0, n-1).Draw(t, "droprow")
		sel := append(hx.Iota(n)[:drop:drop], hx.Iota(n)[drop+1:]...)
		return tab.Rows(sel), fmt.Sprintf("row %d removed", drop), true
	}
}

func equalsBoth(a, b qframe.QFrame) (bool, bool, string) {
	ab, r1 := a.Equals(b)
	ba, r2 := b.Equals(a)
	return ab, ba, r1 + " / " + r2
}

var hostileColNames = []string{"a\tb", "q\"q", "nul\x00z", "\xff\xfe", "back\\s", "x\x1fy", "sp ace", "ü", "u\u2028v", "x\ny", "a,b", "\x7f", "é\xe9"}

func TestC09(t *testing.T) {
	rapid.Check(t, func(t *rapid.T) {
		base := noInf(hx.GenTable(t, hx.TableOpt{MinCols: 1, MaxCols: 5, AllowDerived: true, Wide: true, Rows: hx.RowsUpTo(70)}))
		// column names are data too for the writers: now and then a hostile (legal) one
		if rapid.IntRange(0, 3).Draw(t, "hostilenames") == 0 {
			names := rapid.Permutation(hostileColNames).Draw(t, "colnames")
			for i := range base.Cols {
				if i < len(names) && rapid.Bool().Draw(t, "renamecol") {
					base.Cols[i].Name = names[i]
				}
			}
		}
		base = withIDLast(base)
		d := hx.GenDerived(t, base, 5)
		tab := d.Exp
		what := ""
		desc := func() string { return d.String() + what }
		// now and then the columns are rebuilt or renamed first (ToUpper built-in on the text columns; an Aggregate whose
		// columns get new names): the typed views are then the reference the other observers must agree with
		rebuilt := 9
		if hx.Rarely(t, 7, "rebuiltfirst") {
			rebuilt = rapid.IntRange(0, 1).Draw(t, "rebuiltkind")
		}
		if rebuilt == 0 {
			for _, c := range base.Cols {
				if c.Kind == hx.KString || c.Kind == hx.KEnum {
					d.QF = d.QF.Apply(qframe.Instruction{Fn: "ToUpper", DstCol: c.Name, SrcCol1: c.Name})
				}
			}
			d.Route = append(d.Route, "ToUpper on every text column")
		} else if rebuilt == 1 && len(base.Cols) >= 2 {
			var aggs []qframe.Aggregation
			for i, c := range base.Cols[1 : len(base.Cols)-1] {
				aggs = append(aggs, qframe.Aggregation{Fn: "count", Column: c.Name, As: fmt.Sprintf("n of %s #%d", c.Name, i)})
			}
			aggs = append(aggs, qframe.Aggregation{Fn: "min", Column: "id"})
			d.QF = d.QF.GroupBy(groupby.Columns(base.Cols[0].Name), groupby.Null(true)).Aggregate(aggs...).Sort(qframe.Order{Column: "id"})
			d.Route = append(d.Route, "GroupBy(first column).Aggregate(counts under new names, min id)")
		}
		// (a) every observer describes the model table (C09 owns the observers)
		obs, err := hx.Observe(d.QF)
		if err != nil {
			t.Fatalf("observe: %v\n%s", err, desc())
		}
		if rebuilt <= 1 && (rebuilt == 0 || len(base.Cols) >= 2) {
			tab = obs
			for i := range tab.Cols {
				if j := d.Exp.Find(tab.Cols[i].Name); j >= 0 && tab.Cols[i].Kind == hx.KEnum && d.Exp.Cols[j].Enum != nil {
					up := make([]string, len(d.Exp.Cols[j].Enum))
					for k, v := range d.Exp.Cols[j].Enum {
						up[k] = v
						if rebuilt == 0 {
							up[k] = strings.ToUpper(v)
						}
					}
					tab.Cols[i].Enum = up
				}
			}
		}
		if diff := hx.Diff(tab, obs); diff != "" {
			t.Fatalf("typed views (ItemAt) differ from the model of the derivation: %s\n%s", diff, desc())
		}
		for name, f := range map[string]func(qframe.QFrame, hx.Table) string{"views": checkViews, "ToCSV": checkCSV, "ToJSON": checkJSON, "String": checkString} {
			var msg string
			if perr := hx.Safely(func() { msg = f(d.QF, tab) }); perr != nil {
				t.Fatalf("observer %s panicked: %v\n%s", name, perr, desc())
			}
			if msg != "" {
				t.Fatalf("observer %s disagrees with the typed views: %s\n%s", name, msg, desc())
			}
		}

		if rebuilt <= 1 && (rebuilt == 0 || len(base.Cols) >= 2) {
			// (the Equals and same-operation parts need a rebuild from a model table; value lists with values that
			// coincide after upper-casing have no unique rank model - the observers were the point here)
			evC09.Case(false, desc, "rebuilt-columns:observers-only")
			return
		}
		// a frame with rows but no columns (GroupBy().Aggregate() without keys and aggregations): Len, the JSON records
		// and String/ToCSV (which must at least not fail) describe the same number of rows
		if rapid.IntRange(0, 9).Draw(t, "columnless") == 0 {
			zc := d.QF.GroupBy().Aggregate()
			if zc.Err == nil && len(zc.ColumnNames()) == 0 {
				if msg := checkColumnlessJSON(zc); msg != "" {
					t.Fatalf("observers of a column-less frame disagree: %s\n%s", msg, desc())
				}
				var cerr error
				if perr := hx.Safely(func() { cerr = zc.ToCSV(&bytes.Buffer{}); _ = zc.String() }); perr != nil || cerr != nil {
					t.Fatalf("ToCSV/String of a column-less frame with %d rows: panic %v, error %v\n%s", zc.Len(), perr, cerr, desc())
				}
			}
		}

		// (b) Equals
		rebuild := hx.Build(tab)
		if rebuild.Err != nil {
			t.Fatalf("rebuild with New failed: %v\n%s", rebuild.Err, desc())
		}
		if ab, ba, why := equalsBoth(d.QF, d.QF); !ab || !ba {
			t.Fatalf("Equals is not reflexive: %s\n%s", why, desc())
		}
		if ab, ba, why := equalsBoth(d.QF, rebuild); !ab || !ba {
			t.Fatalf("frame and its rebuild from observed values are not Equal: %s\n%s", why, desc())
		}
		classes := []string{}
		// Equals between the frame and a sibling derived from it (same column storage, other index)
		if tab.N() >= 2 {
			var sib qframe.QFrame
			var sibDesc string
			switch rapid.IntRange(0, 2).Draw(t, "sibling") {
			case 0:
				sib, sibDesc = d.QF.Sort(qframe.Order{Column: "id", Reverse: rapid.Bool().Draw(t, "sibrev")}), "Sort(id)"
			case 1:
				sib, sibDesc = d.QF.Slice(1, tab.N()).Copy("id2", "id").Drop("id2"), "Slice(1,n)"
			default:
				sib, sibDesc = d.QF.Filter(qframe.Filter{Column: "id", Comparator: ">=", Arg: 0}), "Filter(id>=0)"
			}
			so, err := hx.Observe(sib)
			if err != nil || sib.Err != nil {
				t.Fatalf("sibling %s: %v %v\n%s", sibDesc, err, sib.Err, desc())
			}
			want := modelEquals(tab, so)
			ab, ba, why := equalsBoth(d.QF, sib)
			if ab != want || ba != want {
				t.Fatalf("Equals(frame, %s of it)=%v/%v, model equality of their observations says %v (%s)\n%s", sibDesc, ab, ba, want, why, desc())
			}
			// per column as well: a wrong Equals of one column type must not hide behind the other columns
			for _, c := range tab.Cols {
				pa, pb := d.QF.Select(c.Name), sib.Select(c.Name)
				wantC := modelEquals(tab.Project([]string{c.Name}), so.Project([]string{c.Name}))
				ab, ba, why := equalsBoth(pa, pb)
				if ab != wantC || ba != wantC {
					t.Fatalf("Equals of the projections on %q (%s) of the frame and its %s sibling =%v/%v, model says %v (%s)\n%s", c.Name, c.Kind, sibDesc, ab, ba, wantC, why, desc())
				}
			}
			classes = append(classes, "sibling:"+sibDesc)
		}
		if mt, mdesc, ok := mutate(t, tab); ok {
			what = "mutant: " + mdesc + "\n"
			mq := hx.Build(mt)
			if mq.Err != nil {
				t.Fatalf("building mutant failed: %v\n%s", mq.Err, desc())
			}
			want := modelEquals(tab, mt)
			ab, ba, why := equalsBoth(d.QF, mq)
			if ab != want || ba != want {
				t.Fatalf("Equals(frame, mutant)=%v, Equals(mutant, frame)=%v, model equality says %v (%s)\n%s", ab, ba, want, why, desc())
			}
			// transitivity through the rebuild
			rb, _ := rebuild.Equals(mq)
			if rb != want {
				t.Fatalf("Equals(rebuild, mutant)=%v but model equality says %v\n%s", rb, want, desc())
			}
			classes = append(classes, "mutation:"+strings.Fields(mdesc)[0])
		}

		// (c) the same operation on the frame and on its rebuild gives Equal results
		op := rapid.SampledFrom([]string{"filter", "filter", "sort", "sort-ties", "slice", "select", "apply", "eval", "distinct", "aggregate"}).Draw(t, "metaop")
		var ra, rb qframe.QFrame
		canon := func(q qframe.QFrame) qframe.QFrame { return q }
		switch op {
		case "filter":
			copt := hx.ClauseOpt{}
			if rapid.IntRange(0, 2).Draw(t, "sparseclause") == 0 {
				copt.Sparse = "id" // clauses whose sub-clauses keep a row or two each (the id column holds unique values)
			}
			cl := hx.GenClause(t, tab, 2, copt)
			what += "op filter " + cl.String()
			k := hx.KindMap(tab)
			ra, rb = d.QF.Filter(cl.Build(k)), rebuild.Filter(cl.Build(k))
		case "sort":
			os := append(genOrders(t, tab, "id"), hx.Order{Col: "id"})
			what += "op sort " + hx.OrdersString(os)
			ra, rb = d.QF.Sort(hx.BuildOrders(os)...), rebuild.Sort(hx.BuildOrders(os)...)
		case "sort-ties":
			// keys with ties: C03 leaves the order of tied rows open, but two Equal frames - the same rows in the same
			// logical order, whatever their physical layout - must still come out Equal ("under every operation")
			os := genOrders(t, tab, "id")
			what += "op sort (ties left open) " + hx.OrdersString(os)
			ra, rb = d.QF.Sort(hx.BuildOrders(os)...), rebuild.Sort(hx.BuildOrders(os)...)
		case "slice":
			a := rapid.IntRange(0, tab.N()).Draw(t, "a")
			b := rapid.IntRange(a, tab.N()).Draw(t, "b")
			what += fmt.Sprintf("op slice %d %d", a, b)
			ra, rb = d.QF.Slice(a, b), rebuild.Slice(a, b)
		case "select":
			p := rapid.Permutation(tab.Names()).Draw(t, "perm")
			k := rapid.IntRange(1, len(p)).Draw(t, "k")
			what += fmt.Sprintf("op select %q", p[:k])
			ra, rb = d.QF.Select(p[:k]...), rebuild.Select(p[:k]...)
		case "apply":
			ins := hx.GenInstrs(t, tab, 3)
			what += "op apply " + hx.InstrsString(ins)
			kinds := hx.KindMap(tab)
			cur := tab
			real := make([]qframe.Instruction, len(ins))
			for i, x := range ins {
				real[i] = x.Build(kinds)
				cur = x.Exec(cur, nil)
				kinds = hx.KindMap(cur)
			}
			ra, rb = d.QF.Apply(real...), rebuild.Apply(real...)
		case "eval":
			want := rapid.SampledFrom([]hx.Kind{hx.KInt, hx.KFloat, hx.KBool, hx.KString}).Draw(t, "want")
			e := hx.GenExprOfKind(t, tab, want, 2, false)
			what += "op eval " + e.String()
			ra, rb = d.QF.Eval("n1", e.Build()), rebuild.Eval("n1", e.Build())
		case "distinct":
			what += "op distinct(id)+sort"
			ra = d.QF.Distinct(groupby.Columns("id"))
			rb = rebuild.Distinct(groupby.Columns("id"))
			canon = func(q qframe.QFrame) qframe.QFrame { return q.Sort(qframe.Order{Column: "id"}) }
		case "aggregate":
			key := tab.Cols[rapid.IntRange(0, len(tab.Cols)-1).Draw(t, "aggkey")].Name
			what += "op groupby(" + key + ").aggregate(count id)+sort"
			ag := qframe.Aggregation{Fn: "count", Column: "id", As: "cnt"}
			mx := qframe.Aggregation{Fn: "max", Column: "id", As: "maxid"}
			ra = d.QF.GroupBy(groupby.Columns(key), groupby.Null(true)).Aggregate(ag, mx)
			rb = rebuild.GroupBy(groupby.Columns(key), groupby.Null(true)).Aggregate(ag, mx)
			canon = func(q qframe.QFrame) qframe.QFrame { return q.Sort(qframe.Order{Column: "maxid"}) }
		}
		if (ra.Err == nil) != (rb.Err == nil) {
			t.Fatalf("operation failed on one of two Equal frames only: %v vs %v\n%s", ra.Err, rb.Err, desc())
		}
		if ra.Err == nil {
			// Equals between a frame and what an operation made of it (the two share storage): true exactly when their
			// observations are equal
			if oa, err := hx.Observe(ra); err == nil {
				wantEq := modelEquals(tab, oa)
				if ab, ba, why := equalsBoth(d.QF, ra); ab != wantEq || ba != wantEq {
					t.Fatalf("Equals(frame, operation(frame))=%v / %v, their observations say %v (%s)\n%s", ab, ba, wantEq, why, desc())
				}
			}
			ra, rb = canon(ra), canon(rb)
			if ab, ba, why := equalsBoth(ra, rb); !ab || !ba {
				t.Fatalf("same operation on two Equal frames gave results that are not Equal (%v,%v): %s\n%s", ab, ba, why, desc())
			}
			oa, erra := hx.Observe(ra)
			ob, errb := hx.Observe(rb)
			if erra != nil || errb != nil || !modelEquals(oa, ob) {
				t.Fatalf("same operation on two Equal frames gave different observations: %v %v %s\n%s", erra, errb, hx.Diff(oa, ob), desc())
			}
		}
		// siblings: two frames that each add a column of their own to the same parent (itself the result of an addition);
		// the first one is observed again, by every observer, after the second was made
		if len(tab.Cols) > 0 {
			first := tab.Cols[0].Name
			parent := d.QF.Copy("zz-parent", first)
			sa := parent.Copy("zz-sib-a", first)
			before, err1 := hx.Observe(sa)
			_ = parent.WithRowNums("zz-sib-b")
			after, err2 := hx.Observe(sa)
			if err1 != nil || err2 != nil || !modelEquals(before, after) {
				t.Fatalf("a frame changed when a sibling was derived from its parent: %v %v %s\n%s", err1, err2, hx.Diff(before, after), desc())
			}
			var buf bytes.Buffer
			if err := sa.ToJSON(&buf); err != nil || !strings.Contains(buf.String(), "zz-sib-a") && sa.Len() > 0 {
				t.Fatalf("ToJSON of the first sibling does not show its own column: %v %s\n%s", err, clipS(buf.String()), desc())
			}
		}
		classes = append(classes, "metaop:"+op)
		hasNull := false
		for _, c := range tab.Cols {
			if c.HasNull() {
				hasNull = true
			}
		}
		if tab.N() > 50 {
			classes = append(classes, "more-than-50-rows")
		}
		evC09.Case(d.NonIdentity() && tab.N() >= 2 && hasNull, desc, classes...)
	})
}

var _ = sort.Strings
var _ = json.Valid
