package props

import (
	"bytes"
	"encoding/binary"
	"fmt"
	"hash/fnv"
	"sort"
	"strconv"
	"strings"
	"testing"

	"github.com/tobgu/qframe"
	"github.com/tobgu/qframe/config/csv"
	"github.com/tobgu/qframe/config/groupby"
	"github.com/tobgu/qframe/types"
	"pgregory.net/rapid"

	"verifharness/ev"
	"verifharness/hx"
)

// C01 — Frames are persistent: no operation alters any existing frame.
//
// A growing family of handles (frames, groupers, typed views) is built by applying
// generated operations to arbitrary members. When a member is created its complete
// observation is stored; after every step every earlier member is observed again and
// must be identical. The arguments handed to an operation are snapshotted as well.

var evC01 = ev.New("C01", "initial table (all five column types, nulls, 0..40 rows) and a sequence of 1-25 operations, each applied to any member of the growing family of frames/groupers/views "+
	"(Filter, Sort, Slice, Select, Drop, Copy, Apply, FilteredApply, Eval, WithRowNums, Distinct, GroupBy, Aggregate, QFrames, typed views, ToCSV/ToJSON/String/Equals, Append of int columns, user aggregations working in place on their argument, ~10% invalid requests, "+
	"scribbling over returned slices); oracle: invariant over the history - every earlier member re-observed after every step (cells, names, types, Err, and behaviour probes: overwriting each column / re-ordering all columns gives the layout it always gave), every argument compared before/after; "+
	"non-trivial = the sequence has a step whose receiver shares its index array (Select/Drop/Copy/Apply/Eval/Slice lineage) with another live member; distinct = FNV-64 of (table, step list)")

type member struct {
	kind   string // frame, grouper, iview, fview, bview, sview, eview
	qf     qframe.QFrame
	g      qframe.Grouper
	view   interface{}
	snap   string
	ixGrp  int
	origin string
}

func snapFrame(qf qframe.QFrame) string {
	var sb strings.Builder
	fmt.Fprintf(&sb, "err=%v len=%d\n", qf.Err, qf.Len())
	if qf.Err != nil {
		return sb.String()
	}
	tab, err := hx.Observe(qf)
	if err != nil {
		return sb.String() + "UNOBSERVABLE: " + err.Error()
	}
	// names/types via the public accessors plus every cell
	names := qf.ColumnNames()
	fmt.Fprintf(&sb, "names=%q types=%v\n", names, qf.ColumnTypes())
	// behaviour probes: a member must also keep *behaving* as before (its column lookup structures are shared with
	// relatives): overwriting any of its columns and re-ordering all of them gives the same layout as ever
	for i, n := range names {
		r := qf.Copy(n, names[(i+1)%len(names)])
		fmt.Fprintf(&sb, "probe overwrite %q: err=%v names=%q\n", n, r.Err, r.ColumnNames())
	}
	if len(names) > 1 {
		rev := make([]string, len(names))
		for i, n := range names {
			rev[len(names)-1-i] = n
		}
		r := qf.Select(rev...)
		fmt.Fprintf(&sb, "probe select reversed: err=%v names=%q types=%v\n", r.Err, r.ColumnNames(), r.ColumnTypes())
	}
	for _, c := range tab.Cols {
		sb.WriteString(c.Name + ":")
		for r := 0; r < c.Len(); r++ {
			sb.WriteString(c.Cell(r))
			sb.WriteByte(' ')
		}
		sb.WriteByte('\n')
	}
	return sb.String()
}

func snapGrouper(g qframe.Grouper) string {
	agg := g.Aggregate() // before QFrames: neither call may change what the other reports
	fs, err := g.QFrames()
	if err != nil {
		return fmt.Sprintf("grouper err=%v / %v", g.Err, err)
	}
	ss := make([]string, len(fs))
	for i, f := range fs {
		ss[i] = snapFrame(f)
	}
	// the order of the groups is not specified, but it belongs to the Grouper value: the same Grouper lists its groups
	// in the same order every time (QFrames and Aggregate agree with their own earlier answers)
	order := quickOrder(fs)
	sort.Strings(ss)
	return fmt.Sprintf("grouper err=%v groups=%d order=%s aggregate=%d/%v\n%s", g.Err, len(fs), order, agg.Len(), quickSnapOrErr(agg), strings.Join(ss, "--\n"))
}

func snapView(v interface{}) string {
	var sb strings.Builder
	switch x := v.(type) {
	case qframe.IntView:
		fmt.Fprintf(&sb, "len=%d slice=%v items=", x.Len(), x.Slice())
		for i := 0; i < x.Len(); i++ {
			fmt.Fprintf(&sb, "%d ", x.ItemAt(i))
		}
	case qframe.FloatView:
		fmt.Fprintf(&sb, "len=%d slice=%x items=", x.Len(), x.Slice())
		for i := 0; i < x.Len(); i++ {
			fmt.Fprintf(&sb, "%x ", x.ItemAt(i))
		}
	case qframe.BoolView:
		fmt.Fprintf(&sb, "len=%d slice=%v items=", x.Len(), x.Slice())
		for i := 0; i < x.Len(); i++ {
			fmt.Fprintf(&sb, "%v ", x.ItemAt(i))
		}
	case qframe.StringView:
		fmt.Fprintf(&sb, "len=%d items=", x.Len())
		sl := x.Slice()
		for i := 0; i < x.Len(); i++ {
			fmt.Fprintf(&sb, "%s/%s ", ptrStr(x.ItemAt(i)), ptrStr(sl[i]))
		}
	case qframe.EnumView:
		fmt.Fprintf(&sb, "len=%d items=", x.Len())
		sl := x.Slice()
		for i := 0; i < x.Len(); i++ {
			fmt.Fprintf(&sb, "%s/%s ", ptrStr(x.ItemAt(i)), ptrStr(sl[i]))
		}
	}
	return sb.String()
}

func ptrStr(p *string) string {
	if p == nil {
		return "<nil>"
	}
	return fmt.Sprintf("%q", *p)
}

func (m *member) observe() string {
	switch m.kind {
	case "frame":
		return snapFrame(m.qf)
	case "grouper":
		return snapGrouper(m.g)
	default:
		return snapView(m.view)
	}
}

func TestC01(t *testing.T) {
	rapid.Check(t, func(t *rapid.T) {
		base := hx.GenTable(t, hx.TableOpt{MinCols: 2, MaxCols: 6, AllowDerived: true})
		root, origin := hx.BuildVia(t, base)
		if root.Err != nil {
			t.Fatalf("building the initial frame failed: %v", root.Err)
		}
		log := []string{origin}
		desc := func() string { return base.String() + strings.Join(log, "\n") }
		family := []*member{}
		nextGrp := 0
		add := func(m *member) {
			if len(family) >= 40 && tier() != "thorough" || len(family) >= 70 {
				return
			}
			var snap string
			if perr := hx.Safely(func() { snap = m.observe() }); perr != nil {
				return // an unobservable result is another property's business
			}
			m.snap = snap
			family = append(family, m)
		}
		addFrame := func(qf qframe.QFrame, origin string, grp int) {
			add(&member{kind: "frame", qf: qf, origin: origin, ixGrp: grp})
		}
		newGrp := func() int { nextGrp++; return nextGrp }
		addFrame(root, "root", newGrp())
		sharedStep := false
		var watchers []func() string
		panicked := 0
		classes := map[string]bool{}

		maxSteps := 25
		if tier() == "thorough" {
			maxSteps = 45
		}
		nsteps := rapid.IntRange(1, maxSteps).Draw(t, "nsteps")
		for step := 0; step < nsteps; step++ {
			mi := rapid.IntRange(0, len(family)-1).Draw(t, "member")
			m := family[mi]
			var argCheck func() string // compares the arguments of the step before/after
			var run func()
			opName := ""
			live := 0
			for _, o := range family {
				if o.kind == "frame" && o.ixGrp == m.ixGrp {
					live++
				}
			}
			switch m.kind {
			case "frame":
				qf := m.qf
				var tab hx.Table
				if qf.Err == nil {
					obs, err := hx.Observe(qf)
					if err != nil {
						continue
					}
					tab = hx.WithEnumDecl(obs, base)
				}
				usable := qf.Err == nil && len(tab.Cols) > 0
				op := rapid.IntRange(0, 21).Draw(t, "frameop") // 21 = Append
				invalid := rapid.IntRange(0, 9).Draw(t, "invalid") == 0
				switch {
				case op <= 1 && usable: // Filter
					cl := hx.GenClause(t, tab, 2, hx.ClauseOpt{})
					if invalid {
						cl = hx.IntConst("nosuch", "=", 1)
					}
					real := cl.Build(hx.KindMap(tab))
					before := real.String()
					opName = "Filter " + cl.String()
					run = func() { addFrame(qf.Filter(real), opName, newGrp()) }
					argCheck = func() string { return diffStr("clause", before, real.String()) }
				case op <= 3 && usable: // Sort
					os := genOrders(t, tab)
					if invalid {
						os = append(os, hx.Order{Col: "nosuch"})
					}
					real := hx.BuildOrders(os)
					before := fmt.Sprint(real)
					opName = "Sort " + hx.OrdersString(os)
					run = func() { addFrame(qf.Sort(real...), opName, newGrp()) }
					argCheck = func() string { return diffStr("orders", before, fmt.Sprint(real)) }
				case op <= 5 && usable: // Slice
					n := tab.N()
					a := rapid.IntRange(0, n).Draw(t, "a")
					b := rapid.IntRange(a, n).Draw(t, "b")
					if invalid {
						b = n + 1 + a
					}
					opName = fmt.Sprintf("Slice(%d,%d)", a, b)
					run = func() { addFrame(qf.Slice(a, b), opName, m.ixGrp) }
				case op == 6 && usable: // Select / Drop
					p := rapid.Permutation(tab.Names()).Draw(t, "perm")
					k := rapid.IntRange(1, len(p)).Draw(t, "k")
					cols := append([]string(nil), p[:k]...)
					if invalid {
						cols = append(cols, "nosuch")
					}
					before := fmt.Sprint(cols)
					drop := rapid.Bool().Draw(t, "drop") && k < len(p)
					opName = fmt.Sprintf("Select/Drop(drop=%v) %q", drop, cols)
					run = func() {
						if drop {
							addFrame(qf.Drop(cols...), opName, m.ixGrp)
						} else {
							addFrame(qf.Select(cols...), opName, m.ixGrp)
						}
					}
					argCheck = func() string { return diffStr("column list", before, fmt.Sprint(cols)) }
				case op == 7 && usable: // Copy
					src := rapid.SampledFrom(tab.Names()).Draw(t, "src")
					dst := rapid.SampledFrom(append(tab.Names(), "n1", "n2")).Draw(t, "dst")
					if invalid {
						dst = "$bad"
					}
					opName = fmt.Sprintf("Copy(%q,%q)", dst, src)
					run = func() { addFrame(qf.Copy(dst, src), opName, m.ixGrp) }
				case op <= 10 && usable: // Apply / FilteredApply
					ins := hx.GenInstrs(t, tab, 3)
					kinds := hx.KindMap(tab)
					cur := tab
					real := make([]qframe.Instruction, len(ins))
					for i, x := range ins {
						real[i] = x.Build(kinds)
						cur = x.Exec(cur, nil)
						kinds = hx.KindMap(cur)
					}
					if invalid {
						real = append(real, qframe.Instruction{Fn: hx.IntToInt, DstCol: "n1", SrcCol1: "nosuch"})
					}
					before := fmt.Sprintf("%d %q", len(real), instrNames(real))
					if op == 10 {
						cl := hx.GenClause(t, tab, 1, hx.ClauseOpt{})
						rc := cl.Build(hx.KindMap(tab))
						cb := rc.String()
						opName = "FilteredApply " + cl.String() + " " + hx.InstrsString(ins)
						run = func() { addFrame(qf.FilteredApply(rc, real...), opName, m.ixGrp) }
						argCheck = func() string {
							return diffStr("clause", cb, rc.String()) + diffStr("instructions", before, fmt.Sprintf("%d %q", len(real), instrNames(real)))
						}
					} else {
						opName = "Apply " + hx.InstrsString(ins)
						run = func() { addFrame(qf.Apply(real...), opName, m.ixGrp) }
						argCheck = func() string {
							return diffStr("instructions", before, fmt.Sprintf("%d %q", len(real), instrNames(real)))
						}
					}
				case op == 11 && usable: // Eval
					want := rapid.SampledFrom([]hx.Kind{hx.KInt, hx.KFloat, hx.KBool, hx.KString}).Draw(t, "want")
					e := hx.GenExprOfKind(t, tab, want, 2, false)
					if invalid {
						e = hx.Expr{Op: "call", Fn: "nosuchfn", Args: []hx.Expr{{Op: "col", Col: tab.Cols[0].Name}}}
					}
					dst := rapid.SampledFrom(append(tab.Names(), "n1")).Draw(t, "dst")
					opName = fmt.Sprintf("Eval(%q, %s)", dst, e.String())
					real := e.Build()
					run = func() { addFrame(qf.Eval(dst, real), opName, m.ixGrp) }
					// or an n-ary expression over the int columns, built from an argument list the caller keeps
					var ints []interface{}
					for _, c := range tab.Cols {
						if c.Kind == hx.KInt {
							ints = append(ints, types.ColumnName(c.Name))
						}
					}
					if len(ints) > 0 && rapid.IntRange(0, 3).Draw(t, "naryargs") == 0 {
						args := append(append([]interface{}{}, ints...), 3, ints[0], 1)
						before := fmt.Sprint(args)
						opName = fmt.Sprintf("Eval(%q, Expr(+, %v...))", dst, args)
						run = func() {
							addFrame(qf.Eval(dst, qframe.Expr("+", args...)), opName, m.ixGrp)
							addFrame(qf.Eval(dst, qframe.Expr("-", args[1:]...)), opName+" (and - over the tail of the same list)", m.ixGrp)
						}
						argCheck = func() string { return diffStr("argument list of Expr", before, fmt.Sprint(args)) }
					}
				case op == 12 && usable: // WithRowNums
					name := rapid.SampledFrom(append(tab.Names(), "rn")).Draw(t, "rn")
					opName = fmt.Sprintf("WithRowNums(%q)", name)
					run = func() { addFrame(qf.WithRowNums(name), opName, m.ixGrp) }
				case op == 13 && usable: // Distinct
					p := rapid.Permutation(tab.Names()).Draw(t, "perm")
					k := rapid.IntRange(0, len(p)).Draw(t, "k")
					cols := append([]string(nil), p[:k]...)
					if len(cols) >= 2 && rapid.IntRange(0, 3).Draw(t, "dupkey") == 0 {
						cols = append([]string{cols[0]}, cols...)
					}
					null := rapid.Bool().Draw(t, "null")
					opName = fmt.Sprintf("Distinct(%q,null=%v)", cols, null)
					run = func() { addFrame(qf.Distinct(groupby.Columns(cols...), groupby.Null(null)), opName, newGrp()) }
					before := fmt.Sprint(cols)
					argCheck = func() string { return diffStr("column list", before, fmt.Sprint(cols)) }
				case op <= 15 && usable: // GroupBy
					p := rapid.Permutation(tab.Names()).Draw(t, "perm")
					k := rapid.IntRange(0, len(p)).Draw(t, "k")
					if k > 2 {
						k = 2
					}
					cols := append([]string(nil), p[:k]...)
					if invalid {
						cols = append(cols, "nosuch")
					}
					if len(cols) >= 2 && rapid.IntRange(0, 3).Draw(t, "dupkey") == 0 {
						cols = append([]string{cols[0]}, cols...) // a name given twice: [a a b]
					}
					null := rapid.Bool().Draw(t, "null")
					opName = fmt.Sprintf("GroupBy(%q,null=%v)", cols, null)
					// the keys are a prefix of a longer list of the caller (spare capacity behind them)
					backing := append(append(make([]string, 0, len(cols)+2), cols...), "zz-behind-the-keys")
					cols = backing[:len(cols)]
					beforeBacking := fmt.Sprint(backing)
					watchers = append(watchers, func() string {
						return diffStr("key list with the element behind it", beforeBacking, fmt.Sprint(backing))
					})
					beforeCols := fmt.Sprint(cols)
					run = func() {
						add(&member{kind: "grouper", g: qf.GroupBy(groupby.Columns(cols...), groupby.Null(null)), origin: opName, ixGrp: newGrp()})
						// the caller keeps using its list: a grouper over a tail of the same slice
						if len(cols) > 1 {
							add(&member{kind: "grouper", g: qf.GroupBy(groupby.Columns(cols[1:]...), groupby.Null(null)), origin: opName + " (tail of the same list)", ixGrp: newGrp()})
						}
					}
					argCheck = func() string { return diffStr("column list", beforeCols, fmt.Sprint(cols)) }
				case op == 16 && usable: // typed view
					c := tab.Cols[rapid.IntRange(0, len(tab.Cols)-1).Draw(t, "viewcol")]
					opName = "view of " + c.Name
					run = func() {
						var v interface{}
						var err error
						kind := ""
						switch c.Kind {
						case hx.KInt:
							v, err = qf.IntView(c.Name)
							kind = "iview"
						case hx.KFloat:
							v, err = qf.FloatView(c.Name)
							kind = "fview"
						case hx.KBool:
							v, err = qf.BoolView(c.Name)
							kind = "bview"
						case hx.KString:
							v, err = qf.StringView(c.Name)
							kind = "sview"
						case hx.KEnum:
							v, err = qf.EnumView(c.Name)
							kind = "eview"
						}
						if err == nil && kind != "" {
							add(&member{kind: kind, view: v, origin: opName, ixGrp: m.ixGrp})
						}
					}
				case op == 17: // ToCSV (incl. the Columns/Header options) / ToJSON / String
					var order []string
					if usable && rapid.Bool().Draw(t, "csvcolumns") {
						order = rapid.Permutation(tab.Names()).Draw(t, "csvorder")
					}
					noHeader := rapid.Bool().Draw(t, "csvnoheader")
					opName = fmt.Sprintf("ToCSV(columns=%q,noHeader=%v)+ToJSON+String", order, noHeader)
					before := fmt.Sprint(order)
					run = func() {
						var buf bytes.Buffer
						var fns []csv.ToConfigFunc
						if order != nil {
							fns = append(fns, csv.Columns(order))
						}
						if noHeader {
							fns = append(fns, csv.Header(false))
						}
						_ = qf.ToCSV(&buf, fns...)
						_ = qf.ToJSON(&buf)
						_ = qf.String()
						_ = qf.ByteSize()
					}
					argCheck = func() string { return diffStr("Columns option", before, fmt.Sprint(order)) }
				case op == 18: // Equals against any other frame member
					var others []*member
					for _, o := range family {
						if o.kind == "frame" {
							others = append(others, o)
						}
					}
					o := others[rapid.IntRange(0, len(others)-1).Draw(t, "other")]
					opName = "Equals"
					run = func() { _, _ = qf.Equals(o.qf); _, _ = o.qf.Equals(qf) }
				case op == 19 && usable: // scribble over returned slices
					opName = "scribble ColumnNames/ColumnTypes/ColumnTypeMap"
					run = func() {
						names := qf.ColumnNames()
						for i := range names {
							names[i] = "scribbled"
						}
						typs := qf.ColumnTypes()
						for i := range typs {
							typs[i] = types.DataType("scribbled")
						}
						tm := qf.ColumnTypeMap()
						for k := range tm {
							tm[k] = "scribbled"
						}
						tm["extra"] = "x"
					}
				case op == 21 && usable: // Append (work in progress in the library, int columns only): only persistence is looked at
					var ints []string
					for _, c := range tab.Cols {
						if c.Kind == hx.KInt {
							ints = append(ints, c.Name)
						}
					}
					if len(ints) == 0 {
						continue
					}
					ints = ints[:1+rapid.IntRange(0, len(ints)-1).Draw(t, "appendcols")]
					var others []*member
					for _, o := range family {
						if o.kind != "frame" || o.qf.Err != nil {
							continue
						}
						tm, ok := o.qf.ColumnTypeMap(), true
						for _, n := range ints {
							ok = ok && tm[n] == types.Int
						}
						if ok {
							others = append(others, o)
						}
					}
					o := others[rapid.IntRange(0, len(others)-1).Draw(t, "appendother")]
					o2 := others[rapid.IntRange(0, len(others)-1).Draw(t, "appendother2")]
					opName = fmt.Sprintf("Append %q (twice from the same receiver)", ints)
					run = func() {
						// two results made from one receiver: each keeps its own rows (the receiver's storage may have room to spare)
						a, b, b2 := qf.Select(ints...), o.qf.Select(ints...), o2.qf.Select(ints...)
						r := a.Append(b)
						if r.Err == nil {
							addFrame(r, opName, newGrp())
						}
						if r2 := a.Append(b2); r2.Err == nil {
							addFrame(r2, opName+" second", newGrp())
						}
					}
				case op == 20 && usable && invalid: // chained error
					opName = "operation on unknown column, continued"
					run = func() {
						e := qf.Sort(qframe.Order{Column: "nosuch"})
						addFrame(e, opName, newGrp())
						addFrame(e.Slice(0, 0).Select("x"), opName+" (chained)", newGrp())
					}
				default:
					continue
				}
			case "grouper":
				g := m.g
				if rapid.Bool().Draw(t, "qframes") {
					opName = "QFrames (+scribble over the returned slice)"
					run = func() {
						fs, err := g.QFrames()
						if err != nil {
							return
						}
						for i, f := range fs {
							if i < 3 {
								addFrame(f, "group frame", newGrp())
							}
						}
						for i := range fs {
							fs[i] = qframe.QFrame{}
						}
					}
				} else {
					// aggregate over the columns of the first group frame
					var tab hx.Table
					if fs, err := g.QFrames(); err == nil && len(fs) > 0 {
						if obs, err := hx.Observe(fs[0]); err == nil {
							tab = obs
						}
					}
					if len(tab.Cols) == 0 {
						continue
					}
					aggs := genAggs(t, tab, nil)
					real := make([]qframe.Aggregation, len(aggs))
					for i, a := range aggs {
						if rapid.Bool().Draw(t, "named") {
							a.As = fmt.Sprintf("agg%d", i) // else the default name: the column's own
						}
						real[i] = a.Build(tab.MustCol(a.Col).Kind)
					}
					opName = fmt.Sprintf("Aggregate %v", aggs)
					// a user aggregation that works in place on the slice it is given (a sort-based median does)
					if rapid.IntRange(0, 2).Draw(t, "inplaceagg") == 0 {
						c := tab.Cols[rapid.IntRange(0, len(tab.Cols)-1).Draw(t, "inplacecol")]
						var fn interface{}
						switch c.Kind {
						case hx.KInt:
							fn = func(xs []int) int { sort.Ints(xs); return xs[len(xs)/2] }
						case hx.KFloat:
							fn = func(xs []float64) float64 {
								for i := range xs {
									xs[i] = -777
								}
								return 1
							}
						case hx.KBool:
							fn = func(xs []bool) bool {
								for i := range xs {
									xs[i] = !xs[i]
								}
								return true
							}
						default:
							fn = func(xs []*string) *string {
								for i := range xs {
									xs[i] = nil
								}
								return nil
							}
						}
						real = append(real, qframe.Aggregation{Fn: fn, Column: c.Name, As: "inplace"})
						opName += " + in-place user aggregation of " + c.Name
					}
					aggArgs := func() string {
						var sb strings.Builder
						for _, r := range real {
							fmt.Fprintf(&sb, "{%q as %q} ", r.Column, r.As)
						}
						return sb.String()
					}
					beforeAggs := aggArgs()
					argCheck = func() string { return diffStr("aggregation list", beforeAggs, aggArgs()) }
					run = func() { addFrame(g.Aggregate(real...), opName, newGrp()) }
				}
			default: // a view: read it and scribble over its Slice()
				opName = "scribble over view.Slice()"
				v := m.view
				run = func() {
					switch x := v.(type) {
					case qframe.IntView:
						s := x.Slice()
						for i := range s {
							s[i] = -777
						}
					case qframe.FloatView:
						s := x.Slice()
						for i := range s {
							s[i] = -777
						}
					case qframe.BoolView:
						s := x.Slice()
						for i := range s {
							s[i] = !s[i]
						}
					case qframe.StringView:
						s := x.Slice()
						for i := range s {
							s[i] = nil
						}
					case qframe.EnumView:
						s := x.Slice()
						for i := range s {
							s[i] = nil
						}
					}
				}
			}
			if run == nil {
				continue
			}
			log = append(log, fmt.Sprintf("step %d: member %d (%s) <- %s", step, mi, m.origin, opName))
			if perr := hx.Safely(run); perr != nil {
				panicked++
				log = append(log, fmt.Sprintf("   (panicked: %v; not C01's business, step skipped)", perr))
			}
			if live >= 2 && m.kind == "frame" {
				sharedStep = true
			}
			key := opName
			if i := strings.IndexAny(key, " (["); i > 0 {
				key = key[:i]
			}
			classes["op:"+key] = true
			if argCheck != nil {
				if d := argCheck(); d != "" {
					t.Fatalf("an argument was changed by the operation: %s\n%s", d, desc())
				}
			}
			// arguments of earlier steps that the results may still refer to (key lists handed to GroupBy) stay as given, too
			for _, w := range watchers {
				if d := w(); d != "" {
					t.Fatalf("an argument of an earlier operation was changed: %s\n%s", d, desc())
				}
			}
			// invariant: every earlier member is observably unchanged
			for i, o := range family {
				var now string
				if perr := hx.Safely(func() { now = o.observe() }); perr != nil {
					t.Fatalf("member %d (%s) can no longer be observed after the step: %v\n%s", i, o.origin, perr, desc())
				}
				if now != o.snap {
					t.Fatalf("member %d (%s, %s) changed after the last step:\nwas:\n%s\nis:\n%s\nhistory:\n%s", i, o.kind, o.origin, o.snap, now, desc())
				}
			}
		}
		cl := []string{}
		for c := range classes {
			cl = append(cl, c)
		}
		sort.Strings(cl)
		if panicked > 0 {
			cl = append(cl, "had-panicking-step")
		}
		evC01.Case(sharedStep, desc, cl...)
	})
}

func diffStr(what, before, after string) string {
	if before != after {
		return fmt.Sprintf("%s: before %s, after %s; ", what, before, after)
	}
	return ""
}

func instrNames(ins []qframe.Instruction) []string {
	r := make([]string, len(ins))
	for i, x := range ins {
		r[i] = x.DstCol + "<-" + x.SrcCol1 + "," + x.SrcCol2
	}
	return r
}

// quickOrder fingerprints the sequence of group frames.
func quickOrder(fs []qframe.QFrame) string {
	h := fnv.New64a()
	for _, f := range fs {
		var b [8]byte
		binary.LittleEndian.PutUint64(b[:], quickSnap(f))
		_, _ = h.Write(b[:])
	}
	return strconv.FormatUint(h.Sum64(), 16)
}

func quickSnapOrErr(qf qframe.QFrame) string {
	if qf.Err != nil {
		return "err"
	}
	return strconv.FormatUint(quickSnap(qf), 16)
}
