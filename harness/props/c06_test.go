package props

import (
	"fmt"
	"testing"

	"github.com/tobgu/qframe"
	"github.com/tobgu/qframe/config/groupby"
	"pgregory.net/rapid"

	"verifharness/ev"
	"verifharness/hx"
)

// C06 — Apply computes each destination cell from the same row and changes nothing
// else; FilteredApply; WithRowNums.

var evC06 = ev.New("C06", "receiver = derived frame, a Select-reordered projection of it or a GroupBy().Aggregate() result (observed content is the precondition) x 1-5 instructions "+
	"(constants of every type incl. nil *string, column copies, zero-argument functions, unary functions of all 16 signatures, ToUpper built-in, binary same-type functions; "+
	"destinations new/existing/equal to source, sources that are earlier destinations) run through Apply, FilteredApply(clause depth<=2) or WithRowNums; oracle: sequential row-wise model; "+
	"non-trivial = non-identity index and (>=2 instructions with an overlap, or FilteredApply selecting a proper non-empty subset); distinct = FNV-64 of (table, route, receiver kind, clause, instructions)")

const (
	sigColCopy = "C06/filteredapply-columncopy-unfiltered"
	sigEnumUp  = "C06/filteredapply-enum-builtin-unfiltered"
)

func TestC06(t *testing.T) {
	rapid.Check(t, func(t *rapid.T) {
		base := hx.GenTable(t, hx.TableOpt{MinCols: 2, MaxCols: 6, AllowDerived: true})
		steps := 4
		if hx.Rarely(t, 600, "blocksize") {
			base, steps = hx.GenBlockTable(t), 1 // thousands of rows: blocked / unrolled / parallel code paths, remainders
		}
		d := hx.GenDerived(t, base, steps)
		recv := d.QF
		recvKind := "derived"
		switch rapid.IntRange(0, 5).Draw(t, "recv") {
		case 0: // projection with reordered columns (column positions change)
			names := rapid.Permutation(base.Names()).Draw(t, "selperm")
			k := rapid.IntRange(1, len(names)).Draw(t, "selk")
			recv = d.QF.Select(names[:k]...)
			recvKind = "select"
		case 1: // aggregate result: key columns + aggregate columns
			if d.QF.Len() > 0 {
				in0 := d.Input(t)
				key := in0.Cols[rapid.IntRange(0, len(in0.Cols)-1).Draw(t, "aggkey")].Name
				aggs := genAggs(t, in0, []string{key})
				real := make([]qframe.Aggregation, len(aggs))
				for i, a := range aggs {
					real[i] = a.Build(in0.MustCol(a.Col).Kind)
				}
				recv = d.QF.GroupBy(groupby.Columns(key)).Aggregate(real...)
				recvKind = "aggregate"
			}
		}
		if recv.Err != nil {
			t.Fatalf("receiver construction failed (%s): %v\n%s", recvKind, recv.Err, d.String())
		}
		obs, err := hx.Observe(recv)
		if err != nil {
			t.Fatalf("observe receiver: %v", err)
		}
		in := hx.WithEnumDecl(obs, base)
		if len(in.Cols) == 0 {
			t.Skip("no columns")
		}
		// now and then the receiver has an earlier life that touched its data columns (observed afterwards)
		if recvKind == "derived" && steps > 1 && rapid.IntRange(0, 5).Draw(t, "history") == 0 {
			var hist hx.History
			recv, in, hist = hx.GenHistory(t, recv, in, true)
			obs = in
			recvKind = "derived, " + hist.String()
		}
		n := in.N()
		all := hx.Iota(n)

		mode := rapid.SampledFrom([]string{"apply", "apply", "filtered", "filtered", "rownums"}).Draw(t, "mode")
		var instrs []hx.Instr
		var clause hx.Clause
		desc := func() string {
			s := d.String() + fmt.Sprintf("receiver %s %q\nmode %s\n", recvKind, in.Names(), mode)
			if mode == "filtered" {
				s += "clause " + clause.String() + "\n"
			}
			return s + "instructions " + hx.InstrsString(instrs)
		}

		if mode == "rownums" {
			name := rapid.SampledFrom([]string{"rn", "n1", in.Cols[0].Name}).Draw(t, "rnname")
			var res qframe.QFrame
			if perr := hx.Safely(func() { res = recv.WithRowNums(name) }); perr != nil {
				t.Fatalf("WithRowNums panicked: %v\n%s", perr, desc())
			}
			if res.Err != nil {
				t.Fatalf("WithRowNums Err: %v\n%s", res.Err, desc())
			}
			want := in.With(hx.Col{Name: name, Kind: hx.KInt, I: hx.Iota(n)})
			got, err := hx.Observe(res)
			if err != nil {
				t.Fatalf("observe: %v\n%s", err, desc())
			}
			if diff := hx.Diff(want, got); diff != "" {
				t.Fatalf("WithRowNums(%q) differs from model: %s\n%s", name, diff, desc())
			}
			evC06.Case(d.NonIdentity() && n >= 2, desc, "mode:rownums", "recv:"+recvKind)
			return
		}

		instrs = hx.GenInstrs(t, in, 5)
		match := all
		if mode == "filtered" {
			clause = hx.GenClause(t, in, 2, hx.ClauseOpt{})
			match = nil
			for r := 0; r < n; r++ {
				if clause.Eval(in, r) {
					match = append(match, r)
				}
			}
		}
		// model: strict, and the variant carrying the two open known findings
		want, wantKnown := in, in
		kinds := hx.KindMap(in)
		real := make([]qframe.Instruction, len(instrs))
		knownShape := map[string]bool{}
		for i, ins := range instrs {
			real[i] = ins.Build(kinds)
			want = ins.Exec(want, match)
			rows := match
			if mode == "filtered" && len(match) < n {
				if ins.Op == "copy" {
					rows = all
					knownShape[sigColCopy] = true
				}
				if ins.Op == "upper" && wantKnown.MustCol(ins.Src1).Kind == hx.KEnum {
					rows = all
					knownShape[sigEnumUp] = true
				}
			}
			wantKnown = ins.Exec(wantKnown, rows)
			kinds = hx.KindMap(want)
		}

		var res qframe.QFrame
		if rapid.IntRange(0, 3).Draw(t, "secondcall") == 0 {
			// the same instruction values applied to the same receiver a second time: that result counts
			_ = hx.Safely(func() {
				if mode == "filtered" {
					_ = recv.FilteredApply(clause.Build(hx.KindMap(in)), real...)
				} else {
					_ = recv.Apply(real...)
				}
			})
		}
		if perr := hx.Safely(func() {
			if mode == "filtered" {
				res = recv.FilteredApply(clause.Build(hx.KindMap(in)), real...)
			} else {
				res = recv.Apply(real...)
			}
		}); perr != nil {
			t.Fatalf("%s panicked: %v\n%s", mode, perr, desc())
		}
		if res.Err != nil {
			t.Fatalf("%s returned Err for well-typed instructions: %v\n%s", mode, res.Err, desc())
		}
		got, err := hx.Observe(res)
		if err != nil {
			t.Fatalf("observe result: %v\n%s", err, desc())
		}
		norm := got
		if mode == "filtered" {
			norm = normaliseZeroStrings(got, want, match)
		}
		if diff := hx.Diff(want, norm); diff != "" {
			handled := false
			if len(knownShape) > 0 {
				normK := normaliseZeroStrings(got, wantKnown, match)
				if hx.Diff(wantKnown, normK) == "" {
					for sig := range knownShape {
						evC06.Known(sig)
					}
					handled = true
				}
			}
			if !handled {
				t.Fatalf("%s result differs from model: %s\n%s\nresult %s", mode, diff, desc(), got.String())
			}
		}
		// the receiver is untouched
		after, err := hx.Observe(recv)
		if err != nil || hx.Diff(obs, after) != "" {
			t.Fatalf("%s changed its receiver: %v %s\n%s", mode, err, hx.Diff(obs, after), desc())
		}
		// a receiver that lost all its columns (Drop of every column of a frame that may have been filtered or sliced
		// before): whatever rows such a frame is taken to have, a constant Apply and WithRowNums on it give a frame that
		// can be observed, all of whose columns have Len() cells
		if names := recv.ColumnNames(); len(names) > 0 && rapid.IntRange(0, 3).Draw(t, "columnless") == 0 {
			if perr := hx.Safely(func() {
				cl := recv.Drop(names...)
				if cl.Err != nil {
					return
				}
				for _, r := range []qframe.QFrame{cl.Apply(qframe.Instruction{Fn: 7, DstCol: "zz-c"}), cl.WithRowNums("zz-n"),
					cl.Apply(qframe.Instruction{Fn: hx.ZeroArgInt, DstCol: "zz-f"})} {
					if r.Err != nil {
						continue
					}
					o, err := hx.Observe(r)
					if err != nil {
						panic(fmt.Sprintf("the result cannot be observed: %v", err))
					}
					if o.N() != r.Len() {
						panic(fmt.Sprintf("the result has Len()=%d but %d cells per column", r.Len(), o.N()))
					}
				}
			}); perr != nil {
				t.Fatalf("Apply/WithRowNums on the receiver after Drop(%q): %v\n%s", names, perr, desc())
			}
		}
		// "changes nothing else": further columns added to the result and to a sibling forked from the same
		// result must not show up in each other (new columns are appended to a column slice that may have
		// spare capacity)
		if mode == "apply" && rapid.IntRange(0, 2).Draw(t, "fork") == 0 {
			c1 := res.Apply(qframe.Instruction{Fn: 1, DstCol: "fork1"})
			c2 := res.Apply(qframe.Instruction{Fn: 2.5, DstCol: "fork2"})
			o1, e1 := hx.Observe(c1)
			o2, e2 := hx.Observe(c2)
			w1 := got.With(hx.Col{Name: "fork1", Kind: hx.KInt, I: constInts(1, got.N())})
			w2 := got.With(hx.Col{Name: "fork2", Kind: hx.KFloat, F: constFloats(2.5, got.N())})
			if e1 != nil || e2 != nil || hx.Diff(w1, o1) != "" || hx.Diff(w2, o2) != "" {
				t.Fatalf("two frames forked from the result by adding a column each interfere: %v %v %s %s\n%s", e1, e2, hx.Diff(w1, o1), hx.Diff(w2, o2), desc())
			}
		}

		overlap := false
		dsts := map[string]bool{}
		classes := []string{"mode:" + mode, "recv:" + recvKind}
		for _, ins := range instrs {
			if dsts[ins.Src1] || dsts[ins.Src2] || in.Find(ins.Dst) >= 0 {
				overlap = true
			}
			dsts[ins.Dst] = true
			classes = append(classes, "op:"+ins.Op)
		}
		if overlap {
			classes = append(classes, "overlapping-src-dst")
		}
		nontrivial := d.NonIdentity() && ((len(instrs) >= 2 && overlap) || (mode == "filtered" && len(match) > 0 && len(match) < n))
		evC06.Case(nontrivial, desc, classes...)
	})
}

// normaliseZeroStrings maps "" to null in the string-typed destination cells of rows
// that did not match the FilteredApply clause: the statement says "zero/null value",
// so both are accepted there.
func normaliseZeroStrings(got, want hx.Table, match []int) hx.Table {
	matched := map[int]bool{}
	for _, r := range match {
		matched[r] = true
	}
	out := hx.Table{Cols: append([]hx.Col(nil), got.Cols...)}
	for ci, c := range out.Cols {
		if c.Kind != hx.KString && c.Kind != hx.KEnum {
			continue
		}
		if ci >= len(want.Cols) || want.Cols[ci].Len() != c.Len() {
			continue
		}
		s := append([]*string(nil), c.S...)
		for r := range s {
			if !matched[r] && s[r] != nil && *s[r] == "" && want.Cols[ci].S != nil && want.Cols[ci].S[r] == nil {
				s[r] = nil
			}
		}
		out.Cols[ci].S = s
	}
	return out
}

func constInts(v, n int) []int {
	r := make([]int, n)
	for i := range r {
		r[i] = v
	}
	return r
}

func constFloats(v float64, n int) []float64 {
	r := make([]float64, n)
	for i := range r {
		r[i] = v
	}
	return r
}
