package props

import (
	"os"
	"testing"

	"verifharness/ev"
)

func TestMain(m *testing.M) {
	code := m.Run()
	ev.Flush()
	os.Exit(code)
}

// tier reports the tier the driver asked for ("quick" or "thorough").
func tier() string {
	if v := os.Getenv("VERIF_TIER"); v != "" {
		return v
	}
	return "quick"
}
