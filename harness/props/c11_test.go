package props

import (
	"fmt"
	"os"
	"runtime"
	"sort"
	"strings"
	"sync"
	"testing"

	"github.com/tobgu/qframe"
	"github.com/tobgu/qframe/config/eval"
	"github.com/tobgu/qframe/config/groupby"
	"pgregory.net/rapid"

	"verifharness/ev"
	"verifharness/faults"
	"verifharness/hx"
)

// C11 — A frame may be used by any number of goroutines at once.
//
// The binary is built with -race. Every operation of a drawn multiset is first run
// alone; then all of them are started behind a barrier on separate goroutines (three
// repetitions with different GOMAXPROCS); every concurrent result must equal the solo
// result and the race detector must stay silent (GORACE=halt_on_error=1 ends the
// process; the case is written to c11_current_case.txt before the goroutines start).

var evC11 = ev.New("C11", "a family of frames sharing storage (base, Slice, Sort, Filter, Select, Copy siblings; string and enum columns), shared clause values, shared order/instruction slices, one shared eval.Context and one shared Grouper; "+
	"a multiset of 2-8 operations (Filter incl. like/ilike and predicate functions, Sort, Distinct, GroupBy/Aggregate, Aggregate/QFrames on the shared Grouper, Apply, Eval, Select/Slice/Copy, typed views, ToCSV/ToJSON/String, Equals) "+
	"run solo and then concurrently behind a barrier, 3 repetitions with GOMAXPROCS 2/8/16, binary built with -race; oracle: every concurrent result equals the solo result and no race report; "+
	"non-trivial = >=2 operations on members sharing a column or index, at least one of them allocating scratch state (Sort, GroupBy, Distinct, like/ilike, Aggregate, Eval); distinct = FNV-64 of (table, operation list)")

type concOp struct {
	desc    string
	scratch bool
	run     func() string
	solo    func() string // when set: the solo reference run (must not touch the shared state first)
}

func multiset(qf qframe.QFrame) string {
	if qf.Err != nil {
		return "err: " + qf.Err.Error()
	}
	tab, err := hx.Observe(qf)
	if err != nil {
		return "unobservable: " + err.Error()
	}
	rows := make([]string, tab.N())
	for r := range rows {
		rows[r] = tab.RowKey(r, nil)
	}
	sort.Strings(rows)
	return fmt.Sprintf("%q %d\n%s", tab.Names(), qf.Len(), strings.Join(rows, "\n"))
}

func TestC11(t *testing.T) {
	rapid.Check(t, func(t *rapid.T) {
		base := withIDLast(hx.GenTable(t, hx.TableOpt{PerKind: 2, SharedEnum: true, MinEnum: 2, Rows: hx.RowsUpTo(300)}))
		root := hx.Build(base)
		if root.Err != nil {
			t.Fatalf("build: %v", root.Err)
		}
		n := base.N()
		a := rapid.IntRange(0, n).Draw(t, "slicea")
		b := rapid.IntRange(a, n).Draw(t, "sliceb")
		members := []qframe.QFrame{
			root,
			root.Slice(a, b),
			root.Sort(qframe.Order{Column: "i1"}, qframe.Order{Column: "id", Reverse: true}),
			root.Filter(qframe.Filter{Column: "b1", Comparator: "=", Arg: true}),
			root.Copy("s3", "s1"),
		}
		members = append(members, members[2].Select("id", "s1", "e1", "i1", "f1"))
		names := []string{"root", "slice", "sorted", "filtered", "copied", "sorted+select"}
		tabs := make([]hx.Table, len(members))
		for i, m := range members {
			obs, err := hx.Observe(m)
			if err != nil {
				t.Fatalf("observe member %s: %v", names[i], err)
			}
			tabs[i] = hx.WithEnumDecl(obs, base)
		}
		// shared values
		// the shared context: one with user functions registered for every type, or an untouched
		// default context (whatever it sets up lazily happens inside the concurrent phase)
		customCtx := rapid.Bool().Draw(t, "customctx")
		ctx := eval.NewDefaultCtx()
		if customCtx {
			ctx = hx.NewCtx()
		}
		sharedClauses := make([]hx.Clause, 2)
		sharedReal := make([]qframe.FilterClause, 2)
		for i := range sharedClauses {
			sharedClauses[i] = hx.GenClause(t, tabs[5], 2, hx.ClauseOpt{}) // over the columns every member has
			sharedReal[i] = sharedClauses[i].Build(hx.KindMap(tabs[5]))
		}
		sharedOrders := hx.BuildOrders(append(genOrders(t, tabs[5], "id"), hx.Order{Col: "id"}))
		gkey := rapid.SampledFrom([]string{"i1", "s1", "e1", "f1"}).Draw(t, "gkey")
		sharedGrouper := members[rapid.IntRange(0, len(members)-1).Draw(t, "gmember")].GroupBy(groupby.Columns(gkey), groupby.Null(true))

		nops := rapid.IntRange(2, 8).Draw(t, "nops")
		ops := make([]concOp, nops)
		for i := range ops {
			mi := rapid.IntRange(0, len(members)-1).Draw(t, "member")
			m, tab, mn := members[mi], tabs[mi], names[mi]
			switch rapid.IntRange(0, 13).Draw(t, "op") {
			case 0:
				k := rapid.IntRange(0, 1).Draw(t, "sharedclause")
				ops[i] = concOp{desc: fmt.Sprintf("%s.Filter(shared clause %d: %s)", mn, k, sharedClauses[k].String()), run: func() string { return snapFrame(m.Filter(sharedReal[k])) }}
			case 1:
				col := rapid.SampledFrom([]string{"s1", "e1"}).Draw(t, "likecol")
				comp := rapid.SampledFrom([]string{"like", "ilike"}).Draw(t, "likecomp")
				pat := rapid.SampledFrom([]string{"a%", "%b", "%a%", "A", "ab", "%Ä%", "[ab]%"}).Draw(t, "likepat")
				ops[i] = concOp{desc: fmt.Sprintf("%s.Filter(%s %s %q)", mn, col, comp, pat), scratch: true, run: func() string {
					return snapFrame(m.Filter(qframe.Filter{Column: col, Comparator: comp, Arg: pat}))
				}}
			case 2:
				ops[i] = concOp{desc: mn + ".Sort(shared orders)", scratch: true, run: func() string { return snapFrame(m.Sort(sharedOrders...)) }}
			case 3:
				cols := []string{rapid.SampledFrom([]string{"i1", "s1", "e1", "f1"}).Draw(t, "dcol")}
				gnull := rapid.Bool().Draw(t, "dnull")
				ops[i] = concOp{desc: fmt.Sprintf("%s.Distinct(%q, null=%v)", mn, cols, gnull), scratch: true, run: func() string {
					d := m.Distinct(groupby.Columns(cols...), groupby.Null(gnull))
					if d.Err != nil {
						return d.Err.Error()
					}
					// which representative is kept is unspecified: compare the keys only
					return multiset(d.Select(cols...))
				}}
			case 4:
				key := rapid.SampledFrom([]string{"i1", "s1", "e1", "f1"}).Draw(t, "aggkey")
				aggs := genAggs(t, tab, []string{key})
				real := make([]qframe.Aggregation, len(aggs))
				for j, ag := range aggs {
					real[j] = ag.Build(tab.MustCol(ag.Col).Kind)
				}
				gnull := rapid.Bool().Draw(t, "gnull")
				ops[i] = concOp{desc: fmt.Sprintf("%s.GroupBy(%s, null=%v).Aggregate(%v)", mn, key, gnull, aggs), scratch: true, run: func() string {
					return multiset(m.GroupBy(groupby.Columns(key), groupby.Null(gnull)).Aggregate(real...))
				}}
			case 5:
				ops[i] = concOp{desc: "sharedGrouper.Aggregate(count,sum i1)", scratch: true, run: func() string {
					return multiset(sharedGrouper.Aggregate(qframe.Aggregation{Fn: "count", Column: "id", As: "n"}, qframe.Aggregation{Fn: "sum", Column: "i1", As: "sum"}))
				}}
			case 6:
				ops[i] = concOp{desc: "sharedGrouper.QFrames()", run: func() string {
					fs, err := sharedGrouper.QFrames()
					if err != nil {
						return err.Error()
					}
					ss := make([]string, len(fs))
					for j, f := range fs {
						ss[j] = snapFrame(f)
					}
					sort.Strings(ss)
					return strings.Join(ss, "--")
				}}
			case 7:
				ins := hx.GenInstrs(t, tab, 3)
				kinds := hx.KindMap(tab)
				cur := tab
				real := make([]qframe.Instruction, len(ins))
				for j, x := range ins {
					real[j] = x.Build(kinds)
					cur = x.Exec(cur, nil)
					kinds = hx.KindMap(cur)
				}
				ops[i] = concOp{desc: mn + ".Apply(" + hx.InstrsString(ins) + ")", run: func() string { return snapFrame(m.Apply(real...)) }}
			case 8:
				want := rapid.SampledFrom([]hx.Kind{hx.KInt, hx.KFloat, hx.KBool, hx.KString}).Draw(t, "want")
				e := hx.GenExprOfKind(t, tab, want, 2, customCtx)
				real := e.Build()
				ops[i] = concOp{desc: fmt.Sprintf("%s.Eval(n1, %s, shared ctx custom=%v)", mn, e.String(), customCtx), scratch: true, run: func() string {
					return snapFrame(m.Eval("n1", real, eval.EvalContext(ctx)))
				}, solo: func() string {
					// the reference run uses a private context of the same kind, so that the first use
					// of the shared one happens in the concurrent phase
					private := eval.NewDefaultCtx()
					if customCtx {
						private = hx.NewCtx()
					}
					return snapFrame(m.Eval("n1", real, eval.EvalContext(private)))
				}}
			case 9:
				x := rapid.IntRange(0, tab.N()).Draw(t, "a")
				y := rapid.IntRange(x, tab.N()).Draw(t, "b")
				ops[i] = concOp{desc: fmt.Sprintf("%s.Slice(%d,%d).Select(id,s1).Copy(c,s1)", mn, x, y), run: func() string {
					return snapFrame(m.Slice(x, y).Select("id", "s1").Copy("c", "s1"))
				}}
			case 10:
				ops[i] = concOp{desc: mn + " typed views", run: func() string {
					var sb strings.Builder
					if v, err := m.StringView("s1"); err == nil {
						sb.WriteString(snapView(v))
					}
					if v, err := m.EnumView("e1"); err == nil {
						sb.WriteString(snapView(v))
					}
					if v, err := m.IntView("id"); err == nil {
						sb.WriteString(snapView(v))
					}
					if v, err := m.FloatView("f1"); err == nil {
						sb.WriteString(snapView(v))
					}
					return sb.String()
				}}
			case 11:
				// now and then into a writer that fails after a few bytes (error paths release/reuse buffers too)
				limit := -1
				if rapid.IntRange(0, 2).Draw(t, "failingwriter") == 0 {
					limit = rapid.IntRange(0, 40).Draw(t, "writelimit")
				}
				ops[i] = concOp{desc: fmt.Sprintf("%s ToCSV+ToJSON+String (writer limit %d)", mn, limit), run: func() string {
					w1, w2 := &faults.FailWriter{Limit: limit}, &faults.FailWriter{Limit: limit}
					e1 := m.ToCSV(w1)
					e2 := m.ToJSON(w2)
					return fmt.Sprintf("%v %v %s %s %s", e1 != nil, e2 != nil, w1.Accepted, w2.Accepted, m.String())
				}}
			case 12:
				oi := rapid.IntRange(0, len(members)-1).Draw(t, "other")
				o := members[oi]
				ops[i] = concOp{desc: fmt.Sprintf("%s.Equals(%s)", mn, names[oi]), run: func() string {
					eq, why := m.Equals(o)
					return fmt.Sprint(eq, why)
				}}
			default:
				fn := rapid.IntRange(0, len(hx.PredFns)-1).Draw(t, "predfn")
				ops[i] = concOp{desc: fmt.Sprintf("%s.Filter(i1 predicate fn %d)", mn, fn), run: func() string {
					return snapFrame(m.Filter(qframe.Filter{Column: "i1", Comparator: hx.PredFns[fn].I1}))
				}}
			}
		}
		var sb strings.Builder
		sb.WriteString(base.String())
		fmt.Fprintf(&sb, "slice(%d,%d) grouper on %s\n", a, b, gkey)
		for i, o := range ops {
			fmt.Fprintf(&sb, "  op %d: %s\n", i, o.desc)
		}
		desc := sb.String()
		_ = os.WriteFile("c11_current_case.txt", []byte(desc), 0o644)

		solo := make([]string, nops)
		for i, o := range ops {
			ref := o.run
			if o.solo != nil {
				ref = o.solo
			}
			if perr := hx.Safely(func() { solo[i] = ref() }); perr != nil {
				t.Skip("an operation panics on its own: not C11's business")
			}
		}
		before := make([]string, len(members))
		for i, m := range members {
			before[i] = snapFrame(m)
		}
		old := runtime.GOMAXPROCS(0)
		defer runtime.GOMAXPROCS(old)
		for rep, procs := range []int{2, 8, 16} {
			runtime.GOMAXPROCS(procs)
			results := make([]string, nops)
			panics := make([]error, nops)
			var wg sync.WaitGroup
			start := make(chan struct{})
			for i := range ops {
				wg.Add(1)
				go func(i int) {
					defer wg.Done()
					<-start
					if rep == 1 && i%2 == 1 {
						runtime.Gosched()
					}
					panics[i] = hx.Safely(func() { results[i] = ops[i].run() })
				}(i)
			}
			close(start)
			wg.Wait()
			for i := range ops {
				if panics[i] != nil {
					t.Fatalf("operation %d (%s) panicked when run concurrently (repetition %d, GOMAXPROCS %d): %v\n%s", i, ops[i].desc, rep, procs, panics[i], desc)
				}
				if results[i] != solo[i] {
					t.Fatalf("operation %d (%s) returned another result when run concurrently (repetition %d, GOMAXPROCS %d)\nsolo:\n%s\nconcurrent:\n%s\n%s",
						i, ops[i].desc, rep, procs, clipS(solo[i]), clipS(results[i]), desc)
				}
			}
		}
		for i, m := range members {
			if now := snapFrame(m); now != before[i] {
				t.Fatalf("member %s changed while operations ran concurrently\n%s", names[i], desc)
			}
		}
		scratch := false
		for _, o := range ops {
			if o.scratch {
				scratch = true
			}
		}
		cl := []string{fmt.Sprintf("nops=%d", nops)}
		for _, o := range ops {
			cl = append(cl, "op:"+strings.SplitN(strings.SplitN(o.desc, ".", 2)[len(strings.SplitN(o.desc, ".", 2))-1], "(", 2)[0])
		}
		evC11.Case(scratch && nops >= 2, func() string { return desc }, cl...)
	})
}
