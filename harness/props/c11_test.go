package props

import (
	"bytes"
	"fmt"
	"github.com/tobgu/qframe/aggregation"
	"github.com/tobgu/qframe/config/csv"
	"github.com/tobgu/qframe/function"
	"github.com/tobgu/qframe/types"
	"os"
	"runtime"
	"sort"
	"strings"
	"sync"
	"testing"

	"github.com/tobgu/qframe"
	"github.com/tobgu/qframe/config/eval"
	"github.com/tobgu/qframe/config/groupby"
	"pgregory.net/rapid"

	"verifharness/ev"
	"verifharness/faults"
	"verifharness/hx"
)

// C11 — A frame may be used by any number of goroutines at once.
//
// The binary is built with -race. Every operation of a drawn multiset is first run
// alone; then all of them are started behind a barrier on separate goroutines (three
// repetitions with different GOMAXPROCS); every concurrent result must equal the solo
// result and the race detector must stay silent (GORACE=halt_on_error=1 ends the
// process; the case is written to c11_current_case.txt before the goroutines start).

var evC11 = ev.New("C11", "a family of frames sharing storage (base, Slice, Sort, Filter, Select, Copy siblings; string and enum columns), shared clause values, shared order/instruction slices, one shared eval.Context (or a private one built inside the goroutine) and one shared Grouper; "+
	"a multiset of 2-8 operations (Filter incl. like/ilike and predicate functions, Sort, Distinct, GroupBy/Aggregate, Aggregate/QFrames on the shared Grouper, Apply, Eval, Select/Slice/Copy, typed views, ToCSV/ToJSON/String, Equals) "+
	"run solo and then concurrently behind a barrier, 3 repetitions with GOMAXPROCS 2/8/16, binary built with -race; oracle: every concurrent result equals the solo result and no race report; "+
	"non-trivial = >=2 operations on members sharing a column or index, at least one of them allocating scratch state (Sort, GroupBy, Distinct, like/ilike, Aggregate, Eval); distinct = FNV-64 of (table, operation list)")

type concOp struct {
	desc    string
	scratch bool
	run     func() string
	solo    func() string // when set: the solo reference run (must not touch the shared state first)
}

func multiset(qf qframe.QFrame) string {
	if qf.Err != nil {
		return "err: " + qf.Err.Error()
	}
	tab, err := hx.Observe(qf)
	if err != nil {
		return "unobservable: " + err.Error()
	}
	rows := make([]string, tab.N())
	for r := range rows {
		rows[r] = tab.RowKey(r, nil)
	}
	sort.Strings(rows)
	return fmt.Sprintf("%q %d\n%s", tab.Names(), qf.Len(), strings.Join(rows, "\n"))
}

// family is one instance of the frames and shared values a case works on. Every case builds TWO
// identical families from the same drawn data: the concurrent phase runs on the first, the solo
// reference runs on the second, so that anything an implementation initialises lazily on first use
// (caches on columns, contexts, groupers) is still cold when the goroutines start.
type family struct {
	members  []qframe.QFrame
	tabs     []hx.Table
	grouper  qframe.Grouper
	ctx      *eval.Context
	strjoin  interface{} // one aggregation.StrJoin function value shared by the operations
	exprs    []qframe.Expression
	csvOrder []string
	csvCols  csv.ToConfigFunc
	gbCols   groupby.ConfigFunc
	aggs     []qframe.Aggregation
	inInts   []int
	inStrs   []string
	clauses  []qframe.FilterClause
	orders   []qframe.Order
	upper    qframe.QFrame // the root with its enum and string columns written anew by the ToUpper built-in (not used before)
}

type c11Builtin struct {
	name    string
	col     string
	viaEval bool
	fn      interface{}
}

// built-in functions of the default eval context (by name) and of the function package (handed to Apply)
var c11Builtins = []c11Builtin{
	{"str", "f1", true, nil}, {"str", "i1", true, nil}, {"str", "b1", true, nil}, {"str", "s1", true, nil}, {"abs", "f1", true, nil}, {"abs", "i1", true, nil},
	{"upper", "s1", true, nil}, {"lower", "s1", true, nil}, {"len", "s1", true, nil}, {"float", "i1", true, nil}, {"bool", "i1", true, nil}, {"!", "b1", true, nil}, {"int", "b1", true, nil},
	{"StrF", "f1", false, function.StrF}, {"StrI", "i1", false, function.StrI}, {"StrB", "b1", false, function.StrB}, {"UpperS", "s1", false, function.UpperS}, {"LenS", "s1", false, function.LenS},
	{"UpperS", "e1", false, function.UpperS}, {"AbsI", "i1", false, function.AbsI},
	// the built-ins Apply knows by name (the enum one re-codes the column when values fall together)
	{"ToUpper", "e1", false, "ToUpper"}, {"ToUpper", "e1", false, "ToUpper"}, {"ToUpper", "s1", false, "ToUpper"}, {"upper", "e1", true, nil},
}

var c11Names = []string{"root", "slice", "sorted", "filtered", "copied", "sorted+select"}

func TestC11(t *testing.T) {
	rapid.Check(t, func(t *rapid.T) {
		base := withIDLast(hx.GenTable(t, hx.TableOpt{PerKind: 2, SharedEnum: true, MinEnum: 2, Rows: hx.RowsUpTo(300)}))
		// long keys: string cells of more than 64 bytes (hashing and comparing switch strategy with the length)
		if rapid.Bool().Draw(t, "longkeys") {
			ci := base.Find("s1")
			s := append([]*string(nil), base.Cols[ci].S...)
			for r := range s {
				if k := rapid.IntRange(0, 5).Draw(t, "longkey"); k < 3 && s[r] != nil {
					s[r] = hx.Sp(strings.Repeat(*s[r]+"-long-key-", 7+k) + fmt.Sprint(k))
				}
			}
			base.Cols[ci].S = s
		}
		// a cell or two of more than a thousand bytes (conversion buffers have a first size; what grew once may be kept)
		if base.N() > 0 && rapid.IntRange(0, 3).Draw(t, "verylongcell") == 0 {
			ci := base.Find("s1")
			s := append([]*string(nil), base.Cols[ci].S...)
			for k := 0; k < 2; k++ {
				r := rapid.IntRange(0, len(s)-1).Draw(t, "verylongrow")
				s[r] = hx.Sp(strings.Repeat("Ab", rapid.SampledFrom([]int{505, 511, 512, 600, 2100}).Draw(t, "verylonglen")) + "ç" + fmt.Sprint(k))
			}
			base.Cols[ci].S = s
		}
		// now and then the enum columns hold values that differ in case only (operations that fold case then have values
		// falling together and re-code the column)
		if rapid.IntRange(0, 3).Draw(t, "casepairs") == 0 {
			decl := rapid.Permutation([]string{"a", "A", "b", "B", "ab", "Ab", "aB", ""}).Draw(t, "casedecl")[:rapid.IntRange(3, 8).Draw(t, "casedecln")]
			for _, name := range []string{"e1", "e2"} {
				ci := base.Find(name)
				cells := make([]*string, base.N())
				for r := range cells {
					if k := rapid.IntRange(-1, len(decl)-1).Draw(t, "casecell"); k >= 0 {
						cells[r] = hx.Sp(decl[k])
					}
				}
				base.Cols[ci].S, base.Cols[ci].Enum = cells, decl
			}
		}
		n := base.N()
		a := rapid.IntRange(0, n).Draw(t, "slicea")
		b := rapid.IntRange(a, n).Draw(t, "sliceb")
		customCtx := rapid.Bool().Draw(t, "customctx")
		gkey := rapid.SampledFrom([]string{"i1", "s1", "e1", "f1"}).Draw(t, "gkey")
		gmember := rapid.IntRange(0, len(c11Names)-1).Draw(t, "gmember")
		gnullShared := rapid.Bool().Draw(t, "gnullshared")
		var sharedClauses []hx.Clause
		var sharedOrders []hx.Order
		var sharedExprs []hx.Expr
		focusFn := rapid.SampledFrom(c11Builtins).Draw(t, "focusfn")
		var refTabs []hx.Table
		// the shared list of grouping columns names a column twice, at the end or in the middle
		gbNames := rapid.SampledFrom([][]string{{"i1", "e1", "i1"}, {"i1", "i1", "e1"}, {"e1", "i1", "i1", "e1"}, {"i1", "e1", "e1", "i1"}}).Draw(t, "gbnames")
		inListExtra := rapid.SampledFrom([]int{0, 0, 17, 20, 50, 115, 250}).Draw(t, "inlistextra")
		inListSeed := rapid.Uint64().Draw(t, "inlistseed")
		mkFamily := func(first bool) family {
			root := hx.Build(base)
			if root.Err != nil {
				t.Fatalf("build: %v", root.Err)
			}
			f := family{members: []qframe.QFrame{
				root,
				root.Slice(a, b),
				root.Sort(qframe.Order{Column: "i1"}, qframe.Order{Column: "id", Reverse: true}),
				root.Filter(qframe.Filter{Column: "b1", Comparator: "=", Arg: true}),
				root.Copy("s3", "s1"),
			}}
			f.members = append(f.members, f.members[2].Select("id", "s1", "e1", "i1", "f1"))
			if first {
				// only the reference family is observed here; the other one stays untouched until the goroutines start
				for i, m := range f.members {
					obs, err := hx.Observe(m)
					if err != nil {
						t.Fatalf("observe member %s: %v", c11Names[i], err)
					}
					f.tabs = append(f.tabs, hx.WithEnumDecl(obs, base))
				}
				refTabs = f.tabs
			} else {
				f.tabs = refTabs
			}
			if first {
				for i := 0; i < 2; i++ {
					sharedClauses = append(sharedClauses, hx.GenClause(t, f.tabs[5], 2, hx.ClauseOpt{})) // over the columns every member has
				}
				sharedOrders = append(genOrders(t, f.tabs[5], "id"), hx.Order{Col: "id"})
				for i := 0; i < 2; i++ {
					want := rapid.SampledFrom([]hx.Kind{hx.KInt, hx.KFloat, hx.KString}).Draw(t, "sharedexprkind")
					sharedExprs = append(sharedExprs, hx.GenExprOfKind(t, f.tabs[5], want, 2, customCtx))
				}
			}
			for _, e := range sharedExprs {
				f.exprs = append(f.exprs, e.Build())
			}
			f.csvOrder = []string{"i1", "id", "s1", "f1", "e1"}
			f.csvCols = csv.Columns(f.csvOrder)
			f.gbCols = groupby.Columns(append([]string(nil), gbNames...)...)
			f.aggs = []qframe.Aggregation{{Fn: "sum", Column: "i1"}, {Fn: "max", Column: "f1"}}
			f.inInts = []int{7, -3, 64, 2, 0, 5, -1, 3, 1000, 1, -2, 8, 4, 3, -1000, 6}
			f.inStrs = []string{"b", "ab", "a", "", "abc", "B", "zz", "A", "c", "ba", "aB", "b%", "Ab", "a b", "x"}
			if inListExtra > 0 {
				// lists beyond the sizes at which a set implementation may switch to another representation, unsorted
				sm := hx.SplitMix(inListSeed)
				for i := 0; i < inListExtra; i++ {
					v := int(sm.Next()%2001) - 1000
					f.inInts = append(f.inInts, v)
					f.inStrs = append(f.inStrs, fmt.Sprintf("k%d", v))
				}
				f.inInts = f.inInts[:len(f.inInts):len(f.inInts)]
			}
			for _, c := range sharedClauses {
				f.clauses = append(f.clauses, c.Build(hx.KindMap(f.tabs[5])))
			}
			f.orders = hx.BuildOrders(sharedOrders)
			f.strjoin = aggregation.StrJoin(",")
			f.ctx = eval.NewDefaultCtx()
			if customCtx {
				f.ctx = hx.NewCtx()
			}
			f.grouper = f.members[gmember].GroupBy(groupby.Columns(gkey), groupby.Null(gnullShared))
			f.upper = f.members[0].Apply(qframe.Instruction{Fn: "ToUpper", DstCol: "e1", SrcCol1: "e1"}, qframe.Instruction{Fn: "ToUpper", DstCol: "s1", SrcCol1: "s1"})
			return f
		}
		famB := mkFamily(true)  // reference family: solo runs
		famA := mkFamily(false) // concurrent runs
		tabs := famB.tabs

		nops := rapid.IntRange(2, 8).Draw(t, "nops")
		type opMaker struct {
			desc    string
			scratch bool
			mk      func(f family) func() string
		}
		makers := make([]opMaker, nops)
		for i := range makers {
			mi := rapid.IntRange(0, len(c11Names)+1).Draw(t, "member")
			if mi >= len(c11Names) {
				mi = 4 // more weight on the member that was itself made by adding a column (its column slice has a history)
			}
			tab, mn := tabs[mi], c11Names[mi]
			switch rapid.IntRange(0, 26).Draw(t, "op") {
			case 26:
				// the family's upper-cased frame (columns made by a built-in, untouched so far) filtered by value: whatever a
				// column sets up on its first use is set up by several goroutines at once
				ucol := rapid.SampledFrom([]string{"e1", "e1", "s1"}).Draw(t, "uppercol")
				ucomp := rapid.SampledFrom([]string{"=", "!=", "<", ">=", "in", "like", "isnull"}).Draw(t, "uppercomp")
				uval := strings.ToUpper(rapid.SampledFrom([]string{"a", "b", "ab", "c", ""}).Draw(t, "upperval"))
				makers[i] = opMaker{desc: fmt.Sprintf("upper-cased root.Filter(%s %s %q)", ucol, ucomp, uval), mk: func(f family) func() string {
					return func() string {
						var arg interface{} = uval
						switch ucomp {
						case "in":
							arg = []string{uval, "ZZ"}
						case "like":
							arg = uval + "%"
						case "isnull":
							arg = nil
						}
						return snapFrame(f.upper.Filter(qframe.Filter{Column: ucol, Comparator: ucomp, Arg: arg}))
					}
				}}
			case 25:
				// a user aggregation that works in place on the slice it is handed (a median by sorting it, a reversal): the
				// slice is the function's own scratch, whichever rows the group holds - with no key, a bool key or an enum key
				// the groups of the plain and the sliced member are runs of neighbouring rows
				key := rapid.SampledFrom([]string{"", "", "b1", "e1"}).Draw(t, "inplacekey")
				col := rapid.SampledFrom([]string{"f1", "i1", "id", "s1"}).Draw(t, "inplacecol")
				makers[i] = opMaker{desc: fmt.Sprintf("%s.GroupBy(%q).Aggregate(in-place median/reversal over %s)", mn, key, col), scratch: true, mk: func(f family) func() string {
					return func() string {
						var fn interface{}
						switch col {
						case "f1":
							fn = func(v []float64) float64 {
								sort.Slice(v, func(i, j int) bool { return v[i] < v[j] || v[i] != v[i] && v[j] == v[j] })
								return v[len(v)/2]
							}
						case "s1":
							fn = func(v []*string) *string {
								for i, j := 0, len(v)-1; i < j; i, j = i+1, j-1 {
									v[i], v[j] = v[j], v[i]
								}
								return v[0]
							}
						default:
							fn = func(v []int) int {
								sort.Ints(v)
								return v[len(v)/2]
							}
						}
						var cols []groupby.ConfigFunc
						if key != "" {
							cols = append(cols, groupby.Columns(key))
						}
						return multiset(f.members[mi].GroupBy(cols...).Aggregate(qframe.Aggregation{Fn: fn, Column: col, As: "mid"}))
					}
				}}
			case 24:
				// clauses whose first sub-clause keeps every row: the next one works on the frame's own rows
				k := rapid.IntRange(-2, 3).Draw(t, "nullandk")
				shape := rapid.IntRange(0, 5).Draw(t, "nullandshape")
				makers[i] = opMaker{desc: fmt.Sprintf("%s.Filter(And(Null-ish, i1 > %d)) shape %d", mn, k, shape), mk: func(f family) func() string {
					return func() string {
						leaf := qframe.Filter{Column: "i1", Comparator: ">", Arg: k}
						var cl qframe.FilterClause
						switch shape {
						case 0:
							cl = qframe.And(qframe.Null(), leaf)
						case 1:
							cl = qframe.And(qframe.And(qframe.Null()), leaf, qframe.Filter{Column: "id", Comparator: ">=", Arg: 0})
						case 2:
							cl = qframe.And(qframe.Or(qframe.Null()), qframe.Null(), leaf)
						case 3:
							// (the complement of a composite clause that matches nothing keeps every row as well)
							cl = qframe.And(qframe.Not(qframe.And(qframe.Filter{Column: "id", Comparator: "<", Arg: 0})), leaf)
						case 4:
							cl = qframe.And(qframe.Not(qframe.Or(qframe.Filter{Column: "id", Comparator: "<", Arg: 0}, qframe.Filter{Column: "id", Comparator: ">", Arg: 1 << 40})), leaf, qframe.Filter{Column: "id", Comparator: ">=", Arg: 1})
						default:
							cl = qframe.And(qframe.Filter{Column: "id", Comparator: ">=", Arg: 0}, qframe.Not(qframe.And(qframe.Filter{Column: "id", Comparator: "<", Arg: 0})), leaf)
						}
						return snapFrame(f.members[mi].Filter(cl))
					}
				}}
			case 23:
				// one []Aggregation value (without As names) handed to several Aggregate calls
				key := rapid.SampledFrom([]string{"e1", "b1", "s1"}).Draw(t, "aggskey")
				onShared := rapid.Bool().Draw(t, "aggsshared")
				makers[i] = opMaker{desc: fmt.Sprintf("%s.GroupBy(%s).Aggregate(shared aggregation slice) sharedGrouper=%v", mn, key, onShared), scratch: true, mk: func(f family) func() string {
					return func() string {
						var r qframe.QFrame
						if onShared {
							r = f.grouper.Aggregate(f.aggs...)
						} else {
							r = f.members[mi].GroupBy(groupby.Columns(key)).Aggregate(f.aggs...)
						}
						return multiset(r) + fmt.Sprintf("%q %q", f.aggs[0].As, f.aggs[1].As)
					}
				}}
			case 22:
				// one []int / []string value list shared by several in-filters
				str := rapid.Bool().Draw(t, "inliststr")
				makers[i] = opMaker{desc: fmt.Sprintf("%s.Filter(in shared list, strings=%v)", mn, str), mk: func(f family) func() string {
					return func() string {
						if str {
							return snapFrame(f.members[mi].Filter(qframe.Filter{Column: "s1", Comparator: "in", Arg: f.inStrs})) + fmt.Sprint(f.inStrs)
						}
						return snapFrame(f.members[mi].Filter(qframe.Filter{Column: "i1", Comparator: "in", Arg: f.inInts})) + fmt.Sprint(f.inInts)
					}
				}}
			case 20:
				// the case's focus function (one built-in of the eval context or the function package) applied to a column:
				// several operations of this kind in one case run the same library function at once
				makers[i] = opMaker{desc: fmt.Sprintf("%s: built-in %s over %s (Eval=%v)", mn, focusFn.name, focusFn.col, focusFn.viaEval), scratch: true, mk: func(f family) func() string {
					return func() string {
						if focusFn.viaEval {
							return snapFrame(f.members[mi].Eval("n1", qframe.Expr(focusFn.name, types.ColumnName(focusFn.col))))
						}
						return snapFrame(f.members[mi].Apply(qframe.Instruction{Fn: focusFn.fn, DstCol: "n1", SrcCol1: focusFn.col}))
					}
				}}
			case 21:
				// one groupby.Columns option value shared by Distinct and GroupBy calls
				distinct := rapid.Bool().Draw(t, "gbdistinct")
				makers[i] = opMaker{desc: fmt.Sprintf("%s: shared groupby.Columns option (distinct=%v)", mn, distinct), scratch: true, mk: func(f family) func() string {
					return func() string {
						if distinct {
							return multiset(f.members[mi].Distinct(f.gbCols).Select("i1", "e1"))
						}
						return multiset(f.members[mi].GroupBy(f.gbCols).Aggregate(qframe.Aggregation{Fn: "count", Column: "id", As: "n"}))
					}
				}}
			case 18:
				// one Expression value evaluated by several operations at once (shared like clauses and orders are)
				k := rapid.IntRange(0, len(sharedExprs)-1).Draw(t, "sharedexpr")
				makers[i] = opMaker{desc: fmt.Sprintf("%s.Eval(n1, shared expression %d: %s)", mn, k, sharedExprs[k].String()), scratch: true, mk: func(f family) func() string {
					return func() string { return snapFrame(f.members[mi].Eval("n1", f.exprs[k], eval.EvalContext(f.ctx))) }
				}}
			case 19:
				// one csv.Columns option value (and the slice behind it) used by several ToCSV calls at once
				makers[i] = opMaker{desc: c11Names[5] + ".ToCSV(shared Columns option)", mk: func(f family) func() string {
					return func() string {
						var buf bytes.Buffer
						err := f.members[5].ToCSV(&buf, f.csvCols) // the member with exactly the columns the option names
						return fmt.Sprintf("%v\n%s order=%q", err, buf.String(), f.csvOrder)
					}
				}}
			case 16:
				// one aggregation function value (aggregation.StrJoin returns a closure) used by several Aggregate calls at once
				key := rapid.SampledFrom([]string{"i1", "e1", "b1"}).Draw(t, "sjkey")
				onShared := rapid.Bool().Draw(t, "sjshared")
				makers[i] = opMaker{desc: fmt.Sprintf("%s.GroupBy(%s).Aggregate(shared StrJoin value over s1) sharedGrouper=%v", mn, key, onShared), scratch: true, mk: func(f family) func() string {
					return func() string {
						agg := qframe.Aggregation{Fn: f.strjoin, Column: "s1", As: "joined"}
						if onShared {
							return multiset(f.grouper.Aggregate(agg))
						}
						return multiset(f.members[mi].GroupBy(groupby.Columns(key)).Aggregate(agg))
					}
				}}
			case 17:
				// the slice a view hands out is the caller's copy: it is sorted/overwritten here while others read the frame
				col := rapid.SampledFrom([]string{"id", "i1", "f1", "b1"}).Draw(t, "slicecol")
				makers[i] = opMaker{desc: fmt.Sprintf("%s: %s view Slice(), overwritten by the caller", mn, col), mk: func(f family) func() string {
					return func() string {
						m := f.members[mi]
						switch col {
						case "f1":
							v, err := m.FloatView(col)
							if err != nil {
								return err.Error()
							}
							s := v.Slice()
							out := fmt.Sprint(len(s))
							for j := range s {
								s[j] = -777
							}
							return out
						case "b1":
							v, err := m.BoolView(col)
							if err != nil {
								return err.Error()
							}
							s := v.Slice()
							out := fmt.Sprint(len(s))
							for j := range s {
								s[j] = !s[j]
							}
							return out
						}
						v, err := m.IntView(col)
						if err != nil {
							return err.Error()
						}
						s := v.Slice()
						out := fmt.Sprint(s)
						sort.Ints(s)
						for j := range s {
							s[j] = -777
						}
						return out
					}
				}}
			case 14, 15:
				// add one new column (each operation its own name): siblings adding columns to the same frame at the same time
				how := rapid.IntRange(0, 2).Draw(t, "addhow")
				name := fmt.Sprintf("added%d", i)
				makers[i] = opMaker{desc: fmt.Sprintf("%s: add column %s (how=%d)", mn, name, how), mk: func(f family) func() string {
					return func() string {
						switch how {
						case 0:
							return snapFrame(f.members[mi].Copy(name, "id"))
						case 1:
							return snapFrame(f.members[mi].WithRowNums(name))
						}
						return snapFrame(f.members[mi].Apply(qframe.Instruction{Fn: i + 100, DstCol: name}))
					}
				}}
			case 0:
				k := rapid.IntRange(0, 1).Draw(t, "sharedclause")
				makers[i] = opMaker{desc: fmt.Sprintf("%s.Filter(shared clause %d: %s)", mn, k, sharedClauses[k].String()), mk: func(f family) func() string {
					return func() string { return snapFrame(f.members[mi].Filter(f.clauses[k])) }
				}}
			case 1:
				col := rapid.SampledFrom([]string{"s1", "e1"}).Draw(t, "likecol")
				comp := rapid.SampledFrom([]string{"like", "ilike"}).Draw(t, "likecomp")
				pat := rapid.SampledFrom([]string{"a%", "%b", "%a%", "A", "ab", "%Ä%", "[ab]%"}).Draw(t, "likepat")
				makers[i] = opMaker{desc: fmt.Sprintf("%s.Filter(%s %s %q)", mn, col, comp, pat), scratch: true, mk: func(f family) func() string {
					return func() string {
						return snapFrame(f.members[mi].Filter(qframe.Filter{Column: col, Comparator: comp, Arg: pat}))
					}
				}}
			case 2:
				makers[i] = opMaker{desc: mn + ".Sort(shared orders)", scratch: true, mk: func(f family) func() string {
					return func() string { return snapFrame(f.members[mi].Sort(f.orders...)) }
				}}
			case 3:
				cols := []string{rapid.SampledFrom([]string{"i1", "s1", "e1", "f1"}).Draw(t, "dcol")}
				gnull := rapid.Bool().Draw(t, "dnull")
				makers[i] = opMaker{desc: fmt.Sprintf("%s.Distinct(%q, null=%v)", mn, cols, gnull), scratch: true, mk: func(f family) func() string {
					return func() string {
						d := f.members[mi].Distinct(groupby.Columns(cols...), groupby.Null(gnull))
						if d.Err != nil {
							return d.Err.Error()
						}
						// which representative is kept is unspecified: compare the keys only
						return multiset(d.Select(cols...))
					}
				}}
			case 4:
				key := rapid.SampledFrom([]string{"i1", "s1", "e1", "f1"}).Draw(t, "aggkey")
				aggs := genAggs(t, tab, []string{key})
				real := make([]qframe.Aggregation, len(aggs))
				for j, ag := range aggs {
					real[j] = ag.Build(tab.MustCol(ag.Col).Kind)
				}
				gnull := rapid.Bool().Draw(t, "gnull")
				makers[i] = opMaker{desc: fmt.Sprintf("%s.GroupBy(%s, null=%v).Aggregate(%v)", mn, key, gnull, aggs), scratch: true, mk: func(f family) func() string {
					return func() string {
						return multiset(f.members[mi].GroupBy(groupby.Columns(key), groupby.Null(gnull)).Aggregate(real...))
					}
				}}
			case 5:
				makers[i] = opMaker{desc: "sharedGrouper.Aggregate(count,sum i1)", scratch: true, mk: func(f family) func() string {
					return func() string {
						return multiset(f.grouper.Aggregate(qframe.Aggregation{Fn: "count", Column: "id", As: "n"}, qframe.Aggregation{Fn: "sum", Column: "i1", As: "sum"}))
					}
				}}
			case 6:
				makers[i] = opMaker{desc: "sharedGrouper.QFrames()", mk: func(f family) func() string {
					return func() string {
						fs, err := f.grouper.QFrames()
						if err != nil {
							return err.Error()
						}
						ss := make([]string, len(fs))
						for j, x := range fs {
							ss[j] = snapFrame(x)
						}
						sort.Strings(ss)
						return strings.Join(ss, "--")
					}
				}}
			case 7:
				ins := hx.GenInstrs(t, tab, 3)
				kinds := hx.KindMap(tab)
				cur := tab
				real := make([]qframe.Instruction, len(ins))
				for j, x := range ins {
					real[j] = x.Build(kinds)
					cur = x.Exec(cur, nil)
					kinds = hx.KindMap(cur)
				}
				makers[i] = opMaker{desc: mn + ".Apply(" + hx.InstrsString(ins) + ")", mk: func(f family) func() string {
					return func() string { return snapFrame(f.members[mi].Apply(real...)) }
				}}
			case 8:
				want := rapid.SampledFrom([]hx.Kind{hx.KInt, hx.KFloat, hx.KBool, hx.KString}).Draw(t, "want")
				e := hx.GenExprOfKind(t, tab, want, 2, customCtx)
				// the context: the one shared by the family, or a private one that the goroutine builds for itself
				// (NewDefaultCtx + SetFunc) while the others are already evaluating
				private := rapid.Bool().Draw(t, "privatectx")
				makers[i] = opMaker{desc: fmt.Sprintf("%s.Eval(n1, %s, ctx custom=%v private=%v)", mn, e.String(), customCtx, private), scratch: true, mk: func(f family) func() string {
					real := e.Build()
					return func() string {
						ctx := f.ctx
						if private {
							ctx = eval.NewDefaultCtx()
							if customCtx {
								ctx = hx.NewCtx()
							}
						}
						return snapFrame(f.members[mi].Eval("n1", real, eval.EvalContext(ctx)))
					}
				}}
			case 9:
				x := rapid.IntRange(0, tab.N()).Draw(t, "a")
				y := rapid.IntRange(x, tab.N()).Draw(t, "b")
				makers[i] = opMaker{desc: fmt.Sprintf("%s.Slice(%d,%d).Select(id,s1).Copy(c,s1)", mn, x, y), mk: func(f family) func() string {
					return func() string { return snapFrame(f.members[mi].Slice(x, y).Select("id", "s1").Copy("c", "s1")) }
				}}
			case 10:
				makers[i] = opMaker{desc: mn + " typed views", mk: func(f family) func() string {
					return func() string {
						m := f.members[mi]
						var sb strings.Builder
						if v, err := m.StringView("s1"); err == nil {
							sb.WriteString(snapView(v))
						}
						if v, err := m.EnumView("e1"); err == nil {
							sb.WriteString(snapView(v))
						}
						if v, err := m.IntView("id"); err == nil {
							sb.WriteString(snapView(v))
						}
						if v, err := m.FloatView("f1"); err == nil {
							sb.WriteString(snapView(v))
						}
						return sb.String()
					}
				}}
			case 11:
				// now and then into a writer that fails after a few bytes (error paths release/reuse buffers too)
				limit := -1
				if rapid.IntRange(0, 2).Draw(t, "failingwriter") == 0 {
					limit = rapid.IntRange(0, 40).Draw(t, "writelimit")
				}
				makers[i] = opMaker{desc: fmt.Sprintf("%s ToCSV+ToJSON+String (writer limit %d)", mn, limit), mk: func(f family) func() string {
					return func() string {
						m := f.members[mi]
						w1, w2 := &faults.FailWriter{Limit: limit}, &faults.FailWriter{Limit: limit}
						e1 := m.ToCSV(w1)
						e2 := m.ToJSON(w2)
						return fmt.Sprintf("%v %v %s %s %s", e1 != nil, e2 != nil, w1.Accepted, w2.Accepted, m.String())
					}
				}}
			case 12:
				oi := rapid.IntRange(0, len(c11Names)-1).Draw(t, "other")
				makers[i] = opMaker{desc: fmt.Sprintf("%s.Equals(%s)", mn, c11Names[oi]), mk: func(f family) func() string {
					return func() string {
						eq, why := f.members[mi].Equals(f.members[oi])
						return fmt.Sprint(eq, why)
					}
				}}
			default:
				fn := rapid.IntRange(0, len(hx.PredFns)-1).Draw(t, "predfn")
				makers[i] = opMaker{desc: fmt.Sprintf("%s.Filter(i1 predicate fn %d)", mn, fn), mk: func(f family) func() string {
					return func() string {
						return snapFrame(f.members[mi].Filter(qframe.Filter{Column: "i1", Comparator: hx.PredFns[fn].I1}))
					}
				}}
			}
		}
		ops := make([]concOp, nops)
		for i, mkr := range makers {
			ops[i] = concOp{desc: mkr.desc, scratch: mkr.scratch, run: mkr.mk(famA), solo: mkr.mk(famB)}
		}
		members := famA.members
		names := c11Names
		var sb strings.Builder
		sb.WriteString(base.String())
		fmt.Fprintf(&sb, "slice(%d,%d) grouper on %s of %s (null=%v)\n", a, b, gkey, names[gmember], gnullShared)
		for i, o := range ops {
			fmt.Fprintf(&sb, "  op %d: %s\n", i, o.desc)
		}
		desc := sb.String()
		_ = os.WriteFile("c11_current_case.txt", []byte(desc), 0o644)

		before := make([]string, len(members))
		for i := range members {
			before[i] = snapFrame(famB.members[i]) // the twin: observing the first family here could warm lazy state
		}
		// library state that is set up on first use (a table built lazily, a package-level map that is edited) is only ever
		// raced for once per process: half of the cases therefore run the concurrent phase before the reference runs
		concFirst := rapid.Bool().Draw(t, "concurrentfirst")
		solo := make([]string, nops)
		runSolo := func() {
			for i, o := range ops {
				if perr := hx.Safely(func() { solo[i] = o.solo() }); perr != nil {
					t.Skip("an operation panics on its own: not C11's business")
				}
				// the reference runs share the twin family: each of them must leave it as it was, or the later ones are no
				// runs "alone on the same frame" (and a frame that an operation changes cannot be shared at all)
				for j := range members {
					if now := snapFrame(famB.members[j]); now != before[j] {
						t.Fatalf("member %s changed while operation %d (%s) ran alone: frames that change under an operation cannot be shared\nbefore:\n%s\nafter:\n%s\n%s",
							names[j], i, o.desc, clipS(before[j]), clipS(now), desc)
					}
				}
			}
		}
		type repOutcome struct {
			procs   int
			results []string
			panics  []error
		}
		var outcomes []repOutcome
		old := runtime.GOMAXPROCS(0)
		defer runtime.GOMAXPROCS(old)
		runConcurrent := func() {
			for rep, procs := range []int{2, 8, 16} {
				runtime.GOMAXPROCS(procs)
				results := make([]string, nops)
				panics := make([]error, nops)
				// every operation is started twice (the multiset holds each operation two times): state that one
				// operation keeps in a shared argument, option or function value then always has a second user
				twins := make([]string, nops)
				twinPanics := make([]error, nops)
				var wg sync.WaitGroup
				start := make(chan struct{})
				for i := range ops {
					wg.Add(2)
					go func(i int) {
						defer wg.Done()
						<-start
						if rep == 1 && i%2 == 1 {
							runtime.Gosched()
						}
						panics[i] = hx.Safely(func() { results[i] = ops[i].run() })
					}(i)
					go func(i int) {
						defer wg.Done()
						<-start
						if rep == 2 && i%2 == 0 {
							runtime.Gosched()
						}
						twinPanics[i] = hx.Safely(func() { twins[i] = ops[i].run() })
					}(i)
				}
				close(start)
				wg.Wait()
				for i := range ops {
					if panics[i] == nil && twinPanics[i] != nil {
						panics[i] = twinPanics[i]
					}
					if panics[i] == nil && twins[i] != results[i] {
						results[i] = twins[i] + "\n(the second of two simultaneous runs of this operation; the first returned)\n" + results[i]
					}
				}
				outcomes = append(outcomes, repOutcome{procs, results, panics})
			}
			runtime.GOMAXPROCS(old)
		}
		if concFirst {
			runConcurrent()
			runSolo()
		} else {
			runSolo()
			runConcurrent()
		}
		for rep, oc := range outcomes {
			for i := range ops {
				if oc.panics[i] != nil {
					t.Fatalf("operation %d (%s) panicked when run concurrently (repetition %d, GOMAXPROCS %d): %v\n%s", i, ops[i].desc, rep, oc.procs, oc.panics[i], desc)
				}
				if oc.results[i] != solo[i] {
					t.Fatalf("operation %d (%s) returned another result when run concurrently (repetition %d, GOMAXPROCS %d)\nsolo:\n%s\nconcurrent:\n%s\n%s",
						i, ops[i].desc, rep, oc.procs, clipS(solo[i]), clipS(oc.results[i]), desc)
				}
			}
		}
		for i, m := range members {
			if now := snapFrame(m); now != before[i] {
				t.Fatalf("member %s changed while operations ran concurrently\n%s", names[i], desc)
			}
		}
		scratch := false
		for _, o := range ops {
			if o.scratch {
				scratch = true
			}
		}
		cl := []string{fmt.Sprintf("nops=%d", nops)}
		for _, o := range ops {
			cl = append(cl, "op:"+strings.SplitN(strings.SplitN(o.desc, ".", 2)[len(strings.SplitN(o.desc, ".", 2))-1], "(", 2)[0])
		}
		evC11.Case(scratch && nops >= 2, func() string { return desc }, cl...)
	})
}
