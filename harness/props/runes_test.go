package props

import (
	"fmt"
	"regexp"
	"strings"
	"testing"
	"unicode"
	"unicode/utf8"

	"github.com/tobgu/qframe"
	"github.com/tobgu/qframe/config/newqf"

	"verifharness/hx"
)

// Exhaustive sweeps over the code points: case mapping is table driven in the library's own helpers (with fast
// paths), so the random alphabets of C06/C18 are backed by one pass over everything per run.

// TestC06Runes: the string built-in "ToUpper" applied to one cell per code point - alone (the helper's "first rune
// that changes" path) and embedded between ASCII letters (its continuation path) - equals strings.ToUpper.
func TestC06Runes(t *testing.T) {
	var cells []string
	for r := rune(0); r <= unicode.MaxRune; r++ {
		if r >= 0xD800 && r <= 0xDFFF {
			continue
		}
		cells = append(cells, string(r), "b"+string(r)+"y")
	}
	qf := qframe.New(map[string]interface{}{"s": cells})
	res := qf.Apply(qframe.Instruction{Fn: "ToUpper", DstCol: "u", SrcCol1: "s"})
	if res.Err != nil {
		t.Fatal(res.Err)
	}
	v := res.MustStringView("u")
	if v.Len() != len(cells) {
		t.Fatalf("ToUpper over %d cells returned %d", len(cells), v.Len())
	}
	bad := 0
	for i, c := range cells {
		got := v.ItemAt(i)
		if want := strings.ToUpper(c); got == nil || *got != want {
			if bad < 5 {
				t.Errorf("ToUpper(%q) = %q, want %q (code point %U)", c, ptrStr(got), want, []rune(c))
			}
			bad++
		}
	}
	if bad > 0 {
		t.Fatalf("built-in ToUpper differs from strings.ToUpper for %d of %d cells", bad, len(cells))
	}
	evC06.CaseHash(true, 0x52554e45, func() string {
		return fmt.Sprintf("exhaustive: built-in ToUpper over all %d code points, alone and embedded", len(cells)/2)
	}, "all-code-points")
}

// TestC18Runes: like/ilike with the single code point c as pattern against the cells {c, upper(c), lower(c),
// title(c), c-32, c+32, c^32} (string and enum column) for every c below U+3000 and every cased letter beyond.
func TestC18Runes(t *testing.T) {
	patterns := 0
	for c := rune(1); c <= unicode.MaxRune; c++ {
		if c >= 0xD800 && c <= 0xDFFF {
			continue
		}
		if c >= 0x3000 && unicode.ToUpper(c) == c && unicode.ToLower(c) == c {
			continue
		}
		p := string(c)
		if c == '%' || regexp.QuoteMeta(p) != p {
			continue
		}
		seen := map[string]bool{}
		var cells []string
		for _, x := range []rune{c, unicode.ToUpper(c), unicode.ToLower(c), unicode.ToTitle(c), c - 32, c + 32, c ^ 32} {
			if x <= 0 || x > unicode.MaxRune || (x >= 0xD800 && x <= 0xDFFF) || !utf8.ValidRune(x) {
				continue
			}
			if s := string(x); !seen[s] {
				seen[s] = true
				cells = append(cells, s)
			}
		}
		qf := qframe.New(map[string]interface{}{"s": cells, "e": cells, "id": hx.Iota(len(cells))}, newqf.Enums(map[string][]string{"e": nil}))
		if qf.Err != nil {
			t.Fatalf("%U: %v", c, qf.Err)
		}
		for _, comp := range []string{"like", "ilike"} {
			model, err := hx.LikeModel(p, comp == "ilike")
			if err != nil {
				continue
			}
			var want []int
			for i, s := range cells {
				if model(s) {
					want = append(want, i)
				}
			}
			for _, col := range []string{"s", "e"} {
				res := qf.Filter(qframe.Filter{Column: col, Comparator: comp, Arg: p})
				if res.Err != nil {
					t.Fatalf("%s %q on %s column: %v", comp, p, col, res.Err)
				}
				if got := res.MustIntView("id").Slice(); fmt.Sprint(got) != fmt.Sprint(want) {
					t.Fatalf("%s %q (%U) on the %s column over cells %q matched rows %v, the statement says %v", comp, p, c, col, cells, got, want)
				}
			}
		}
		patterns++
	}
	evC18.CaseHash(true, 0x52554e45, func() string {
		return fmt.Sprintf("exhaustive: like/ilike with each of %d single code points as pattern against its case variants and neighbours", patterns)
	}, "all-code-points")
}
