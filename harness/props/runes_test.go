package props

import (
	"bytes"
	"fmt"
	"github.com/tobgu/qframe/types"
	"regexp"
	"strings"
	"testing"
	"unicode"
	"unicode/utf8"

	"github.com/tobgu/qframe"
	"github.com/tobgu/qframe/config/csv"
	"github.com/tobgu/qframe/config/newqf"

	"verifharness/hx"
)

// Exhaustive sweeps over the code points: case mapping is table driven in the library's own helpers (with fast
// paths), so the random alphabets of C06/C18 are backed by one pass over everything per run.

// TestC06Runes: the string built-in "ToUpper" applied to one cell per code point - alone (the helper's "first rune
// that changes" path) and embedded between ASCII letters (its continuation path) - equals strings.ToUpper.
func TestC06Runes(t *testing.T) {
	var cells []string
	for r := rune(0); r <= unicode.MaxRune; r++ {
		if r >= 0xD800 && r <= 0xDFFF {
			continue
		}
		cells = append(cells, string(r), "b"+string(r)+"y")
	}
	qf := qframe.New(map[string]interface{}{"s": cells})
	res := qf.Apply(qframe.Instruction{Fn: "ToUpper", DstCol: "u", SrcCol1: "s"})
	if res.Err != nil {
		t.Fatal(res.Err)
	}
	v := res.MustStringView("u")
	if v.Len() != len(cells) {
		t.Fatalf("ToUpper over %d cells returned %d", len(cells), v.Len())
	}
	bad := 0
	for i, c := range cells {
		got := v.ItemAt(i)
		if want := strings.ToUpper(c); got == nil || *got != want {
			if bad < 5 {
				t.Errorf("ToUpper(%q) = %q, want %q (code point %U)", c, ptrStr(got), want, []rune(c))
			}
			bad++
		}
	}
	if bad > 0 {
		t.Fatalf("built-in ToUpper differs from strings.ToUpper for %d of %d cells", bad, len(cells))
	}
	evC06.CaseHash(true, 0x52554e45, func() string {
		return fmt.Sprintf("exhaustive: built-in ToUpper over all %d code points, alone and embedded", len(cells)/2)
	}, "all-code-points")
}

// TestC18Runes: like/ilike with the single code point c as pattern against the cells {c, upper(c), lower(c),
// title(c), c-32, c+32, c^32} (string and enum column) for every c below U+3000 and every cased letter beyond.
func TestC18Runes(t *testing.T) {
	patterns := 0
	for c := rune(1); c <= unicode.MaxRune; c++ {
		if c >= 0xD800 && c <= 0xDFFF {
			continue
		}
		if c >= 0x3000 && unicode.ToUpper(c) == c && unicode.ToLower(c) == c {
			continue
		}
		p := string(c)
		if c == '%' || regexp.QuoteMeta(p) != p {
			continue
		}
		seen := map[string]bool{}
		var cells []string
		for _, x := range []rune{c, unicode.ToUpper(c), unicode.ToLower(c), unicode.ToTitle(c), c - 32, c + 32, c ^ 32} {
			if x <= 0 || x > unicode.MaxRune || (x >= 0xD800 && x <= 0xDFFF) || !utf8.ValidRune(x) {
				continue
			}
			if s := string(x); !seen[s] {
				seen[s] = true
				cells = append(cells, s)
			}
		}
		qf := qframe.New(map[string]interface{}{"s": cells, "e": cells, "id": hx.Iota(len(cells))}, newqf.Enums(map[string][]string{"e": nil}))
		if qf.Err != nil {
			t.Fatalf("%U: %v", c, qf.Err)
		}
		for _, comp := range []string{"like", "ilike"} {
			model, err := hx.LikeModel(p, comp == "ilike")
			if err != nil {
				continue
			}
			var want []int
			for i, s := range cells {
				if model(s) {
					want = append(want, i)
				}
			}
			for _, col := range []string{"s", "e"} {
				res := qf.Filter(qframe.Filter{Column: col, Comparator: comp, Arg: p})
				if res.Err != nil {
					t.Fatalf("%s %q on %s column: %v", comp, p, col, res.Err)
				}
				if got := res.MustIntView("id").Slice(); fmt.Sprint(got) != fmt.Sprint(want) {
					t.Fatalf("%s %q (%U) on the %s column over cells %q matched rows %v, the statement says %v", comp, p, c, col, cells, got, want)
				}
			}
		}
		patterns++
	}
	evC18.CaseHash(true, 0x52554e45, func() string {
		return fmt.Sprintf("exhaustive: like/ilike with each of %d single code points as pattern against its case variants and neighbours", patterns)
	}, "all-code-points")
}

func allRuneCells() []string {
	var cells []string
	for r := rune(0); r <= unicode.MaxRune; r++ {
		if r >= 0xD800 && r <= 0xDFFF {
			continue
		}
		cells = append(cells, string(r))
	}
	return cells
}

// TestC14Runes: ToJSON of one cell per code point, of every single byte (valid or not) between two letters, and of
// column names holding each byte: the output is valid UTF-8 and valid JSON and decodes to the cells (invalid bytes as
// U+FFFD), whatever the escape tables do for any single character.
func TestC14Runes(t *testing.T) {
	cells := allRuneCells()
	for b := 0; b < 256; b++ {
		cells = append(cells, "x"+string([]byte{byte(b)})+"y", string([]byte{byte(b)}))
	}
	tab := hx.Table{Cols: []hx.Col{{Name: "s", Kind: hx.KString, S: make([]*string, len(cells))}}}
	for i := range cells {
		tab.Cols[0].S[i] = &cells[i]
	}
	qf := hx.Build(tab)
	if qf.Err != nil {
		t.Fatal(qf.Err)
	}
	var buf bytes.Buffer
	if err := qf.ToJSON(&buf); err != nil {
		t.Fatal(err)
	}
	if msg := hx.CheckJSONDenotes(buf.Bytes(), tab); msg != "" {
		t.Fatalf("ToJSON over all code points and all single bytes: %s", msg)
	}
	// names: one frame per 64 bytes, a column per byte
	for lo := 0; lo < 256; lo += 64 {
		nt := hx.Table{}
		for b := lo; b < lo+64; b++ {
			name := "n" + string([]byte{byte(b)}) + "z"
			nt.Cols = append(nt.Cols, hx.Col{Name: name, Kind: hx.KInt, I: []int{b}})
		}
		nq := hx.Build(nt)
		if nq.Err != nil {
			t.Fatalf("names with bytes %d..%d: %v", lo, lo+63, nq.Err)
		}
		buf.Reset()
		if err := nq.ToJSON(&buf); err != nil {
			t.Fatal(err)
		}
		if msg := hx.CheckJSONDenotes(buf.Bytes(), nt); msg != "" {
			t.Fatalf("ToJSON with column names holding the bytes %d..%d: %s", lo, lo+63, msg)
		}
	}
	evC14.CaseHash(true, 0x52554e45, func() string {
		return fmt.Sprintf("exhaustive: ToJSON of %d cells (every code point, every single byte) and of column names holding each byte", len(cells))
	}, "all-code-points")
}

// TestC13Runes: the same cells (CR excluded) through ToCSV and ReadCSV.
func TestC13Runes(t *testing.T) {
	var cells []string
	for _, c := range allRuneCells() {
		if c != "\r" && c != "" {
			cells = append(cells, c)
		}
	}
	for b := 0; b < 256; b++ {
		if b != '\r' {
			cells = append(cells, "x"+string([]byte{byte(b)})+"y")
		}
	}
	tab := hx.Table{Cols: []hx.Col{{Name: "s", Kind: hx.KString, S: make([]*string, len(cells))}, {Name: "id", Kind: hx.KInt, I: hx.Iota(len(cells))}}}
	for i := range cells {
		tab.Cols[0].S[i] = &cells[i]
	}
	qf := hx.Build(tab)
	var buf bytes.Buffer
	if err := qf.ToCSV(&buf); err != nil {
		t.Fatal(err)
	}
	back := qframe.ReadCSV(bytes.NewReader(buf.Bytes()), csv.Types(map[string]string{"s": "string", "id": "int"}))
	if back.Err != nil {
		t.Fatalf("reading back the CSV of all code points: %v", back.Err)
	}
	got, err := hx.Observe(back)
	if err != nil {
		t.Fatal(err)
	}
	if diff := hx.Diff(tab, got); diff != "" {
		t.Fatalf("ToCSV/ReadCSV over all code points and single bytes: %s", diff)
	}
	evC13.CaseHash(true, 0x52554e45, func() string {
		return fmt.Sprintf("exhaustive: ToCSV/ReadCSV round trip of %d cells (every code point but CR, every single byte but CR)", len(cells))
	}, "all-code-points")
}

// TestC12Delims: every byte that can be a delimiter (all but quote, LF, CR) on a small document whose cells hold the
// delimiter (quoted), high bytes, U+FFFD and blanks.
func TestC12Delims(t *testing.T) {
	n := 0
	for d := 0; d < 256; d++ {
		if d == '"' || d == '\n' || d == '\r' {
			continue
		}
		ds := string([]byte{byte(d)})
		other := "q"
		if d == 'q' {
			other = "w"
		}
		rows := [][]string{{"h1", "h2", "h3"}, {other, "a" + ds + "b", "\xff\xfe"}, {"�" + other, "", " " + other + " "}, {ds, ds + ds, other + "\"" + other}}
		var sb strings.Builder
		for _, row := range rows {
			for i, c := range row {
				if i > 0 {
					sb.WriteString(ds)
				}
				if strings.Contains(c, ds) || strings.ContainsAny(c, "\"\n") {
					sb.WriteString("\"" + strings.ReplaceAll(c, "\"", "\"\"") + "\"")
				} else {
					sb.WriteString(c)
				}
			}
			sb.WriteString("\n")
		}
		for _, chunk := range []int{0, 1} {
			var rd *hx.ChunkReader
			if chunk == 0 {
				rd = hx.NewChunkReader([]byte(sb.String()), nil, false)
			} else {
				rd = hx.NewChunkReader([]byte(sb.String()), []int{1}, false)
			}
			qf := qframe.ReadCSV(rd, csv.Delimiter(byte(d)), csv.Types(map[string]string{"h1": "string", "h2": "string", "h3": "string"}))
			if qf.Err != nil {
				t.Fatalf("delimiter %#x (chunk %d): %v\ndoc %q", d, chunk, qf.Err, sb.String())
			}
			got, err := hx.Observe(qf)
			if err != nil {
				t.Fatal(err)
			}
			want := hx.Table{}
			for ci, h := range rows[0] {
				c := hx.Col{Name: h, Kind: hx.KString}
				for _, row := range rows[1:] {
					c.S = append(c.S, hx.Sp(row[ci]))
				}
				want.Cols = append(want.Cols, c)
			}
			if diff := hx.Diff(want, got); diff != "" {
				t.Fatalf("delimiter %#x (chunk %d): %s\ndoc %q", d, chunk, diff, sb.String())
			}
		}
		n++
	}
	evC12.CaseHash(true, 0x44454c49, func() string {
		return fmt.Sprintf("exhaustive: all %d possible delimiter bytes on a small document", n)
	}, "all-delimiters")
}

// TestC07Runes: the string functions of the default evaluation context over every code point (alone and embedded),
// evaluated through Eval: upper and lower denote strings.ToUpper / strings.ToLower, len the byte length.
func TestC07Runes(t *testing.T) {
	var cells []string
	for r := rune(0); r <= unicode.MaxRune; r++ {
		if r >= 0xD800 && r <= 0xDFFF {
			continue
		}
		cells = append(cells, string(r), "b"+string(r)+"y")
	}
	qf := qframe.New(map[string]interface{}{"s": cells})
	res := qf.Eval("u", qframe.Expr("upper", types.ColumnName("s"))).Eval("l", qframe.Expr("lower", types.ColumnName("s"))).Eval("n", qframe.Expr("len", types.ColumnName("s")))
	if res.Err != nil {
		t.Fatal(res.Err)
	}
	u, l, n := res.MustStringView("u"), res.MustStringView("l"), res.MustIntView("n")
	bad := 0
	for i, c := range cells {
		gu, gl := u.ItemAt(i), l.ItemAt(i)
		if wu, wl := strings.ToUpper(c), strings.ToLower(c); gu == nil || *gu != wu || gl == nil || *gl != wl || n.ItemAt(i) != len(c) {
			if bad < 5 {
				t.Errorf("upper/lower/len(%q) = %q, %q, %d; want %q, %q, %d (code point %U)", c, ptrStr(gu), ptrStr(gl), n.ItemAt(i), wu, wl, len(c), []rune(c))
			}
			bad++
		}
	}
	if bad > 0 {
		t.Fatalf("the string functions of the default context differ from their denotation for %d of %d cells", bad, len(cells))
	}
	evC07.CaseHash(true, 0x52554e45, func() string {
		return fmt.Sprintf("exhaustive: upper, lower and len of the default context over all %d code points, alone and embedded", len(cells)/2)
	}, "all-code-points")
}
