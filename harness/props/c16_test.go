package props

import (
	"bytes"
	"encoding/json"
	"fmt"
	"math"
	"os"
	"strconv"
	"strings"
	"sync"
	"testing"

	"github.com/tobgu/qframe"
	"pgregory.net/rapid"

	"verifharness/ev"
	"verifharness/hx"
)

// C16 — Floats are rendered as the shortest decimal that round-trips.
//
// Differential against strconv.FormatFloat(f, 'f', -1, 64): the complete ToJSON output
// of frames holding 100-3000 floats per column must be byte-identical to the document
// the harness assembles with strconv, and every number text must parse back to the
// identical float64.

var evC16 = ev.New("C16", "float64 bit patterns from structured classes (uniform 64-bit non-NaN; every biased exponent 0..2046 with random mantissa; powers of two and ten +-0..3 ulp; integers around 2^53 and 10^k; "+
	"decimal literals k/10^j; subnormals; +-0; +-Inf; significands that are multiples of 5^q and their neighbours; significands n*2^k; float32-exact values; |f|>=1e229 and <=1e-239 with few digits; decimal mantissas around 2^31, 2^32, 2^63, 2^64, 10^9, 10^10, 10^19 scaled by powers of ten) placed in frames with 1-3 float columns optionally preceded/followed by a string column of strongly varying length, "+
	"so that the formatter sees empty, tight and roomy destination buffers; oracle: the ToJSON bytes equal the document assembled with strconv.FormatFloat(f,'f',-1,64) and each text parses back to the same bits; "+
	"evaluations = float values checked; non-trivial = non-zero finite value; distinct = distinct bit patterns (counted on the first 3*10^6 per process)")

func c16Float(rng *hx.SplitMix, class int) float64 {
	for {
		var f float64
		switch class {
		case 0: // uniform bits
			f = math.Float64frombits(rng.Next())
		case 1: // every exponent x random mantissa
			e := rng.Next() % 2047
			f = math.Float64frombits(rng.Next()&(1<<63|(1<<52-1)) | e<<52)
		case 2: // powers of two +- ulps
			e := int(rng.Next()%2098) - 1074
			f = math.Ldexp(1, e)
			f = math.Float64frombits(math.Float64bits(f) + uint64(rng.Next()%7) - 3)
		case 3: // powers of ten +- ulps
			e := int(rng.Next()%632) - 323
			f, _ = strconv.ParseFloat("1e"+strconv.Itoa(e), 64)
			f = math.Float64frombits(math.Float64bits(f) + uint64(rng.Next()%7) - 3)
		case 4: // integers around 2^53 and 10^k
			if rng.Next()%2 == 0 {
				f = float64(int64(1)<<53 + int64(rng.Next()%2001) - 1000)
			} else {
				k := rng.Next() % 19
				f = math.Pow(10, float64(k)) + float64(int64(rng.Next()%21)-10)
			}
		case 5: // decimal literals k / 10^j
			k := int64(rng.Next() % 100000000)
			j := rng.Next() % 25
			f, _ = strconv.ParseFloat(fmt.Sprintf("%de-%d", k, j), 64)
		case 6: // subnormals
			f = math.Float64frombits(rng.Next() & (1<<52 - 1))
			if rng.Next()%4 == 0 {
				f = math.Float64frombits(rng.Next() % 64)
			}
		case 7: // small integers and simple fractions
			f = float64(int64(rng.Next()%2000001)-1000000) / float64([]int{1, 2, 4, 5, 8, 10, 100, 1000, 3}[rng.Next()%9])
		case 9: // the exact-bound / trailing-zero logic of the shortest-digits search for e2 >= 0: the normalised
			// 53-bit significand m (or 2m+1 / 2m-1, i.e. the interval bounds 4m+2 / 4m-2) is a multiple of 5^q and
			// the binary exponent is chosen so that about q decimal digits are removed
			q := int(rng.Next()%22) + 1
			p5 := uint64(1)
			for i := 0; i < q; i++ {
				p5 *= 5
			}
			lo, hi := (uint64(1)<<52)/p5+1, (uint64(1)<<53)/p5
			var m uint64
			switch rng.Next() % 4 {
			case 0: // m itself
				m = (lo + rng.Next()%(hi-lo+1)) * p5
			case 1: // 2m+1 multiple of 5^q
				k := (2*lo + rng.Next()%(2*(hi-lo)+1)) | 1
				m = (k*p5 - 1) / 2
			case 2: // 2m-1 multiple of 5^q
				k := (2*lo + rng.Next()%(2*(hi-lo)+1)) | 1
				m = (k*p5 + 1) / 2
			default: // a neighbour
				m = (lo+rng.Next()%(hi-lo+1))*p5 + uint64(rng.Next()%3) - 1
			}
			if m >= uint64(1)<<53 || m < uint64(1)<<52 {
				m = uint64(1)<<52 | (m & (uint64(1)<<52 - 1))
			}
			e2 := int(float64(q)/0.30103) + int(rng.Next()%12) - 3
			if rng.Next()%4 == 0 {
				e2 = int(rng.Next()%1000) - 60
			}
			f = math.Ldexp(float64(m), e2+2)
		case 10: // significand with many trailing zero bits (n * 2^k), incl. negative binary exponents
			k := rng.Next() % 52
			n := rng.Next()%(uint64(1)<<(53-k)) + 1
			f = math.Ldexp(float64(n<<k), int(rng.Next()%2000)-1100)
		case 11: // float64 values that are exactly representable as float32
			f = float64(math.Float32frombits(uint32(rng.Next())))
		case 12: // huge magnitudes with few significant digits (long runs of zeros) and tiny ones (long runs of leading zeros)
			d := float64(rng.Next()%100000 + 1)
			e := int(rng.Next()%80) + 229
			if rng.Next()%2 == 0 {
				e = -e - 10
			}
			f, _ = strconv.ParseFloat(strconv.FormatFloat(d, 'f', -1, 64)+"e"+strconv.Itoa(e), 64)
		case 13: // digit strings around the word sizes: 2^32, 2^31, 2^63, 2^64 (+-2) and 10^9, 10^10, 10^19 as decimal
			// mantissa, scaled by any power of ten (digit generation often switches between 32- and 64-bit arithmetic there)
			ms := []uint64{1 << 32, 1 << 31, 1 << 63, 1<<64 - 1, 1000000000, 10000000000, 10000000000000000000, 1 << 53, 4294967295, 999999999, 9999999999}
			m := ms[rng.Next()%uint64(len(ms))] + rng.Next()%5 - 2
			e := int(rng.Next()%60) - 40
			f, _ = strconv.ParseFloat(strconv.FormatUint(m, 10)+"e"+strconv.Itoa(e), 64)
		default: // specials
			f = []float64{0, math.Copysign(0, -1), math.Inf(1), math.Inf(-1), math.MaxFloat64, math.SmallestNonzeroFloat64, 1, -1, 0.1, 0.3, 1e21, 1e22, 1e23, 9007199254740993, 5e-324, 2.2250738585072014e-308}[rng.Next()%16]
		}
		if rng.Next()%2 == 0 {
			f = -f
		}
		if !math.IsNaN(f) {
			return f
		}
	}
}

func TestC16(t *testing.T) {
	rapid.Check(t, func(t *rapid.T) {
		rng := hx.SplitMix(rapid.Uint64().Draw(t, "seed"))
		n := rapid.SampledFrom([]int{1, 2, 10, 100, 500, 1500, 3000}).Draw(t, "rows")
		nf := rapid.IntRange(1, 3).Draw(t, "floatcols")
		strPos := rapid.SampledFrom([]string{"none", "first", "last"}).Draw(t, "strcol")
		strMax := rapid.SampledFrom([]int{0, 3, 40, 300}).Draw(t, "strmax")
		classMix := rapid.SampledFrom([]int{-1, -1, 0, 1, 2, 3, 4, 5, 6, 7, 8, 9, 9, 10, 11, 12, 13, 13}).Draw(t, "class")
		tab := hx.Table{}
		var scol hx.Col
		if strPos != "none" {
			scol = hx.Col{Name: "s", Kind: hx.KString, S: make([]*string, n)}
			for r := range scol.S {
				l := 0
				if strMax > 0 {
					l = rng.Intn(strMax + 1)
				}
				scol.S[r] = hx.Sp(strings.Repeat("x", l))
			}
		}
		if strPos == "first" {
			tab.Cols = append(tab.Cols, scol)
		}
		hashes := make([]uint64, 0, n*nf)
		for ci := 0; ci < nf; ci++ {
			c := hx.Col{Name: fmt.Sprintf("f%d", ci+1), Kind: hx.KFloat, F: make([]float64, n)}
			for r := range c.F {
				class := classMix
				if class < 0 {
					class = rng.Intn(14)
				}
				c.F[r] = c16Float(&rng, class)
			}
			tab.Cols = append(tab.Cols, c)
		}
		if strPos == "last" {
			tab.Cols = append(tab.Cols, scol)
		}
		qf := hx.Build(tab)
		if qf.Err != nil {
			t.Fatalf("build: %v", qf.Err)
		}
		// now and then one more float column that holds one value in every row, written as a constant by Apply (a constant
		// column is its own kind of storage; what it writes is still the shortest text of that value)
		if rapid.IntRange(0, 4).Draw(t, "constcol") == 0 {
			cclass := classMix
			if cclass < 0 {
				cclass = rng.Intn(14)
			}
			if v := c16Float(&rng, cclass); !math.IsNaN(v) {
				qf = qf.Apply(qframe.Instruction{Fn: v, DstCol: "fconst"})
				if qf.Err != nil {
					t.Fatalf("Apply constant %v: %v", v, qf.Err)
				}
				fc := hx.Col{Name: "fconst", Kind: hx.KFloat, F: make([]float64, n)}
				for r := range fc.F {
					fc.F[r] = v
				}
				tab.Cols = append(tab.Cols, fc)
			}
		}
		// a non-identity order now and then (the formatter must not care)
		order := hx.Iota(n)
		if rapid.Bool().Draw(t, "reverse") {
			qf = qf.Sort(hx.BuildOrders([]hx.Order{{Col: "f1", Reverse: true}})...)
			got, err := qf.FloatView("f1")
			if err != nil {
				t.Fatal(err)
			}
			// recover the order through the public view: match rows by position of equal bits is ambiguous,
			// so rebuild the expected table from the observed frame instead
			obs, err := hx.Observe(qf)
			if err != nil || got.Len() != n {
				t.Fatalf("observe sorted: %v", err)
			}
			tab = obs
			_ = order
		}
		var buf bytes.Buffer
		if err := qf.ToJSON(&buf); err != nil {
			t.Fatalf("ToJSON: %v", err)
		}
		// Read the number texts out of the document with encoding/json's tokenizer (UseNumber keeps the
		// text as written). Only the float texts are compared: whitespace, key quoting or string escaping
		// are not C16's business. +-Inf cannot be tokenized (not JSON): such frames are compared by their
		// +Inf/-Inf occurrences below.
		got := buf.Bytes()
		infs := 0
		for _, c := range tab.Cols {
			if c.Kind == hx.KFloat {
				for _, f := range c.F {
					if math.IsInf(f, 0) {
						infs++
					}
				}
			}
		}
		if infs > 0 {
			plus, minus := 0, 0
			for _, c := range tab.Cols {
				if c.Kind == hx.KFloat {
					for _, f := range c.F {
						if math.IsInf(f, 1) {
							plus++
						} else if math.IsInf(f, -1) {
							minus++
						}
					}
				}
			}
			if bytes.Count(got, []byte("+Inf")) != plus || bytes.Count(got, []byte("-Inf")) != minus {
				t.Fatalf("frame holds %d +Inf and %d -Inf but the document has %d and %d occurrences (strconv writes +Inf/-Inf)", plus, minus,
					bytes.Count(got, []byte("+Inf")), bytes.Count(got, []byte("-Inf")))
			}
			// make the document tokenizable: the infinities become a sentinel number
			got = bytes.ReplaceAll(bytes.ReplaceAll(got, []byte("+Inf"), []byte("1e999")), []byte("-Inf"), []byte("-1e999"))
		}
		dec := json.NewDecoder(bytes.NewReader(got))
		dec.UseNumber()
		fail := func(r int, c hx.Col, text string) {
			f := c.F[r]
			lo := bytes.Index(got, []byte(text))
			ctx := ""
			if lo >= 0 {
				a, b := lo-40, lo+len(text)+40
				if a < 0 {
					a = 0
				}
				if b > len(got) {
					b = len(got)
				}
				ctx = string(got[a:b])
			}
			t.Fatalf("row %d column %s value %v (bits %#x) is written as %q, strconv.FormatFloat(f,'f',-1,64) gives %q\ncontext …%s…\nrows=%d floatcols=%d strcol=%s strmax=%d class=%d",
				r, c.Name, f, math.Float64bits(f), text, strconv.FormatFloat(f, 'f', -1, 64), ctx, n, nf, strPos, strMax, classMix)
		}
		expectDelim := func(d json.Delim) {
			tok, err := dec.Token()
			if err != nil || tok != d {
				t.Fatalf("ToJSON output is not the expected array of objects: got token %v (%v), want %v; output starts %q", tok, err, d, clipS(string(got)))
			}
		}
		expectDelim('[')
		for r := 0; r < n; r++ {
			expectDelim('{')
			for _, c := range tab.Cols {
				if _, err := dec.Token(); err != nil { // key
					t.Fatalf("record %d: %v", r, err)
				}
				tok, err := dec.Token()
				if err != nil {
					t.Fatalf("record %d column %s: %v", r, c.Name, err)
				}
				if c.Kind != hx.KFloat {
					continue
				}
				num, ok := tok.(json.Number)
				if !ok {
					t.Fatalf("record %d column %s: value %v is not a number", r, c.Name, tok)
				}
				f := c.F[r]
				want := strconv.FormatFloat(f, 'f', -1, 64)
				if math.IsInf(f, 1) {
					want = "1e999"
				} else if math.IsInf(f, -1) {
					want = "-1e999"
				}
				hashes = append(hashes, math.Float64bits(f))
				if string(num) != want {
					fail(r, c, string(num))
				}
			}
			expectDelim('}')
		}
		expectDelim(']')
		// (the expected text parses back to the identical float64 - a property of strconv, asserted once per value for completeness)
		nonzero := 0
		for _, c := range tab.Cols {
			if c.Kind != hx.KFloat {
				continue
			}
			for _, f := range c.F {
				back, err := strconv.ParseFloat(strconv.FormatFloat(f, 'f', -1, 64), 64)
				if err != nil || math.Float64bits(back) != math.Float64bits(f) {
					t.Fatalf("strconv reference does not round trip %v", f)
				}
				if f != 0 && !math.IsInf(f, 0) {
					nonzero++
				}
			}
		}
		for _, h := range hashes {
			evC16.CaseHash(true, h, func() string {
				f := math.Float64frombits(h)
				return fmt.Sprintf("bits %#016x = %s (frame: %d rows, %d float columns, string column %s up to %d chars)", h, strconv.FormatFloat(f, 'f', -1, 64), n, nf, strPos, strMax)
			})
		}
		evC16.Class(fmt.Sprintf("class=%d", classMix), "strcol:"+strPos, fmt.Sprintf("rows=%d", n))
		_ = nonzero
	})
}

// FuzzC16 is the native fuzzing leg: one bit pattern and a buffer layout byte per input.
func FuzzC16(f *testing.F) {
	for _, bits := range []uint64{0, 1, 0x8000000000000000, 0x3ff0000000000000, 0x4340000000000000, 0x4340000000000001, 0x7fefffffffffffff, 0x0010000000000000, 0x000fffffffffffff,
		0x3fb999999999999a, 0x4415af1d78b58c40, 0x44b52d02c7e14af6, 0x7ff0000000000000, 0xfff0000000000000, 0x3e112e0be826d695} {
		for _, layout := range []byte{0, 1, 7, 63, 200} {
			f.Add(bits, layout)
		}
	}
	f.Fuzz(func(t *testing.T, bits uint64, layout byte) {
		v := math.Float64frombits(bits)
		if math.IsNaN(v) {
			return
		}
		// layout: length of a string cell before the float and number of leading rows with long text
		pad := int(layout&0x3f) * 5
		long := int(layout >> 6)
		n := long + 1
		s := make([]*string, n)
		fl := make([]float64, n)
		for i := range s {
			s[i] = hx.Sp(strings.Repeat("y", 200*(long-i)))
			fl[i] = 1.0 / float64(i+3)
		}
		s[n-1] = hx.Sp(strings.Repeat("x", pad))
		fl[n-1] = v
		tab := hx.Table{Cols: []hx.Col{{Name: "s", Kind: hx.KString, S: s}, {Name: "f", Kind: hx.KFloat, F: fl}}}
		var buf bytes.Buffer
		if err := hx.Build(tab).ToJSON(&buf); err != nil {
			t.Fatal(err)
		}
		want := `"f":` + strconv.FormatFloat(v, 'f', -1, 64) + "}]"
		if !strings.HasSuffix(buf.String(), want) {
			out := buf.String()
			if len(out) > 400 {
				out = out[len(out)-400:]
			}
			t.Fatalf("bits %#x: ToJSON ends with %q, want suffix %q", bits, out, want)
		}
	})
}

// TestC16Concurrent: the text of a float does not depend on what else the process is formatting. Eight goroutines
// write frames of generated floats (all value classes, own seed each) to JSON at the same time, several rounds; every
// output must be the document assembled with strconv.FormatFloat. Not driven by rapid: the cases come from the shard seed.
func TestC16Concurrent(t *testing.T) {
	seed, _ := strconv.ParseUint(os.Getenv("VERIF_SHARD_SEED"), 10, 64)
	const workers, rounds, rows = 8, 6, 3000
	nrounds := rounds
	if tier() == "thorough" {
		nrounds = 40
	}
	type job struct {
		qf   qframe.QFrame
		want string
	}
	var values int64
	for round := 0; round < nrounds; round++ {
		jobs := make([]job, workers)
		for w := range jobs {
			rng := hx.SplitMix(seed ^ uint64(round*131+w+1)*0x9e3779b97f4a7c15)
			fl := make([]float64, rows)
			var sb strings.Builder
			sb.WriteByte('[')
			for r := range fl {
				f := c16Float(&rng, int(rng.Next()%8))
				for math.IsNaN(f) || math.IsInf(f, 0) {
					f = c16Float(&rng, int(rng.Next()%8))
				}
				fl[r] = f
				if r > 0 {
					sb.WriteByte(',')
				}
				sb.WriteString(`{"f":` + strconv.FormatFloat(f, 'f', -1, 64) + "}")
			}
			sb.WriteByte(']')
			jobs[w] = job{qframe.New(map[string]interface{}{"f": fl}), sb.String()}
			values += rows
		}
		got := make([]string, workers)
		errs := make([]error, workers)
		var wg sync.WaitGroup
		start := make(chan struct{})
		for w := range jobs {
			wg.Add(1)
			go func(w int) {
				defer wg.Done()
				<-start
				var buf bytes.Buffer
				errs[w] = jobs[w].qf.ToJSON(&buf)
				got[w] = buf.String()
			}(w)
		}
		close(start)
		wg.Wait()
		for w := range jobs {
			if errs[w] != nil {
				t.Fatalf("ToJSON: %v", errs[w])
			}
			if got[w] != jobs[w].want {
				i := 0
				for i < len(got[w]) && i < len(jobs[w].want) && got[w][i] == jobs[w].want[i] {
					i++
				}
				lo := i - 60
				if lo < 0 {
					lo = 0
				}
				clipAt := func(s string) string {
					hi := i + 60
					if hi > len(s) {
						hi = len(s)
					}
					return s[lo:hi]
				}
				t.Fatalf("round %d: %d frames written to JSON at the same time; the output of writer %d differs from the strconv.FormatFloat document at byte %d:\n got …%s…\nwant …%s…",
					round, workers, w, i, clipAt(got[w]), clipAt(jobs[w].want))
			}
		}
	}
	evC16.AddEvals(values)
	evC16.CaseHash(true, seed^0xc0c0, func() string {
		return fmt.Sprintf("%d rounds of %d concurrent ToJSON calls, %d generated floats each", nrounds, workers, rows)
	}, "concurrent-writers")
}
