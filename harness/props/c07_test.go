package props

import (
	"fmt"
	"github.com/tobgu/qframe/config/groupby"
	"testing"

	"github.com/tobgu/qframe"
	"github.com/tobgu/qframe/config/eval"
	"github.com/tobgu/qframe/types"
	"pgregory.net/rapid"

	"verifharness/ev"
	"verifharness/hx"
)

// C07 — Eval computes the expression's value per row and leaves no trace of temporaries.

var evC07 = ev.New("C07", "derived frame x expression tree (depth<=3, constants/columns/unary/binary/n-ary calls, qframe.Expr and raw []interface{} forms, default context or a context with "+
	"user functions incl. names shadowing built-ins) or an ill-formed variant (unknown function/column, operand type mismatch incl. enum vs string, zero arguments, wrong list length, "+
	"non-string operator, unsupported constant, illegal destination); destination new/existing/equal to a source, user columns and destinations named like Eval's temporaries; oracle: typed row-wise model predicting either Err or the whole result frame; "+
	"non-trivial = well-typed tree of depth>=2 or arity>=3 on a non-identity index; distinct = FNV-64 of (table, route, context, destination, expression)")

var tempLikeNames = []string{"const-temp-0", "const-temp-1", "unary-temp-0", "unary-temp-1", "colcol-temp-0", "colcol-temp-1"}

func breakExpr(t *rapid.T, e hx.Expr, tab hx.Table) (hx.Expr, string) {
	anyCol := tab.Cols[0].Name
	how := rapid.SampledFrom([]string{"unknown-fn", "unknown-col", "type-mismatch", "len1", "len4", "nonstring-op", "unsupported-const", "noargs"}).Draw(t, "break")
	var bad hx.Expr
	switch how {
	case "unknown-fn":
		// also the upper-case spelling of a built-in: names are looked up as written
		fn := rapid.SampledFrom([]string{"nosuchfn", "Abs", "STR", "Upper", "twice"}).Draw(t, "unknownfn")
		bad = hx.Expr{Op: "call", Fn: fn, Args: []hx.Expr{{Op: "col", Col: anyCol}}}
	case "unknown-col":
		bad = hx.Expr{Op: "col", Col: "nosuchcol"}
	case "type-mismatch":
		// binary call over two columns/constants of different column types
		a := tab.Cols[rapid.IntRange(0, len(tab.Cols)-1).Draw(t, "mma")]
		var other hx.Expr
		switch a.Kind {
		case hx.KInt:
			other = hx.Expr{Op: "const", CK: hx.KFloat, CF: 1.5}
		case hx.KFloat:
			other = hx.Expr{Op: "const", CK: hx.KInt, CI: 2}
		case hx.KBool:
			other = hx.Expr{Op: "const", CK: hx.KInt, CI: 1}
		case hx.KString:
			other = hx.Expr{Op: "const", CK: hx.KInt, CI: 1}
		default: // enum vs string constant
			other = hx.Expr{Op: "const", CK: hx.KString, CS: hx.Sp("x")}
		}
		fn := map[hx.Kind]string{hx.KInt: "+", hx.KFloat: "+", hx.KBool: "&", hx.KString: "+", hx.KEnum: "+"}[a.Kind]
		args := []hx.Expr{{Op: "col", Col: a.Name}, other}
		if rapid.Bool().Draw(t, "swap") {
			args[0], args[1] = args[1], args[0]
		}
		bad = hx.Expr{Op: "call", Fn: fn, Args: args}
	default:
		bad = hx.BadExpr(how, anyCol)
	}
	// place the broken node at the top or as an operand of a call
	switch {
	case e.Op == "call" && len(e.Args) > 0 && rapid.Bool().Draw(t, "nested"):
		i := rapid.IntRange(0, len(e.Args)-1).Draw(t, "badpos")
		args := append([]hx.Expr(nil), e.Args...)
		args[i] = bad
		e.Args = args
		return e, how + "-nested"
	default:
		return bad, how
	}
}

func TestC07(t *testing.T) { rapid.Check(t, propC07) }

// FuzzC07: the same property driven by coverage-guided bytes (thorough tier).
func FuzzC07(f *testing.F) { f.Fuzz(rapid.MakeFuzz(propC07)) }

func propC07(t *rapid.T) {
	base := hx.GenTable(t, hx.TableOpt{MinCols: 2, MaxCols: 6, AllowDerived: true})
	// user columns may carry the very names Eval uses for its temporaries (legal column names)
	tempLike := false
	if rapid.IntRange(0, 3).Draw(t, "templikenames") == 0 {
		names := rapid.Permutation(tempLikeNames).Draw(t, "tempnames")
		for i := range base.Cols {
			if i < len(names) && rapid.Bool().Draw(t, "rename") {
				base.Cols[i].Name = names[i]
				tempLike = true
			}
		}
	}
	steps := 4
	if hx.Rarely(t, 600, "blocksize") {
		base, steps = hx.GenBlockTable(t), 1
	}
	d := hx.GenDerived(t, base, steps)
	in := d.Input(t)
	// now and then the receiver is an Aggregate result (its columns come with positions of their own; the count column is
	// made in another way than the others): what it holds is observed, the destination tends to be the count column
	aggRecv := false
	if steps > 1 && len(in.Cols) >= 2 && in.N() > 0 && rapid.IntRange(0, 7).Draw(t, "aggreceiver") == 0 {
		ki := rapid.IntRange(0, len(in.Cols)-1).Draw(t, "aggkeypos")
		vi := rapid.IntRange(0, len(in.Cols)-1).Draw(t, "aggvalpos")
		aggs := []qframe.Aggregation{{Fn: "count", Column: in.Cols[vi].Name, As: "zzcount"}}
		if in.Cols[vi].Kind == hx.KInt && rapid.Bool().Draw(t, "aggsumfirst") {
			aggs = append([]qframe.Aggregation{{Fn: "sum", Column: in.Cols[vi].Name, As: "zzsum"}}, aggs...)
		}
		agg := d.QF.GroupBy(groupby.Columns(in.Cols[ki].Name), groupby.Null(true)).Aggregate(aggs...)
		if aobs, err := hx.Observe(agg); err == nil && agg.Err == nil && len(aobs.Cols) >= 2 {
			d.QF, in = agg, hx.WithEnumDecl(aobs, in)
			d.Route = append(d.Route, fmt.Sprintf("receiver: GroupBy(%q).Aggregate(%v); input %s", in.Cols[0].Name, aggs, in.String()))
			aggRecv = true
		}
	}
	// now and then the frame has an earlier life that touched its data columns (observed afterwards)
	if steps > 1 && len(in.Cols) > 0 && rapid.IntRange(0, 5).Draw(t, "history") == 0 {
		var hist hx.History
		d.QF, in, hist = hx.GenHistory(t, d.QF, in, true)
		d.Route = append(d.Route, hist.String())
	}
	custom := rapid.IntRange(0, 2).Draw(t, "customctx") == 0
	want := rapid.SampledFrom([]hx.Kind{hx.KInt, hx.KFloat, hx.KBool, hx.KString, hx.KEnum}).Draw(t, "want")
	expr := hx.GenExprOfKind(t, in, want, rapid.IntRange(0, 3).Draw(t, "depth"), custom)
	broken := ""
	if rapid.IntRange(0, 4).Draw(t, "illformed") == 0 {
		expr, broken = breakExpr(t, expr, in)
	}
	dst := rapid.SampledFrom([]string{"n1", "n2", in.Cols[0].Name, in.Cols[len(in.Cols)-1].Name, "n1", "unary-temp-0", "const-temp-1"}).Draw(t, "dst")
	if aggRecv && rapid.Bool().Draw(t, "dstcount") {
		dst = "zzcount"
	}
	badDst := false
	if rapid.IntRange(0, 19).Draw(t, "baddst") == 0 {
		dst = rapid.SampledFrom([]string{"", "'q'", "\"q\"", "$v", "$", "'q\nq'", "\"\n\""}).Draw(t, "illegaldst")
		badDst = true
	}
	desc := func() string {
		return d.String() + "customctx=" + boolStr(custom) + " dst=" + dst + " expr " + expr.String() + " broken=" + broken
	}
	var fns []eval.ConfigFunc
	var ctx *eval.Context
	if custom {
		ctx = hx.NewCtx()
		fns = append(fns, eval.EvalContext(ctx))
	}
	var res qframe.QFrame
	realExpr := expr.Build()
	if custom && rapid.IntRange(0, 3).Draw(t, "reregister") == 0 {
		// the context is used once while every user function is still a decoy of the same signature (returning zero
		// values), then the real functions are registered under the same names: the next lookup finds those
		hx.SetDecoys(ctx)
		_ = hx.Safely(func() { _ = d.QF.Eval(dst, realExpr, fns...) })
		hx.SetReal(ctx)
	}
	if rapid.IntRange(0, 3).Draw(t, "secondcall") == 0 {
		// one Expression value used twice (first on a sibling frame with other temporaries in play): the second use counts
		_ = hx.Safely(func() { _ = d.QF.Copy("const-temp-0", in.Cols[0].Name).Eval(dst, realExpr, fns...) })
	}
	if perr := hx.Safely(func() { res = d.QF.Eval(dst, realExpr, fns...) }); perr != nil {
		t.Fatalf("Eval panicked: %v\n%s", perr, desc())
	}
	_, terr := expr.Type(in, custom)
	if terr != nil || badDst {
		if res.Err == nil {
			t.Fatalf("Eval accepted an invalid expression/destination (model: %v, bad dst: %v)\n%s", terr, badDst, desc())
		}
		evC07.Case(false, desc, "predicted-error:"+broken)
		return
	}
	if res.Err != nil {
		t.Fatalf("Eval returned Err for a well-typed expression: %v\n%s", res.Err, desc())
	}
	col := expr.EvalCol(in, dst, custom)
	wantT := in.With(col)
	if expr.Op == "col" && expr.Col == dst {
		wantT = in
	}
	got, err := hx.Observe(res)
	if err != nil {
		t.Fatalf("observe: %v\n%s", err, desc())
	}
	if diff := hx.Diff(wantT, got); diff != "" {
		t.Fatalf("Eval result differs from model: %s\n%s\nresult %s", diff, desc(), got.String())
	}
	// two further Evals on the result, each adding a column of its own: the first of them still holds its column after
	// the second has run (siblings derived from one parent)
	c0 := types.ColumnName(in.Cols[0].Name)
	parent := res.Eval("zz-sib-p", qframe.Val(c0)) // (a column reference: stored without temporaries, so nothing is dropped afterwards)
	if sa := parent.Eval("zz-sib-a", qframe.Val(c0)); sa.Err == nil {
		before, err1 := hx.Observe(sa)
		_ = parent.Eval("zz-sib-b", qframe.Val(c0))
		_ = parent.Eval("zz-sib-d", qframe.Val(2.5))
		_ = parent.Eval("zz-sib-c", qframe.Expr("+", qframe.Val(2.5), qframe.Val(1.0)))
		after, err2 := hx.Observe(sa)
		if err1 != nil || err2 != nil || hx.Diff(before, after) != "" {
			t.Fatalf("a frame returned by Eval changed when its parent was evaluated again with another destination: %v %v %s\n%s", err1, err2, hx.Diff(before, after), desc())
		}
	}
	// no temporary survives under any access path: a name the result does not list is not reachable by name either
	for _, name := range tempLikeNames {
		if wantT.Find(name) >= 0 {
			continue
		}
		if res.Contains(name) || res.Select(name).Err == nil || res.Drop(name).Select(name).Err == nil || res.Filter(qframe.Filter{Column: name, Comparator: "isnull"}).Err == nil {
			t.Fatalf("the result of Eval does not list a column %q but it is reachable by name (Contains %v, Select Err %v)\n%s", name, res.Contains(name), res.Select(name).Err, desc())
		}
	}
	classes := []string{"result:" + col.Kind.String()}
	if custom {
		classes = append(classes, "custom-context")
	}
	if tempLike {
		classes = append(classes, "user-columns-named-like-temporaries")
	}
	if in.Find(dst) >= 0 {
		classes = append(classes, "dst-existing")
	}
	if expr.MaxArity() >= 3 {
		classes = append(classes, "n-ary")
	}
	constFirst := false
	var walk func(e hx.Expr)
	walk = func(e hx.Expr) {
		if e.Op == "call" && len(e.Args) == 2 && e.Args[0].Op == "const" && e.Args[1].Op == "col" {
			constFirst = true
		}
		for _, a := range e.Args {
			walk(a)
		}
	}
	walk(expr)
	if constFirst {
		classes = append(classes, "const-before-column")
	}
	nontrivial := (expr.Depth() >= 2 || expr.MaxArity() >= 3) && d.NonIdentity()
	evC07.Case(nontrivial, desc, classes...)
}

func boolStr(b bool) string {
	if b {
		return "true"
	}
	return "false"
}
