package props

import (
	"bytes"
	"encoding/json"
	"fmt"
	"github.com/tobgu/qframe/config/groupby"
	"io"
	"math"
	"strings"
	"testing"

	"github.com/tobgu/qframe"
	"github.com/tobgu/qframe/config/newqf"
	"pgregory.net/rapid"

	"verifharness/ev"
	"verifharness/hx"
)

// C14 — ToJSON emits valid JSON that denotes the frame; ReadJSON inverts it.

var evC14 = ev.New("C14", "derived frames whose strings and column names range over arbitrary bytes (ASCII controls, quotes, backslashes, DEL, U+2028/2029, multi-byte, malformed UTF-8), floats over raw and structured finite bit patterns and NaN, "+
	"ints incl. extremes, bools, declared/derived enums; oracle: json.Valid + encoding/json token stream (one object per row in order, keys in column order, ints textually exact, float text parsing back to identical bits, "+
	"NaN/null as null, strings equal to the cell with invalid bytes as U+FFFD), then ReadJSON of the output reproduces bool/string/enum/NaN-free float columns and equal-valued floats for ints; "+
	"non-trivial = a name or cell needing an escape and a non-integral float; distinct = FNV-64 of (table, route)")

var jsonPieces = []string{"a", "b", "\"", "\\", "\\\"", "/", "\x00", "\x01", "\x08", "\t", "\n", "\r", "\x1f", "\x7f", " ", " ", " ", "‧", "ä", "€", "😀", "\u0080", "�",
	"\xff", "\xc3", "\xe2\x80", "\xed\xa0\x80", "\xf0\x9f", "\xc0\xaf", "<", ">", "&", "'", "{", "}", "[", "]", ":", ",", "null", "1"}

func genJSONString(t *rapid.T) string {
	n := rapid.IntRange(0, 5).Draw(t, "npieces")
	var sb strings.Builder
	for i := 0; i < n; i++ {
		if rapid.IntRange(0, 5).Draw(t, "rawbyte") == 0 {
			sb.WriteByte(rapid.Byte().Draw(t, "byte"))
		} else {
			sb.WriteString(rapid.SampledFrom(jsonPieces).Draw(t, "piece"))
		}
	}
	return sb.String()
}

func genJSONTable(t *rapid.T) hx.Table {
	n := hx.RowsSmall().Draw(t, "rows")
	nc := rapid.IntRange(1, 5).Draw(t, "ncols")
	tab := hx.Table{}
	used := map[string]bool{}
	for ci := 0; ci < nc; ci++ {
		name := ""
		for tries := 0; ; tries++ {
			if rapid.Bool().Draw(t, "plainname") || tries > 3 {
				name = fmt.Sprintf("c%d", ci)
				if tries > 3 {
					name = fmt.Sprintf("c%d.%d", ci, tries) // always ends: a drawn name may equal a plain one
				}
			} else {
				name = genJSONString(t)
			}
			if name != "" && !used[name] && !strings.HasPrefix(name, "$") && !(len(name) > 2 && (name[0] == '"' || name[0] == '\'') && name[len(name)-1] == name[0]) {
				break
			}
		}
		used[name] = true
		k := rapid.SampledFrom([]hx.Kind{hx.KInt, hx.KFloat, hx.KBool, hx.KString, hx.KString, hx.KEnum}).Draw(t, "kind")
		c := hx.Col{Name: name, Kind: k}
		switch k {
		case hx.KInt:
			for r := 0; r < n; r++ {
				c.I = append(c.I, hx.GenInt(t))
			}
		case hx.KFloat:
			nanFree := rapid.Bool().Draw(t, "nanfree")
			for r := 0; r < n; r++ {
				var f float64
				switch rapid.IntRange(0, 4).Draw(t, "fkind") {
				case 0:
					f = math.Float64frombits(rapid.Uint64().Draw(t, "bits"))
				case 4:
					f = hx.GenFloatStructured(t)
				case 1:
					f = hx.GenFloat(t, false)
				default:
					f = float64(rapid.IntRange(-1000000, 1000000).Draw(t, "num")) / float64(rapid.SampledFrom([]int{1, 2, 3, 7, 10, 100, 1000}).Draw(t, "den"))
				}
				if math.IsInf(f, 0) || (nanFree && math.IsNaN(f)) {
					f = 0.1
				}
				c.F = append(c.F, f)
			}
		case hx.KBool:
			for r := 0; r < n; r++ {
				c.B = append(c.B, rapid.Bool().Draw(t, "b"))
			}
		case hx.KString:
			for r := 0; r < n; r++ {
				if rapid.IntRange(0, 4).Draw(t, "null") == 0 {
					c.S = append(c.S, nil)
				} else {
					c.S = append(c.S, hx.Sp(genJSONString(t)))
				}
			}
		case hx.KEnum:
			nv := rapid.IntRange(1, 5).Draw(t, "nvals")
			seen := map[string]bool{}
			var vals []string
			for tries := 0; len(vals) < nv && tries < 30; tries++ { // bounded: the draws may keep giving the same string
				v := genJSONString(t)
				if !seen[v] {
					seen[v] = true
					vals = append(vals, v)
				}
				if len(seen) > 20 {
					break
				}
			}
			if rapid.Bool().Draw(t, "declared") {
				c.Enum = vals
			}
			for r := 0; r < n; r++ {
				if rapid.IntRange(0, 4).Draw(t, "null") == 0 {
					c.S = append(c.S, nil)
				} else {
					c.S = append(c.S, hx.Sp(rapid.SampledFrom(vals).Draw(t, "ev")))
				}
			}
		}
		tab.Cols = append(tab.Cols, c)
	}
	return tab
}

func needsEscape(s string) bool {
	if hx.JSONText(s) != s {
		return true
	}
	for _, r := range s {
		if r < 0x20 || r == '"' || r == '\\' || r == 0x2028 || r == 0x2029 {
			return true
		}
	}
	return false
}

func TestC14(t *testing.T) { rapid.Check(t, propC14) }

// FuzzC14 drives the same property with coverage-guided bytes (thorough tier only).
func FuzzC14(f *testing.F) { f.Fuzz(rapid.MakeFuzz(propC14)) }

func propC14(t *rapid.T) {
	{
		base := genJSONTable(t)
		d := hx.GenDerived(t, base, 4)
		// now and then the frame has an earlier life that touched its data columns (observed afterwards, like every input here)
		hist := len(base.Cols) > 0 && rapid.IntRange(0, 5).Draw(t, "history") == 0
		if hist {
			var h hx.History
			d.QF, _, h = hx.GenHistory(t, d.QF, d.Input(t), true)
			d.Route = append(d.Route, h.String())
		}
		upper := !hist && rapid.IntRange(0, 4).Draw(t, "toupperfirst") == 0
		if upper {
			// string and enum columns rebuilt by the ToUpper built-in first: whatever a column carries along for the
			// writers must follow
			for _, c := range base.Cols {
				if c.Kind == hx.KString || c.Kind == hx.KEnum {
					d.QF = d.QF.Apply(qframe.Instruction{Fn: "ToUpper", DstCol: c.Name, SrcCol1: c.Name})
				}
			}
			if d.QF.Err != nil {
				t.Fatalf("ToUpper before writing: %v\n%s", d.QF.Err, d.String())
			}
			d.Route = append(d.Route, "ToUpper on every string/enum column")
		}
		if !upper && !hist && len(base.Cols) >= 2 && rapid.IntRange(0, 5).Draw(t, "aggregatefirst") == 0 {
			// the frame written is an Aggregate result whose aggregate columns were given new names (As)
			key := base.Cols[0].Name
			var aggs []qframe.Aggregation
			for i, c := range base.Cols[1:] {
				aggs = append(aggs, qframe.Aggregation{Fn: "count", Column: c.Name, As: fmt.Sprintf("n of %s #%d", c.Name, i)})
			}
			if a := d.QF.GroupBy(groupby.Columns(key), groupby.Null(true)).Aggregate(aggs...); a.Err == nil {
				d.QF = a
				d.Route = append(d.Route, "GroupBy(first column).Aggregate(counts under new names)")
			}
		}
		in := d.Input(t)
		if upper {
			for i := range in.Cols {
				if in.Cols[i].Kind == hx.KEnum && in.Cols[i].Enum != nil {
					up := make([]string, len(in.Cols[i].Enum))
					for j, v := range in.Cols[i].Enum {
						up[j] = strings.ToUpper(v)
					}
					in.Cols[i].Enum = up
				}
			}
		}
		desc := func() string { return d.String() }
		var buf bytes.Buffer
		var werr error
		if rapid.IntRange(0, 3).Draw(t, "secondcall") == 0 && len(d.Siblings) > 0 {
			// another frame was written just before (whatever the writer keeps between calls must not show)
			_ = hx.Safely(func() { _ = d.Siblings[0].ToJSON(&bytes.Buffer{}); _ = d.QF.ToJSON(&bytes.Buffer{}) })
		}
		if len(in.Cols) > 0 && in.N() > 0 && rapid.IntRange(0, 3).Draw(t, "relativesfirst") == 0 {
			// relatives of the frame are written first: a part of its rows, that part grouped by one of its columns (the
			// key column of the result is cut out of the frame's column), one row per value - what was learnt about
			// their cells says nothing about the cells of the frame itself
			kc := in.Cols[rapid.IntRange(0, len(in.Cols)-1).Draw(t, "relkey")].Name
			keepRows := rapid.SliceOfN(rapid.IntRange(0, in.N()-1), 1, 3).Draw(t, "relrows")
			_ = hx.Safely(func() {
				part := d.QF
				for i, r := range keepRows {
					_ = i
					part = d.QF.Slice(r, r+1)
					_ = part.GroupBy(groupby.Columns(kc)).Aggregate().ToJSON(io.Discard)
					_ = part.ToJSON(io.Discard)
				}
				_ = d.QF.Distinct(groupby.Columns(kc)).ToJSON(io.Discard)
			})
		}
		if perr := hx.Safely(func() { werr = d.QF.ToJSON(&buf) }); perr != nil {
			t.Fatalf("ToJSON panicked: %v\n%s", perr, desc())
		}
		if werr != nil {
			t.Fatalf("ToJSON error: %v\n%s", werr, desc())
		}
		out := buf.Bytes()
		if msg := hx.CheckJSONDenotes(out, in); msg != "" {
			t.Fatalf("%s\njson %q\n%s", msg, clipS(string(out)), desc())
		}
		// inverse: only specified for frames with rows, distinct normalised names and no NaN
		escape, fraction, hasNaN := false, false, false
		norm := map[string]bool{}
		collide := false
		for _, c := range in.Cols {
			if norm[hx.JSONText(c.Name)] {
				collide = true
			}
			norm[hx.JSONText(c.Name)] = true
			if needsEscape(c.Name) {
				escape = true
			}
			for r := 0; r < c.Len(); r++ {
				switch c.Kind {
				case hx.KFloat:
					if math.IsNaN(c.F[r]) {
						hasNaN = true
					} else if c.F[r] != math.Trunc(c.F[r]) {
						fraction = true
					}
				case hx.KString, hx.KEnum:
					if c.S[r] != nil && needsEscape(*c.S[r]) {
						escape = true
					}
				}
			}
		}
		classes := []string{}
		if in.N() > 0 && !collide && !hasNaN {
			enums := map[string][]string{}
			for _, c := range in.Cols {
				if c.Kind == hx.KEnum {
					if c.Enum == nil {
						enums[hx.JSONText(c.Name)] = nil
					} else {
						vals := make([]string, len(c.Enum))
						seen := map[string]bool{}
						dup := false
						for i, v := range c.Enum {
							vals[i] = hx.JSONText(v)
							if seen[vals[i]] {
								dup = true
							}
							seen[vals[i]] = true
						}
						if dup {
							enums[hx.JSONText(c.Name)] = nil // declared values collide after normalisation
						} else {
							enums[hx.JSONText(c.Name)] = vals
						}
					}
				}
			}
			var fns []newqf.ConfigFunc
			if len(enums) > 0 {
				fns = append(fns, newqf.Enums(enums))
			}
			var wantOrder []string
			if rapid.Bool().Draw(t, "jsoncolumnorder") {
				names := make([]string, len(in.Cols))
				for i, c := range in.Cols {
					names[i] = hx.JSONText(c.Name)
				}
				wantOrder = rapid.Permutation(names).Draw(t, "jsonorder")
				fns = append(fns, newqf.ColumnOrder(wantOrder...))
			}
			var back qframe.QFrame
			if perr := hx.Safely(func() { back = qframe.ReadJSON(bytes.NewReader(out), fns...) }); perr != nil {
				t.Fatalf("ReadJSON panicked: %v\njson %q\n%s", perr, clipS(string(out)), desc())
			}
			if back.Err != nil {
				t.Fatalf("ReadJSON of the ToJSON output failed: %v\njson %q\n%s", back.Err, clipS(string(out)), desc())
			}
			got, err := hx.Observe(back)
			if err != nil {
				t.Fatalf("observe: %v\n%s", err, desc())
			}
			if wantOrder != nil && fmt.Sprint(got.Names()) != fmt.Sprint(wantOrder) {
				t.Fatalf("ReadJSON with ColumnOrder(%q) gave the columns %q\n%s", wantOrder, got.Names(), desc())
			}
			if back.Len() != in.N() || len(got.Cols) != len(in.Cols) {
				t.Fatalf("ReadJSON gave %d rows x %d columns, frame has %d x %d\njson %q\n%s", back.Len(), len(got.Cols), in.N(), len(in.Cols), clipS(string(out)), desc())
			}
			for _, c := range in.Cols {
				gi := got.Find(hx.JSONText(c.Name))
				if gi < 0 {
					t.Fatalf("ReadJSON lost column %q (have %q)\n%s", c.Name, got.Names(), desc())
				}
				g := got.Cols[gi]
				for r := 0; r < c.Len(); r++ {
					ok := true
					switch c.Kind {
					case hx.KInt:
						ok = g.Kind == hx.KFloat && g.F[r] == float64(c.I[r])
					case hx.KFloat:
						ok = g.Kind == hx.KFloat && math.Float64bits(g.F[r]) == math.Float64bits(c.F[r])
					case hx.KBool:
						ok = g.Kind == hx.KBool && g.B[r] == c.B[r]
					case hx.KString, hx.KEnum:
						ok = g.Kind == c.Kind && ((g.S[r] == nil) == (c.S[r] == nil)) && (c.S[r] == nil || *g.S[r] == hx.JSONText(*c.S[r]))
					}
					if !ok {
						t.Fatalf("ReadJSON column %q (%s->%s) row %d: frame holds %s, read back %s\njson %q\n%s", c.Name, c.Kind, g.Kind, r, c.Cell(r), g.Cell(r), clipS(string(out)), desc())
					}
				}
			}
			classes = append(classes, "inverse-checked")
		}
		// a frame with rows but without columns (GroupBy().Aggregate() without keys and aggregations): one empty object per row
		if rapid.IntRange(0, 9).Draw(t, "columnless") == 0 {
			zc := d.QF.GroupBy().Aggregate()
			if zc.Err == nil && len(zc.ColumnNames()) == 0 {
				if msg := checkColumnlessJSON(zc); msg != "" {
					t.Fatalf("%s\n%s", msg, desc())
				}
				classes = append(classes, "columnless-frame")
			}
		}
		if escape {
			classes = append(classes, "needs-escape")
		}
		if hasNaN {
			classes = append(classes, "has-NaN")
		}
		evC14.Case(escape && fraction, desc, classes...)
	}
}

// checkColumnlessJSON: a frame without columns is written as one empty object per row.
func checkColumnlessJSON(zc qframe.QFrame) string {
	var zbuf bytes.Buffer
	var zerr error
	if perr := hx.Safely(func() { zerr = zc.ToJSON(&zbuf) }); perr != nil || zerr != nil {
		return fmt.Sprintf("ToJSON of a column-less frame with %d rows: panic %v, error %v", zc.Len(), perr, zerr)
	}
	var recs []map[string]interface{}
	if err := json.Unmarshal(zbuf.Bytes(), &recs); err != nil || len(recs) != zc.Len() {
		return fmt.Sprintf("ToJSON of a column-less frame with %d rows wrote %q (%v; %d records)", zc.Len(), zbuf.String(), err, len(recs))
	}
	for _, r := range recs {
		if len(r) != 0 || r == nil {
			return fmt.Sprintf("ToJSON of a column-less frame with %d rows wrote %q", zc.Len(), zbuf.String())
		}
	}
	return ""
}
