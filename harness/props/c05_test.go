package props

import (
	"fmt"
	"github.com/tobgu/qframe/config/groupby"
	"os"
	"strconv"
	"testing"

	"github.com/tobgu/qframe"
	"pgregory.net/rapid"

	"verifharness/ev"
	"verifharness/hx"
)

var evC05 = ev.New("C05", "same frame/key generator as C04 (key columns incl. none given, both Null settings); oracle: every returned row is an unmodified input row "+
	"(hidden id; with no key columns the id is omitted and rows are matched by content), no two returned rows share a model key class, row count = number of classes; "+
	"non-trivial = >=2 classes and a class with >=2 rows; distinct = FNV-64 of (table, route, keys, null option)")

func TestC05(t *testing.T) {
	rapid.Check(t, func(t *rapid.T) {
		if hx.Rarely(t, 40, "emptycsvkeys") {
			emptyCSVKeys(t, true)
			evC05.Case(false, func() string { return "key columns read from CSV fields that are all empty" }, "empty-csv-keys")
			return
		}
		allCols := rapid.IntRange(0, 4).Draw(t, "allcols") == 0
		g := genGroupCase(t, !allCols)
		if allCols {
			g.keys = nil
		}
		in := g.in
		desc := func() string { return g.String() }
		keyCols := g.keys
		if len(keyCols) == 0 {
			keyCols = in.Names() // no columns given = all columns
		}
		groups := hx.Partition(in, keyCols, g.groupNull)

		var res qframe.QFrame
		confFns := g.confFns()
		if rapid.IntRange(0, 3).Draw(t, "secondcall") == 0 {
			_ = hx.Safely(func() { _ = g.d.QF.Distinct(confFns...) }) // the second call with the same option values counts
		}
		if perr := hx.Safely(func() { res = g.d.QF.Distinct(confFns...) }); perr != nil {
			t.Fatalf("Distinct panicked: %v\n%s", perr, desc())
		}
		if res.Err != nil {
			t.Fatalf("Distinct returned Err: %v\n%s", res.Err, desc())
		}
		got, err := hx.Observe(res)
		if err != nil {
			t.Fatalf("observe: %v\n%s", err, desc())
		}
		if fmt.Sprint(got.Names()) != fmt.Sprint(in.Names()) {
			t.Fatalf("Distinct changed the columns: %q -> %q\n%s", in.Names(), got.Names(), desc())
		}
		if got.N() != len(groups) {
			t.Fatalf("Distinct returned %d rows, model has %d key classes\n%s\nresult %s", got.N(), len(groups), desc(), got.String())
		}
		got = hx.WithEnumDecl(got, in)
		if !allCols {
			// every returned row is an unmodified input row
			pos := map[int]int{}
			for r, id := range in.MustCol("id").I {
				pos[id] = r
			}
			classOf := map[int]int{} // input row -> class
			for ci, rows := range groups {
				for _, r := range rows {
					classOf[r] = ci
				}
			}
			seenClass := map[int]int{}
			for r, id := range got.MustCol("id").I {
				p, ok := pos[id]
				if !ok {
					t.Fatalf("returned row %d has unknown id %d\n%s", r, id, desc())
				}
				for ci := range in.Cols {
					if !hx.CellEq(in.Cols[ci], p, got.Cols[ci], r) {
						t.Fatalf("returned row with id %d was modified in column %q: %s -> %s\n%s", id, in.Cols[ci].Name, in.Cols[ci].Cell(p), got.Cols[ci].Cell(r), desc())
					}
				}
				c := classOf[p]
				if other, dup := seenClass[c]; dup {
					t.Fatalf("rows with ids %d and %d share a key class but were both returned\n%s", other, id, desc())
				}
				seenClass[c] = id
			}
		} else {
			// all columns are keys: compare the sets of classes
			wantClasses := map[string]int{}
			uniques := 0
			for r := 0; r < in.N(); r++ {
				k, u := hx.KeyClass(in, keyCols, r, g.groupNull)
				if u {
					uniques++
					k = "U" + in.RowKey(r, nil)
				}
				wantClasses[k]++
			}
			gotClasses := map[string]int{}
			for r := 0; r < got.N(); r++ {
				k, u := hx.KeyClass(got, keyCols, r, g.groupNull)
				if u {
					k = "U" + got.RowKey(r, nil)
					gotClasses[k]++
					if gotClasses[k] > wantClasses[k] {
						t.Fatalf("null-keyed row %s returned more often than it occurs in the input\n%s", k, desc())
					}
					continue
				}
				gotClasses[k]++
				if gotClasses[k] > 1 {
					t.Fatalf("two returned rows share the key class %s\n%s", k, desc())
				}
				if wantClasses[k] == 0 {
					t.Fatalf("returned row %d (%s) is not an input row\n%s", r, k, desc())
				}
			}
		}
		// Distinct applied to results that are already "distinct" in some sense must still look at its own arguments:
		// the result under the other Null setting, the same call again, and an Aggregate result (one row per key
		// combination) reduced to a subset of its keys
		if rapid.IntRange(0, 2).Draw(t, "followup") == 0 {
			other := !g.groupNull
			fns := []groupby.ConfigFunc{groupby.Null(other)}
			if len(g.keys) > 0 {
				fns = append(fns, groupby.Columns(g.keys...))
			}
			r2 := res.Distinct(fns...)
			want2 := len(hx.Partition(got, keyCols, other))
			if r2.Err != nil || r2.Len() != want2 {
				t.Fatalf("Distinct(null=%v) of the Distinct(null=%v) result: %d rows (Err %v), its key classes number %d\n%s\nfirst result %s", other, g.groupNull, r2.Len(), r2.Err, want2, desc(), got.String())
			}
			r3 := res.Distinct(confFns...)
			if r3.Err != nil || r3.Len() != len(hx.Partition(got, keyCols, g.groupNull)) {
				t.Fatalf("Distinct of its own result with the same options: %d rows (Err %v), want %d\n%s", r3.Len(), r3.Err, len(hx.Partition(got, keyCols, g.groupNull)), desc())
			}
			if len(g.keys) >= 2 {
				agg := g.d.QF.GroupBy(groupby.Columns(g.keys...), groupby.Null(g.groupNull)).Aggregate()
				aobs, err := hx.Observe(agg)
				if err != nil || agg.Err != nil {
					t.Fatalf("Aggregate without aggregations: %v %v\n%s", agg.Err, err, desc())
				}
				aobs = hx.WithEnumDecl(aobs, in)
				sub := g.keys[:len(g.keys)-1]
				r4 := agg.Distinct(groupby.Columns(sub...), groupby.Null(other))
				want4 := len(hx.Partition(aobs, sub, other))
				if r4.Err != nil || r4.Len() != want4 {
					t.Fatalf("Distinct(%q, null=%v) of the Aggregate result over %q: %d rows (Err %v), its key classes number %d\n%s\naggregate %s", sub, other, g.keys, r4.Len(), r4.Err, want4, desc(), aobs.String())
				}
			}
		}
		classes := groupClasses(g, groups)
		if allCols {
			classes = append(classes, "no-key-columns-given")
		}
		// the receiver is as it was (its positional and its by-name observers)
		if again, err := hx.Observe(g.d.QF); err != nil || hx.Diff(in, again) != "" {
			t.Fatalf("the operation changed its receiver: %v %s\n%s", err, hx.Diff(in, again), desc())
		}
		evC05.Case(nontrivialGroups(groups), desc, classes...)
	})
}

// TestC05Large: Distinct over tens of thousands (thorough: more than a million) of distinct keys, each carried by two or three
// rows that lie far apart, on a frame that is not in storage order; int, string and two-column keys. Every key exactly
// once, every returned row an input row.
func TestC05Large(t *testing.T) {
	seed, _ := strconv.ParseUint(os.Getenv("VERIF_SHARD_SEED"), 10, 64)
	sizes := []int{33_000, 70_000, 140_000}
	if tier() == "thorough" {
		sizes = []int{33_000, 70_000, 140_000, 300_000, 1_200_000}
	}
	rng := hx.SplitMix(seed)
	for _, nkeys := range sizes {
		mul := int(rng.Next()%1000)*2 + 1
		off := int(rng.Next() % 1_000_000)
		n := 2*nkeys + nkeys/3
		k, v, id := make([]int, n), make([]int, n), make([]int, n)
		s, b := make([]string, n), make([]bool, n)
		for i := 0; i < n; i++ {
			key := (i % nkeys) * mul
			k[i] = key + off
			s[i] = "key-" + strconv.Itoa(k[i])
			b[i] = (i%nkeys)%2 == 0
			v[i] = int(rng.Next() % 1000)
			id[i] = i
		}
		qf := qframe.New(map[string]interface{}{"k": k, "v": v, "id": id, "s": s, "b": b}).Sort(qframe.Order{Column: "v"})
		for _, keys := range [][]string{{"k"}, {"s"}, {"b", "k"}} {
			dist := qf.Distinct(groupby.Columns(keys...))
			if dist.Err != nil || dist.Len() != nkeys {
				t.Fatalf("Distinct(%q) over %d distinct keys in %d rows: %d rows (Err %v) (key=i*%d+%d)", keys, nkeys, n, dist.Len(), dist.Err, mul, off)
			}
			kv, iv, sv, bv := dist.MustIntView("k"), dist.MustIntView("id"), dist.MustStringView("s"), dist.MustBoolView("b")
			seen := make(map[int]bool, nkeys)
			for r := 0; r < dist.Len(); r++ {
				key, row := kv.ItemAt(r), iv.ItemAt(r)
				if seen[key] {
					t.Fatalf("Distinct(%q): key %d returned twice (key=i*%d+%d)", keys, key, mul, off)
				}
				seen[key] = true
				if row < 0 || row >= n || k[row] != key || *sv.ItemAt(r) != s[row] || bv.ItemAt(r) != b[row] {
					t.Fatalf("Distinct(%q): returned row with id %d is not an input row (key=i*%d+%d)", keys, row, mul, off)
				}
			}
		}
		evC05.CaseHash(true, seed+uint64(nkeys), func() string {
			return fmt.Sprintf("large: %d distinct keys in %d rows, key=i*%d+%d, keys k / s / (b,k)", nkeys, n, mul, off)
		}, "large-volume-case")
	}
}
