package props

import (
	"database/sql/driver"
	"fmt"
	"math"
	"strconv"

	"github.com/tobgu/qframe"
	qsql "github.com/tobgu/qframe/config/sql"
	"pgregory.net/rapid"

	"verifharness/faults"
	"verifharness/hx"
)

// c19Untypable: result sets a frame cannot hold as they are - a NULL in an int or bool column (leading, middle or last), or
// one column delivering values of two kinds (as a dynamically typed store may). What ReadSQL makes of such a cell is not
// specified; what C19 does say is that the frame holds "the result set's values in row order". So the outcome is judged by a
// validity predicate: an error, or an error-free frame with one row per result row whose cells denote the delivered values
// (numbers compared by value, so reading 1 and 2.5 as the floats 1 and 2.5 is fine; NULL as null/NaN). A frame without Err
// that has fewer rows, or another value in some cell, is a violation.
func c19Untypable(t *rapid.T) {
	rs := genResultSet(t, 2)
	n := len(rs.Rows)
	ci := rapid.IntRange(0, len(rs.Cols)-1).Draw(t, "hostilecol")
	kind := rs.Exp.Cols[ci].Kind
	what := ""
	other := func(k hx.Kind) driver.Value {
		// a value of another kind than k
		alts := []driver.Value{int64(7), 2.5, true, "txt", []byte("raw")}
		for {
			v := alts[rapid.IntRange(0, len(alts)-1).Draw(t, "otherkind")]
			switch v.(type) {
			case int64:
				if k != hx.KInt {
					return v
				}
			case float64:
				if k != hx.KFloat {
					return v
				}
			case bool:
				if k != hx.KBool {
					return v
				}
			default:
				if k != hx.KString {
					return v
				}
			}
		}
	}
	switch mode := rapid.IntRange(0, 2).Draw(t, "hostilemode"); {
	case mode == 0 && (kind == hx.KInt || kind == hx.KBool):
		// NULLs in a column that has no null: the first k rows, or one row anywhere
		if rapid.Bool().Draw(t, "leadingnulls") {
			k := rapid.IntRange(1, n-1).Draw(t, "nleading")
			for r := 0; r < k; r++ {
				rs.Rows[r][ci] = nil
			}
			what = fmt.Sprintf("%d leading NULLs in the %s column %q", k, kind, rs.Cols[ci])
		} else {
			r := rapid.IntRange(0, n-1).Draw(t, "nullrow")
			rs.Rows[r][ci] = nil
			what = fmt.Sprintf("NULL in row %d of the %s column %q", r, kind, rs.Cols[ci])
		}
	default:
		// another kind of value in one or more rows (never in all of them)
		k := rapid.IntRange(1, n-1).Draw(t, "nother")
		rows := rapid.Permutation(seq(n)).Draw(t, "otherrows")[:k]
		for _, r := range rows {
			rs.Rows[r][ci] = other(kind)
		}
		what = fmt.Sprintf("rows %v of the %s column %q deliver a value of another kind", rows, kind, rs.Cols[ci])
	}
	desc := func() string { return "untypable result set: " + what + "\n" + rs.String() }
	m, db := faults.New()
	defer m.Release(db)
	m.Cols, m.Rows = rs.Cols, rs.Rows
	tx, err := db.Begin()
	if err != nil {
		t.Fatal(err)
	}
	defer tx.Rollback()
	var qf qframe.QFrame
	if perr := hx.Safely(func() { qf = qframe.ReadSQL(tx, qsql.Query("select * from t")) }); perr != nil {
		t.Fatalf("ReadSQL panicked: %v\n%s", perr, desc())
	}
	if qf.Err != nil {
		evC19.Case(true, desc, "mode:untypable", "outcome:error")
		return
	}
	got, err := hx.Observe(qf)
	if err != nil {
		t.Fatalf("ReadSQL returned a frame without Err that cannot be observed: %v\n%s", err, desc())
	}
	if qf.Len() != n {
		t.Fatalf("ReadSQL returned an error-free frame with %d rows for a result set of %d rows\n%s", qf.Len(), n, desc())
	}
	if fmt.Sprint(got.Names()) != fmt.Sprint(rs.Cols) {
		t.Fatalf("ReadSQL returned the columns %q for the result set columns %q\n%s", got.Names(), rs.Cols, desc())
	}
	for c := range rs.Cols {
		g := got.Cols[c]
		for r := 0; r < n; r++ {
			if !denotes(g, r, rs.Rows[r][c]) {
				t.Fatalf("ReadSQL returned an error-free frame whose column %q holds %s in row %d where the result set delivered %v\n%s",
					rs.Cols[c], g.Cell(r), r, rs.Rows[r][c], desc())
			}
		}
	}
	evC19.Case(true, desc, "mode:untypable", "outcome:frame")
}

func seq(n int) []int {
	s := make([]int, n)
	for i := range s {
		s[i] = i
	}
	return s
}

// denotes: does the observed cell stand for the delivered driver value? Numbers by value, texts by bytes, NULL as null/NaN.
func denotes(c hx.Col, r int, v driver.Value) bool {
	if v == nil {
		return c.IsNull(r) && (c.Kind == hx.KFloat || c.Kind == hx.KString || c.Kind == hx.KEnum)
	}
	if c.IsNull(r) {
		if f, ok := v.(float64); ok && math.IsNaN(f) {
			return true
		}
		return false
	}
	num := func() (float64, bool) {
		switch c.Kind {
		case hx.KInt:
			return float64(c.I[r]), true
		case hx.KFloat:
			return c.F[r], true
		}
		return 0, false
	}
	switch x := v.(type) {
	case int64:
		if c.Kind == hx.KInt {
			return int64(c.I[r]) == x
		}
		if f, ok := num(); ok {
			return f == float64(x)
		}
		if c.Kind == hx.KString {
			return *c.S[r] == strconv.FormatInt(x, 10)
		}
	case float64:
		if f, ok := num(); ok {
			return f == x
		}
		if c.Kind == hx.KString {
			p, err := strconv.ParseFloat(*c.S[r], 64)
			return err == nil && p == x
		}
	case bool:
		if c.Kind == hx.KBool {
			return c.B[r] == x
		}
		if c.Kind == hx.KString {
			return *c.S[r] == strconv.FormatBool(x)
		}
	case string:
		return c.Kind == hx.KString && *c.S[r] == x
	case []byte:
		return c.Kind == hx.KString && *c.S[r] == string(x)
	}
	return false
}
