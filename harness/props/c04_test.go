package props

import (
	"fmt"
	"github.com/tobgu/qframe/config/csv"
	"math"
	"os"
	"sort"
	"strconv"
	"strings"
	"testing"

	"github.com/tobgu/qframe"
	"github.com/tobgu/qframe/config/groupby"
	"pgregory.net/rapid"

	"verifharness/ev"
	"verifharness/hx"
)

// C04 — GroupBy partitions the rows by key; Aggregate summarises exactly each group.
// C05 — Distinct keeps exactly one whole row per distinct key.

var evC04 = ev.New("C04", "derived frames (drawn <=40 rows, or 41..6000 rows filled from a drawn seed with key cardinalities crossing the hash table growth steps), "+
	"0-4 key columns of any type, both Null settings in every spelling/order of the options, 0-4 aggregations (count,sum,min,max,avg,majority and order-sensitive user functions); "+
	"oracle: model partition; QFrames = exactly the model groups (whole rows, frame order), Aggregate rows = model rows as a multiset; "+
	"non-trivial = >=2 groups and a group with >=2 rows; distinct = FNV-64 of (table, route, keys, null option, aggregations)")

type groupCase struct {
	d         hx.Derived
	in        hx.Table
	keys      []string
	groupNull bool
	filled    bool
	optForm   int  // how the options are spelled: order of Columns/Null, explicit Null(false), explicit empty Columns()
	decoyNull bool // Null(!groupNull) is passed before Null(groupNull)
}

func (g groupCase) String() string {
	return fmt.Sprintf("%skeys %q groupNull=%v optForm=%d\n", g.d.String(), g.keys, g.groupNull, g.optForm)
}

func genGroupCase(t *rapid.T, withID bool) groupCase {
	var base hx.Table
	filled := rapid.IntRange(0, 4).Draw(t, "filled") == 0
	if filled {
		maxN, cards := 6000, []int{1, 2, 4, 5, 8, 9, 16, 17, 33, 65, 129, 1000, 5000}
		if tier() == "thorough" {
			maxN, cards = 40000, append(cards, 257, 513, 1025, 2049, 4097, 8193, 16385, 40000) // more growth steps of the table
		}
		n := rapid.IntRange(41, maxN).Draw(t, "n")
		seed := hx.SplitMix(rapid.Uint64().Draw(t, "fill"))
		card := rapid.SampledFrom(cards).Draw(t, "card")
		decl := []string{"c", "a", "b", "", "B", "ab"}
		base = hx.Table{Cols: []hx.Col{
			hx.FillCol(&seed, "i1", hx.KInt, n, card, nil),
			hx.FillCol(&seed, "f1", hx.KFloat, n, card, nil),
			hx.FillCol(&seed, "b1", hx.KBool, n, card, nil),
			hx.FillCol(&seed, "s1", hx.KString, n, card, nil),
			hx.FillCol(&seed, "e1", hx.KEnum, n, card, decl),
			hx.FillCol(&seed, "i2", hx.KInt, n, 7, nil),
			hx.FillCol(&seed, "f2", hx.KFloat, n, 7, nil),
		}}
	} else {
		base = hx.GenTable(t, hx.TableOpt{MinCols: 1, MaxCols: 6, AllowDerived: true})
		// now and then every string cell is long (70 bytes more: equal cells stay equal, different ones different), for code
		// that treats long keys differently (hashes kept, compared in words)
		if rapid.IntRange(0, 5).Draw(t, "longstrings") == 0 {
			for ci, c := range base.Cols {
				if c.Kind != hx.KString {
					continue
				}
				cells := make([]*string, len(c.S))
				for r, p := range c.S {
					if p != nil {
						cells[r] = hx.Sp(*p + "-0123456789abcdef-0123456789abcdef-0123456789abcdef-0123456789abcdef-01")
					}
				}
				base.Cols[ci].S = cells
			}
		}
	}
	// many key columns: 9-11 nearly constant columns in front of the drawn ones, all of them keys, so that rows differ
	// in late key columns only
	wide := !filled && rapid.IntRange(0, 11).Draw(t, "widekeys") == 0
	var wideKeys []string
	if wide {
		nw := rapid.SampledFrom([]int{9, 10, 11, 9, 10, 11, 17, 33}).Draw(t, "nwide")
		// of one type (a key made of bool, or enum, columns only may be packed into a word) or of all types in turn
		wkind := rapid.SampledFrom([]hx.Kind{hx.KInt, hx.KBool, hx.KEnum, hx.KString, hx.KFloat, 255}).Draw(t, "widekind")
		var cols []hx.Col
		for j := 0; j < nw; j++ {
			k := wkind
			if k == 255 {
				k = []hx.Kind{hx.KInt, hx.KBool, hx.KEnum, hx.KString, hx.KFloat}[j%5]
			}
			c := hx.Col{Name: fmt.Sprintf("w%d", j), Kind: k}
			if k == hx.KEnum {
				c.Enum = []string{"n", "y"}
			}
			for r := 0; r < base.N(); r++ {
				one := rapid.IntRange(0, 15).Draw(t, "wcell") == 0
				switch k {
				case hx.KInt:
					c.I = append(c.I, map[bool]int{false: 0, true: 1}[one])
				case hx.KBool:
					c.B = append(c.B, one)
				case hx.KFloat:
					c.F = append(c.F, map[bool]float64{false: 0, true: 1.5}[one])
				default:
					c.S = append(c.S, hx.Sp(map[bool]string{false: "n", true: "y"}[one]))
				}
			}
			cols = append(cols, c)
			wideKeys = append(wideKeys, c.Name)
		}
		base = hx.Table{Cols: append(cols, base.Cols...)}
	}
	if withID {
		base = withIDLast(base)
	}
	steps := 4
	if filled {
		steps = 2
	}
	d := hx.GenDerived(t, base, steps)
	in := d.Input(t)
	// now and then the frame has an earlier life that touched its data columns (numbered, grouped, de-duplicated, ordered,
	// tested for null, overwritten afterwards): what it then holds is observed, and the keys tend to be the columns that life was about
	var hist hx.History
	if !filled && !wide && rapid.IntRange(0, 3).Draw(t, "history") == 0 {
		d.QF, in, hist = hx.GenHistory(t, d.QF, in, true, "id")
		d.Route = append(d.Route, hist.String())
	}
	var cands []string
	for _, c := range in.Cols {
		if c.Name != "id" {
			cands = append(cands, c.Name)
		}
	}
	nk := rapid.IntRange(0, 4).Draw(t, "nkeys")
	if nk > len(cands) {
		nk = len(cands)
	}
	perm := rapid.Permutation(cands).Draw(t, "keyperm")
	if hist.Focus != "" {
		front := []string{hist.Focus}
		switch rapid.IntRange(0, 3).Draw(t, "histkeys") {
		case 0:
			front = nil
		case 1:
			if len(hist.Keys) > 0 {
				front = hist.Keys
			}
		}
		isFront := map[string]bool{}
		var p2 []string
		for _, k := range front {
			if !isFront[k] && in.Find(k) >= 0 && k != "id" {
				isFront[k] = true
				p2 = append(p2, k)
			}
		}
		if len(p2) > 0 && rapid.Bool().Draw(t, "histkeysonly") {
			nk = len(p2)
		} else if nk < len(p2) {
			nk = len(p2)
		}
		for _, k := range perm {
			if !isFront[k] {
				p2 = append(p2, k)
			}
		}
		perm = p2
	}
	if wide {
		// all the nearly constant columns first, then some of the others
		var rest []string
		for _, c := range perm {
			if !strings.HasPrefix(c, "w") {
				rest = append(rest, c)
			}
		}
		if nk > len(rest) {
			nk = len(rest)
		}
		perm = append(append([]string(nil), wideKeys...), rest[:nk]...)
		nk = len(perm)
	}
	// now and then the frame has been narrowed by a Filter on its own columns before (what it then holds is observed)
	if rapid.IntRange(0, 5).Draw(t, "filteredbefore") == 0 && len(in.Cols) > 0 {
		cl := hx.GenLeaf(t, in, hx.ClauseOpt{})
		if f := d.QF.Filter(cl.Build(hx.KindMap(in))); f.Err == nil {
			d.QF = f
			d.Route = append(d.Route, "filtered by "+cl.String())
			in = d.Input(t)
		}
	}
	// now and then the frame is already ordered on a prefix of the keys (an input grouping code likes to special-case)
	if nk > 0 && rapid.IntRange(0, 5).Draw(t, "presortedkeys") == 0 {
		np := rapid.IntRange(1, nk).Draw(t, "sortprefix")
		var os []qframe.Order
		for _, k := range perm[:np] {
			os = append(os, qframe.Order{Column: k, Reverse: rapid.Bool().Draw(t, "sortrev")})
		}
		if sorted := d.QF.Sort(os...); sorted.Err == nil {
			d.QF = sorted
			d.Route = append(d.Route, fmt.Sprintf("sorted on the first %d key(s)", np))
			in = d.Input(t)
		}
	}
	// now and then the frame's columns have served other groupings before: the same columns behind another leading key,
	// in another order, under the other Null setting (whatever a column keeps from a grouping belongs to that grouping)
	if nk > 0 && rapid.IntRange(0, 3).Draw(t, "priorgroupings") == 0 {
		lead := cands[rapid.IntRange(0, len(cands)-1).Draw(t, "priorlead")]
		prior := append([]string{lead}, perm[:nk]...)
		rot := append(append([]string(nil), perm[1:nk]...), perm[0])
		pn := rapid.Bool().Draw(t, "priornull")
		_ = hx.Safely(func() {
			_ = d.QF.Distinct(groupby.Columns(uniqNames(prior)...), groupby.Null(pn))
			_ = d.QF.GroupBy(groupby.Columns(rot...), groupby.Null(!pn)).Aggregate()
			_ = d.QF.Distinct(groupby.Columns(uniqNames(append([]string{"id"}, perm[:nk]...))...))
		})
		d.Route = append(d.Route, fmt.Sprintf("grouped before on %q and %q", prior, rot))
	}
	return groupCase{d: d, in: in, keys: append([]string(nil), perm[:nk]...), groupNull: rapid.Bool().Draw(t, "groupnull"), filled: filled,
		optForm: rapid.IntRange(0, 3).Draw(t, "optform"), decoyNull: rapid.IntRange(0, 5).Draw(t, "decoynull") == 0}
}

func withIDLast(tab hx.Table) hx.Table {
	return hx.Table{Cols: append(append([]hx.Col(nil), tab.Cols...), hx.Col{Name: "id", Kind: hx.KInt, I: hx.Iota(tab.N())})}
}

func (g groupCase) confFns() []groupby.ConfigFunc {
	var cols, null []groupby.ConfigFunc
	// no keys: no Columns option, or an explicitly empty one
	if len(g.keys) > 0 || g.optForm >= 2 {
		cols = append(cols, groupby.Columns(g.keys...))
	}
	// Null(false) is the default: pass it explicitly only sometimes
	if g.groupNull || g.optForm >= 2 || g.decoyNull {
		if g.decoyNull {
			null = append(null, groupby.Null(!g.groupNull)) // an earlier Null option that the later one overrides
		}
		null = append(null, groupby.Null(g.groupNull))
	}
	// the options are independent: any order
	if g.optForm%2 == 1 {
		return append(null, cols...)
	}
	return append(cols, null...)
}

func canonKeyCell(c hx.Col, r int) string {
	if c.IsNull(r) {
		return "N"
	}
	if c.Kind == hx.KFloat {
		f := c.F[r]
		if f == 0 {
			f = 0
		}
		return strconv.FormatUint(math.Float64bits(f), 16)
	}
	return c.Cell(r)
}

func canonAggCell(c hx.Col, r int, fn string) string {
	if c.Kind == hx.KFloat && (fn == "min" || fn == "max") && c.F[r] == 0 {
		return "0" // the sign of a zero extremum is not specified
	}
	return c.Cell(r)
}

func genAggs(t *rapid.T, in hx.Table, keys []string) []hx.Agg {
	n := rapid.IntRange(0, 4).Draw(t, "naggs")
	used := map[string]bool{}
	for _, k := range keys {
		used[k] = true
	}
	var aggs []hx.Agg
	for i := 0; i < n; i++ {
		c := in.Cols[rapid.IntRange(0, len(in.Cols)-1).Draw(t, "aggcol")]
		if len(aggs) > 0 && rapid.IntRange(0, 2).Draw(t, "samecolagain") == 0 {
			c = in.MustCol(aggs[len(aggs)-1].Col) // several aggregations of one column in one call
		}
		a := hx.Agg{Col: c.Name, Fn: rapid.SampledFrom(hx.AggsFor(c.Kind)).Draw(t, "aggfn")}
		if used[c.Name] || rapid.IntRange(0, 2).Draw(t, "as") == 0 {
			a.As = fmt.Sprintf("agg%d", i)
		}
		if used[a.Out()] {
			continue
		}
		used[a.Out()] = true
		aggs = append(aggs, a)
	}
	return aggs
}

func TestC04(t *testing.T) {
	rapid.Check(t, func(t *rapid.T) {
		if hx.Rarely(t, 40, "emptycsvkeys") {
			emptyCSVKeys(t, false)
			evC04.Case(false, func() string { return "key columns read from CSV fields that are all empty" }, "empty-csv-keys")
			return
		}
		g := genGroupCase(t, true)
		in := g.in
		aggs := genAggs(t, in, g.keys)
		desc := func() string { return g.String() + fmt.Sprintf("aggs %v", aggs) }
		groups := hx.Partition(in, g.keys, g.groupNull)
		ids := in.MustCol("id").I

		var grouper qframe.Grouper
		if perr := hx.Safely(func() { grouper = g.d.QF.GroupBy(g.confFns()...) }); perr != nil {
			t.Fatalf("GroupBy panicked: %v\n%s", perr, desc())
		}
		if grouper.Err != nil {
			t.Fatalf("GroupBy returned Err: %v\n%s", grouper.Err, desc())
		}

		// --- QFrames: exactly the model's groups, whole rows, frame order
		frames, err := grouper.QFrames()
		if err != nil {
			t.Fatalf("QFrames error: %v\n%s", err, desc())
		}
		want := map[string][]int{}
		for _, rows := range groups {
			want[idKey(ids, rows)] = rows
		}
		if len(frames) != len(groups) {
			t.Fatalf("QFrames returned %d groups, model has %d\n%s", len(frames), len(groups), desc())
		}
		seen := map[string]bool{}
		for fi, f := range frames {
			ft, err := hx.Observe(f)
			if err != nil {
				t.Fatalf("observe group frame %d: %v\n%s", fi, err, desc())
			}
			if ft.N() == 0 {
				t.Fatalf("group frame %d is empty\n%s", fi, desc())
			}
			if ft.Find("id") < 0 {
				t.Fatalf("group frame %d lost columns: %q\n%s", fi, ft.Names(), desc())
			}
			k := idKey(ft.MustCol("id").I, hx.Iota(ft.N()))
			rows, ok := want[k]
			if !ok {
				t.Fatalf("group frame %d holds ids %s which is not a group of the model (model groups by id: %v)\n%s", fi, k, keysOf(want), desc())
			}
			if seen[k] {
				t.Fatalf("group %s returned twice\n%s", k, desc())
			}
			seen[k] = true
			if diff := hx.Diff(in.Rows(rows), ft); diff != "" {
				t.Fatalf("group frame %d rows differ from the input rows: %s\n%s", fi, diff, desc())
			}
		}

		// --- Aggregate
		var res qframe.QFrame
		realAggs := make([]qframe.Aggregation, len(aggs))
		for i, a := range aggs {
			realAggs[i] = a.Build(in.MustCol(a.Col).Kind)
		}
		if rapid.IntRange(0, 3).Draw(t, "secondcall") == 0 {
			_ = hx.Safely(func() { _ = grouper.Aggregate(realAggs...) }) // the second Aggregate of the same Grouper counts
		}
		if perr := hx.Safely(func() { res = grouper.Aggregate(realAggs...) }); perr != nil {
			t.Fatalf("Aggregate panicked: %v\n%s", perr, desc())
		}
		if res.Err != nil {
			t.Fatalf("Aggregate returned Err: %v\n%s", res.Err, desc())
		}
		got, err := hx.Observe(res)
		if err != nil {
			t.Fatalf("observe aggregate: %v\n%s", err, desc())
		}
		// a later Aggregate of the same Grouper, with other aggregations, leaves the frame this one returned as it was
		_ = hx.Safely(func() {
			_ = grouper.Aggregate(qframe.Aggregation{Fn: "count", Column: "id", As: "zz-later"}, qframe.Aggregation{Fn: "max", Column: "id", As: "zz-later2"})
		})
		if again, err := hx.Observe(res); err != nil || hx.Diff(got, again) != "" {
			t.Fatalf("the Aggregate result changed when the same Grouper aggregated again: %v %s\n%s", err, hx.Diff(got, again), desc())
		}
		// expected layout
		var wantNames []string
		var wantKinds []hx.Kind
		for _, k := range g.keys {
			wantNames = append(wantNames, k)
			wantKinds = append(wantKinds, in.MustCol(k).Kind)
		}
		outs := make([]hx.Col, len(aggs))
		for i, a := range aggs {
			src := in.MustCol(a.Col)
			outs[i] = hx.Col{Name: a.Out(), Kind: a.ResultKind(src.Kind)}
			for _, rows := range groups {
				a.Apply(src, rows, &outs[i])
			}
			wantNames = append(wantNames, a.Out())
			wantKinds = append(wantKinds, outs[i].Kind)
		}
		if in.N() == 0 {
			// nothing to group: zero rows; column layout of an empty result is not specified further
			if res.Len() != 0 {
				t.Fatalf("Aggregate of an empty frame has %d rows\n%s", res.Len(), desc())
			}
		} else {
			if fmt.Sprint(got.Names()) != fmt.Sprint(wantNames) {
				t.Fatalf("Aggregate columns: want %q, got %q\n%s", wantNames, got.Names(), desc())
			}
			for i, c := range got.Cols {
				if c.Kind != wantKinds[i] {
					t.Fatalf("Aggregate column %q type: want %s, got %s\n%s", c.Name, wantKinds[i], c.Kind, desc())
				}
			}
			if res.Len() != len(groups) {
				t.Fatalf("Aggregate has %d rows, model has %d groups\n%s\nresult %s", res.Len(), len(groups), desc(), got.String())
			}
			// float min/max of a group that holds a NaN: the statement does not say whether NaN wins, so NaN and the
			// extremum of the other values are both accepted (token "NaN-or-extremum") - but see the arrangement
			// check below: whichever it is, it must not depend on where in the group the NaN stands
			nanExt := func(i int) bool {
				src := in.MustCol(aggs[i].Col)
				return src.Kind == hx.KFloat && (aggs[i].Fn == "min" || aggs[i].Fn == "max") && src.HasNull()
			}
			allowed := map[string][]map[string]bool{}
			wantRows := make([]string, len(groups))
			for gi, rows := range groups {
				var sb strings.Builder
				for _, k := range g.keys {
					sb.WriteString(canonKeyCell(in.MustCol(k), rows[0]) + "|")
				}
				ks := sb.String()
				for i, a := range aggs {
					cell := canonAggCell(outs[i], gi, a.Fn)
					if nanExt(i) && math.IsNaN(outs[i].F[gi]) {
						if allowed[ks] == nil {
							allowed[ks] = make([]map[string]bool, len(aggs))
						}
						if allowed[ks][i] == nil {
							allowed[ks][i] = map[string]bool{}
						}
						allowed[ks][i][cell] = true
						src := in.MustCol(a.Col)
						ext, have := 0.0, false
						for _, r := range rows {
							if v := src.F[r]; !math.IsNaN(v) {
								if !have || (a.Fn == "min" && v < ext) || (a.Fn == "max" && v > ext) {
									ext, have = v, true
								}
							}
						}
						if have {
							allowed[ks][i][canonAggCell(hx.Col{Kind: hx.KFloat, F: []float64{ext}}, 0, a.Fn)] = true
						}
						cell = "NaN-or-extremum"
					}
					sb.WriteString(cell + "|")
				}
				wantRows[gi] = sb.String()
			}
			gotRows := make([]string, res.Len())
			for r := range gotRows {
				var sb strings.Builder
				for ki := range g.keys {
					sb.WriteString(canonKeyCell(got.Cols[ki], r) + "|")
				}
				ks := sb.String()
				for i, a := range aggs {
					cell := canonAggCell(got.Cols[len(g.keys)+i], r, a.Fn)
					if nanExt(i) && allowed[ks] != nil && allowed[ks][i][cell] {
						cell = "NaN-or-extremum"
					}
					sb.WriteString(cell + "|")
				}
				gotRows[r] = sb.String()
			}
			// arrangement check for those aggregations: NaNs first in every group against NaNs last
			for i, a := range aggs {
				if !nanExt(i) {
					continue
				}
				var sides [2][]string
				for side, nullLast := range []bool{false, true} {
					arranged := g.d.QF.Sort(qframe.Order{Column: a.Col, NullLast: nullLast})
					r := arranged.GroupBy(g.confFns()...).Aggregate(realAggs[i])
					ro, err := hx.Observe(r)
					if err != nil || r.Err != nil {
						t.Fatalf("Aggregate of the re-arranged frame: %v %v\n%s", r.Err, err, desc())
					}
					for row := 0; row < ro.N(); row++ {
						var sb strings.Builder
						for ki := range g.keys {
							sb.WriteString(canonKeyCell(ro.Cols[ki], row) + "|")
						}
						sb.WriteString(canonAggCell(ro.Cols[len(g.keys)], row, a.Fn))
						sides[side] = append(sides[side], sb.String())
					}
					sort.Strings(sides[side])
				}
				if fmt.Sprint(sides[0]) != fmt.Sprint(sides[1]) {
					t.Fatalf("%s(%s) depends on where in its group a NaN stands: with NaNs first %v, with NaNs last %v\n%s", a.Fn, a.Col, sides[0], sides[1], desc())
				}
			}
			sort.Strings(wantRows)
			sort.Strings(gotRows)
			for i := range wantRows {
				if wantRows[i] != gotRows[i] {
					t.Fatalf("Aggregate rows differ from model (as multisets): model has %s, result has %s\n%s\nresult %s", wantRows[i], gotRows[i], desc(), got.String())
				}
			}
		}

		// the Aggregate result grouped again by fewer of its keys (a result is a frame like any other)
		if len(g.keys) >= 2 && in.N() > 0 && rapid.IntRange(0, 3).Draw(t, "regroup") == 0 {
			sub := g.keys[:len(g.keys)-1]
			gd := hx.WithEnumDecl(got, in)
			wantGroups := hx.Partition(gd, sub, g.groupNull)
			r2 := res.GroupBy(groupby.Columns(sub...), groupby.Null(g.groupNull)).Aggregate(qframe.Aggregation{Fn: "count", Column: g.keys[len(g.keys)-1], As: "zz-n"})
			if r2.Err != nil || r2.Len() != len(wantGroups) {
				t.Fatalf("the Aggregate result grouped again by %q: %d groups (Err %v), its key classes number %d\n%s\nresult %s", sub, r2.Len(), r2.Err, len(wantGroups), desc(), got.String())
			}
			r3 := res.GroupBy(groupby.Columns(g.keys...), groupby.Null(!g.groupNull)).Aggregate()
			if want3 := len(hx.Partition(gd, g.keys, !g.groupNull)); r3.Err != nil || r3.Len() != want3 {
				t.Fatalf("the Aggregate result grouped again by its own keys with Null(%v): %d groups (Err %v), its key classes number %d\n%s\nresult %s", !g.groupNull, r3.Len(), r3.Err, want3, desc(), got.String())
			}
			if v, err := r2.IntView("zz-n"); err == nil {
				total := 0
				for _, c := range v.Slice() {
					total += c
				}
				if total != res.Len() {
					t.Fatalf("the groups of the re-grouped Aggregate result hold %d rows, it has %d\n%s", total, res.Len(), desc())
				}
			}
		}
		classes := groupClasses(g, groups)
		for _, a := range aggs {
			classes = append(classes, "agg:"+in.MustCol(a.Col).Kind.String()+":"+a.Fn)
		}
		// the receiver is as it was (its positional and its by-name observers)
		if again, err := hx.Observe(g.d.QF); err != nil || hx.Diff(in, again) != "" {
			t.Fatalf("the operation changed its receiver: %v %s\n%s", err, hx.Diff(in, again), desc())
		}
		evC04.Case(nontrivialGroups(groups), desc, classes...)
	})
}

func nontrivialGroups(groups [][]int) bool {
	if len(groups) < 2 {
		return false
	}
	for _, g := range groups {
		if len(g) >= 2 {
			return true
		}
	}
	return false
}

func groupClasses(g groupCase, groups [][]int) []string {
	cl := []string{fmt.Sprintf("groupNull=%v", g.groupNull), fmt.Sprintf("nkeys=%d", len(g.keys))}
	for _, k := range g.keys {
		cl = append(cl, "key:"+g.in.MustCol(k).Kind.String())
	}
	// growth steps of the hash table that the group count crosses (load factor 0.5, table sizes 8,16,...)
	n := len(groups)
	switch {
	case n <= 4:
		cl = append(cl, "groups<=4")
	case n <= 64:
		cl = append(cl, "groups5..64")
	case n <= 1024:
		cl = append(cl, "groups65..1024")
	default:
		cl = append(cl, "groups>1024")
	}
	if g.d.NonIdentity() {
		cl = append(cl, "non-identity-index")
	}
	return cl
}

func idKey(ids []int, rows []int) string {
	var sb strings.Builder
	for _, r := range rows {
		sb.WriteString(strconv.Itoa(ids[r]))
		sb.WriteByte(',')
	}
	return sb.String()
}

func keysOf(m map[string][]int) []string {
	var r []string
	for k := range m {
		r = append(r, k)
	}
	sort.Strings(r)
	if len(r) > 20 {
		r = r[:20]
	}
	return r
}

// TestC04Large forces genuine 32-bit hash collisions by volume (the memhash key is
// random per process, so collisions cannot be constructed): many distinct int keys,
// two rows each, checked against a Go map.
func TestC04Large(t *testing.T) {
	seed, _ := strconv.ParseUint(os.Getenv("VERIF_SHARD_SEED"), 10, 64)
	nkeys := 300_000
	if tier() == "thorough" {
		nkeys = 1_500_000
	}
	rng := hx.SplitMix(seed)
	mul := int(rng.Next()%1000)*2 + 1
	off := int(rng.Next() % 1_000_000)
	n := 2 * nkeys
	k, v := make([]int, n), make([]int, n)
	for i := 0; i < n; i++ {
		key := (i % nkeys) * mul
		k[i] = key + off
		v[i] = int(rng.Next() % 1000)
	}
	qf := qframe.New(map[string]interface{}{"k": k, "v": v})
	// bring the frame into a non-identity order first
	qf = qf.Sort(qframe.Order{Column: "v"})
	g := qf.GroupBy(groupby.Columns("k"))
	if g.Err != nil {
		t.Fatal(g.Err)
	}
	res := g.Aggregate(qframe.Aggregation{Fn: "count", Column: "v", As: "n"}, qframe.Aggregation{Fn: "sum", Column: "v"})
	if res.Err != nil {
		t.Fatal(res.Err)
	}
	if res.Len() != nkeys {
		t.Fatalf("large group by: %d groups, want %d (mul=%d off=%d)", res.Len(), nkeys, mul, off)
	}
	wantSum := make(map[int]int, nkeys)
	for i := range k {
		wantSum[k[i]] += v[i]
	}
	kv, nv, sv := res.MustIntView("k"), res.MustIntView("n"), res.MustIntView("v")
	seen := make(map[int]bool, nkeys)
	for r := 0; r < res.Len(); r++ {
		key := kv.ItemAt(r)
		if seen[key] {
			t.Fatalf("key %d in two groups (mul=%d off=%d)", key, mul, off)
		}
		seen[key] = true
		if nv.ItemAt(r) != 2 || sv.ItemAt(r) != wantSum[key] {
			t.Fatalf("key %d: count %d sum %d, want 2 and %d (mul=%d off=%d)", key, nv.ItemAt(r), sv.ItemAt(r), wantSum[key], mul, off)
		}
	}
	dist := qf.Distinct(groupby.Columns("k"))
	if dist.Err != nil || dist.Len() != nkeys {
		t.Fatalf("large distinct: len %d err %v, want %d", dist.Len(), dist.Err, nkeys)
	}
	expectedCollidingPairs := float64(nkeys) * float64(nkeys) / math.Pow(2, 33)
	evC04.CaseHash(true, seed, func() string {
		return fmt.Sprintf("large: %d distinct int keys x 2 rows, key=i*%d+%d, stats %+v", nkeys, mul, off, g.Stats)
	}, "large-volume-case")
	evC04.Extra("large_case_keys", float64(nkeys))
	evC04.Extra("large_case_expected_32bit_hash_colliding_pairs", expectedCollidingPairs)
	// Grouper.Stats is "strictly for info" and its layout may change: only its rendering is recorded
	evC04.Extra("large_case_group_stats", fmt.Sprintf("%+v", g.Stats))
}

// emptyCSVKeys: key columns read from a CSV document in which every field of the key column is empty (typed string,
// EmptyNull off: the cells are "" and the column has not one byte of content), grouped and de-duplicated with both Null
// settings: all rows carry the same key.
func emptyCSVKeys(t *rapid.T, distinct bool) {
	n := rapid.IntRange(2, 9).Draw(t, "rows")
	twoKeys := rapid.Bool().Draw(t, "twokeys")
	var sb strings.Builder
	sb.WriteString("k,k2,v\n")
	for r := 0; r < n; r++ {
		fmt.Fprintf(&sb, ",,%d\n", r)
	}
	qf := qframe.ReadCSV(strings.NewReader(sb.String()), csv.Types(map[string]string{"k": "string", "k2": "string", "v": "int"}))
	if qf.Err != nil {
		t.Fatalf("ReadCSV: %v", qf.Err)
	}
	if rapid.Bool().Draw(t, "sorted") {
		qf = qf.Sort(qframe.Order{Column: "v", Reverse: true})
	}
	keys := []string{"k"}
	if twoKeys {
		keys = []string{"k", "k2"}
	}
	null := rapid.Bool().Draw(t, "null")
	desc := fmt.Sprintf("CSV with %d rows whose key fields are all empty (typed string, EmptyNull off), keys %q, Null(%v)", n, keys, null)
	if distinct {
		d := qf.Distinct(groupby.Columns(keys...), groupby.Null(null))
		if d.Err != nil || d.Len() != 1 {
			t.Fatalf("Distinct returned %d rows (Err %v), all %d rows carry the key \"\"\n%s", d.Len(), d.Err, n, desc)
		}
		return
	}
	res := qf.GroupBy(groupby.Columns(keys...), groupby.Null(null)).Aggregate(qframe.Aggregation{Fn: "count", Column: "v", As: "n"})
	if res.Err != nil || res.Len() != 1 || res.MustIntView("n").ItemAt(0) != n {
		t.Fatalf("GroupBy/Aggregate returned %d groups (Err %v), all %d rows carry the key \"\"\n%s", res.Len(), res.Err, n, desc)
	}
}
