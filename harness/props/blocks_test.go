package props

import (
	"fmt"
	"os"
	"strconv"
	"testing"

	"github.com/tobgu/qframe"

	"verifharness/hx"
)

// Block sizes: once per run every operation shape of C02, C06, C07 (and constant columns of C08) is executed on
// frames of each of hx.BlockSizes rows (1023 … 65537) - in storage order and reversed - and compared with the model.
// The random cases mostly stay below a few hundred rows; code that processes rows in blocks, unrolled or in parallel
// chunks switches behaviour far above that, and its remainders are what goes wrong.

func blockFrames(n int, seed uint64) (tab hx.Table, frames []qframe.QFrame, tabs []hx.Table) {
	rng := hx.SplitMix(seed ^ uint64(n)*0x9e3779b97f4a7c15)
	tab = hx.Table{Cols: []hx.Col{
		hx.FillCol(&rng, "i1", hx.KInt, n, 5, nil),
		hx.FillCol(&rng, "f1", hx.KFloat, n, 5, nil),
		hx.FillCol(&rng, "b1", hx.KBool, n, 2, nil),
		hx.FillCol(&rng, "s1", hx.KString, n, 5, nil),
		hx.FillCol(&rng, "e1", hx.KEnum, n, 5, []string{"c", "a", "b", "", "B"}),
		hx.FillCol(&rng, "i2", hx.KInt, n, 7, nil),
		hx.FillCol(&rng, "f2", hx.KFloat, n, 7, nil),
		hx.FillCol(&rng, "b2", hx.KBool, n, 2, nil),
		hx.FillCol(&rng, "s2", hx.KString, n, 3, nil),
		hx.FillCol(&rng, "e2", hx.KEnum, n, 5, []string{"c", "a", "b", "", "B"}),
		{Name: "id", Kind: hx.KInt, I: hx.Iota(n)},
	}}
	plain := hx.Build(tab)
	rev := plain.Sort(qframe.Order{Column: "id", Reverse: true})
	sel := make([]int, n)
	for i := range sel {
		sel[i] = n - 1 - i
	}
	return tab, []qframe.QFrame{plain, rev}, []hx.Table{tab, tab.Rows(sel)}
}

func colOf(qf qframe.QFrame, name string) (hx.Col, error) {
	if qf.Err != nil {
		return hx.Col{}, qf.Err
	}
	obs, err := hx.Observe(qf.Select(name))
	if err != nil {
		return hx.Col{}, err
	}
	return obs.Cols[0], nil
}

func blockSeed() uint64 {
	s, _ := strconv.ParseUint(os.Getenv("VERIF_SHARD_SEED"), 10, 64)
	return s
}

func blockSizes() []int {
	if tier() == "thorough" {
		return hx.BlockSizes
	}
	return hx.BlockSizes[:len(hx.BlockSizes)-2] // 32769 and 65537 in the thorough tier only
}

func TestC06Blocks(t *testing.T) {
	var instrs []hx.Instr
	for _, src := range []string{"i1", "f1", "b1", "s1", "e1"} {
		for _, res := range []hx.Kind{hx.KInt, hx.KFloat, hx.KBool, hx.KString} {
			instrs = append(instrs, hx.Instr{Op: "fn1", Dst: "n1", Src1: src, Res: res})
		}
		instrs = append(instrs, hx.Instr{Op: "copy", Dst: "n1", Src1: src}, hx.Instr{Op: "fn1", Dst: src, Src1: src, Res: map[string]hx.Kind{"i1": hx.KInt, "f1": hx.KFloat, "b1": hx.KBool, "s1": hx.KString, "e1": hx.KString}[src]})
	}
	for _, p := range [][2]string{{"i1", "i2"}, {"f1", "f2"}, {"b1", "b2"}, {"s1", "s2"}, {"e1", "e2"}, {"i2", "i2"}} {
		instrs = append(instrs, hx.Instr{Op: "fn2", Dst: "n1", Src1: p[0], Src2: p[1]})
	}
	for _, op := range []string{"const", "fn0"} {
		instrs = append(instrs, hx.Instr{Op: op, Dst: "n1", CK: hx.KInt, CI: 7}, hx.Instr{Op: op, Dst: "n1", CK: hx.KFloat, CF: 2.5},
			hx.Instr{Op: op, Dst: "n1", CK: hx.KBool, CB: true}, hx.Instr{Op: op, Dst: "n1", CK: hx.KString, CS: hx.Sp("x"), AsPtr: true})
	}
	instrs = append(instrs, hx.Instr{Op: "upper", Dst: "n1", Src1: "s1"}, hx.Instr{Op: "upper", Dst: "e1", Src1: "e1"})
	runs := 0
	for _, n := range blockSizes() {
		_, frames, tabs := blockFrames(n, blockSeed())
		for fi, qf := range frames {
			in := tabs[fi]
			for _, ins := range instrs {
				res := qf.Apply(ins.Build(hx.KindMap(in)))
				got, err := colOf(res, ins.Dst)
				if err != nil {
					t.Fatalf("%d rows (frame %d), %s: %v", n, fi, ins.String(), err)
				}
				want := ins.Exec(in, hx.Iota(n)).MustCol(ins.Dst)
				if diff := hx.Diff(hx.Table{Cols: []hx.Col{want}}, hx.Table{Cols: []hx.Col{got}}); diff != "" {
					t.Fatalf("Apply(%s) on a frame of %d rows (reversed=%v) differs from the model: %s", ins.String(), n, fi == 1, diff)
				}
				runs++
			}
			rn, err := colOf(qf.WithRowNums("rn"), "rn")
			if err != nil || hx.Diff(hx.Table{Cols: []hx.Col{{Name: "rn", Kind: hx.KInt, I: hx.Iota(n)}}}, hx.Table{Cols: []hx.Col{rn}}) != "" {
				t.Fatalf("WithRowNums on a frame of %d rows (reversed=%v) differs from 0..n-1: %v", n, fi == 1, err)
			}
		}
	}
	evC06.CaseHash(true, 0x424c4f43, func() string {
		return fmt.Sprintf("block sizes: %d instruction shapes x %v rows x {storage order, reversed}: %d Apply calls compared with the model", len(instrs), blockSizes(), runs)
	}, "block-sizes")
}

func TestC07Blocks(t *testing.T) {
	col := func(n string) hx.Expr { return hx.Expr{Op: "col", Col: n} }
	call := func(fn string, args ...hx.Expr) hx.Expr { return hx.Expr{Op: "call", Fn: fn, Args: args} }
	ci := hx.Expr{Op: "const", CK: hx.KInt, CI: 3}
	cf := hx.Expr{Op: "const", CK: hx.KFloat, CF: 2.5}
	cs := hx.Expr{Op: "const", CK: hx.KString, CS: hx.Sp("-x")}
	exprs := []hx.Expr{
		call("+", col("i1"), col("i2")), call("-", col("i1"), col("i2")), call("*", col("i1"), ci), call("-", ci, col("i1")),
		call("+", col("f1"), col("f2")), call("*", cf, col("f1")), call("/", col("f1"), cf),
		call("&", col("b1"), col("b2")), call("|", col("b1"), col("b2")), call("!=", col("b1"), col("b2")),
		call("+", col("s1"), col("s2")), call("+", col("s1"), cs), call("+", cs, col("s1")),
		call("abs", col("i1")), call("abs", col("f1")), call("!", col("b1")), call("upper", col("s1")), call("len", col("s1")), call("str", col("i1")), call("float", col("i1")),
		call("+", call("*", col("i1"), col("i2")), call("abs", col("i2"))), call("+", col("i1"), col("i2"), col("i1"), ci),
	}
	runs := 0
	for _, n := range blockSizes() {
		_, frames, tabs := blockFrames(n, blockSeed())
		for fi, qf := range frames {
			in := tabs[fi]
			for _, e := range exprs {
				if _, err := e.Type(in, false); err != nil {
					t.Fatalf("harness: %s: %v", e.String(), err)
				}
				res := qf.Eval("n1", e.Build())
				got, err := colOf(res, "n1")
				if err != nil {
					t.Fatalf("%d rows (frame %d), Eval %s: %v", n, fi, e.String(), err)
				}
				want := e.EvalCol(in, "n1", false)
				if diff := hx.Diff(hx.Table{Cols: []hx.Col{want}}, hx.Table{Cols: []hx.Col{got}}); diff != "" {
					t.Fatalf("Eval(%s) on a frame of %d rows (reversed=%v) differs from the model: %s", e.String(), n, fi == 1, diff)
				}
				if len(res.ColumnNames()) != len(in.Cols)+1 {
					t.Fatalf("Eval(%s) on %d rows left columns %q", e.String(), n, res.ColumnNames())
				}
				runs++
			}
		}
	}
	evC07.CaseHash(true, 0x424c4f43, func() string {
		return fmt.Sprintf("block sizes: %d expressions x %v rows x {storage order, reversed}: %d Eval calls compared with the model", len(exprs), blockSizes(), runs)
	}, "block-sizes")
}

func TestC02Blocks(t *testing.T) {
	var clauses []hx.Clause
	for _, comp := range []string{"<", "<=", ">", ">=", "=", "!="} {
		clauses = append(clauses, hx.IntConst("i1", comp, 0), hx.FloatConst("f1", comp, 0.5), hx.StrConst("s1", comp, "s2"), hx.StrConst("e1", comp, "a"),
			hx.ColArg("i1", comp, "i2"), hx.ColArg("f1", comp, "f2"), hx.ColArg("i1", comp, "f1"), hx.ColArg("s1", comp, "s2"), hx.ColArg("e1", comp, "e2"))
	}
	for _, comp := range []string{"=", "!="} {
		clauses = append(clauses, hx.BoolConst("b1", comp, true), hx.ColArg("b1", comp, "b2"))
	}
	for _, c := range []string{"f1", "s1", "e1", "i1"} {
		clauses = append(clauses, hx.NoArg(c, "isnull"), hx.NoArg(c, "isnotnull"))
	}
	clauses = append(clauses,
		hx.Clause{Op: "leaf", Col: "i1", Comp: "in", Arg: "list", LI: []int{-1, 2, 64}},
		hx.Clause{Op: "leaf", Col: "s1", Comp: "in", Arg: "list", LS: []string{"s0", "s3", "zz"}},
		hx.Clause{Op: "leaf", Col: "e1", Comp: "in", Arg: "list", LS: []string{"a", "", "B"}},
		hx.IntConst("i1", "any_bits", 2), hx.IntConst("i1", "all_bits", 3),
		hx.StrConst("s1", "like", "s1"), hx.StrConst("s1", "like", "s%"), hx.StrConst("s1", "ilike", "%S1%"), hx.StrConst("e1", "like", "%b"), hx.StrConst("e1", "ilike", "B"), hx.StrConst("s1", "like", "s[12]"),
		hx.Clause{Op: "leaf", Col: "i1", Comp: "fn1", Arg: "none", Fn: 0}, hx.Clause{Op: "leaf", Col: "f1", Comp: "fn1", Arg: "none", Fn: 0},
		hx.Clause{Op: "leaf", Col: "s1", Comp: "fn1", Arg: "none", Fn: 0}, hx.Clause{Op: "leaf", Col: "b1", Comp: "fn1", Arg: "none", Fn: 0},
		hx.Clause{Op: "leaf", Col: "i1", Comp: "fn2", Arg: "col", ArgCol: "i2", Fn: 0}, hx.Clause{Op: "leaf", Col: "s1", Comp: "fn2", Arg: "col", ArgCol: "s2", Fn: 0},
	)
	n0 := len(clauses)
	for i := 0; i < n0; i++ {
		c := clauses[i]
		c.Inverse = true
		clauses = append(clauses, c)
	}
	clauses = append(clauses,
		hx.Clause{Op: "or", Kids: []hx.Clause{hx.IntConst("i1", "<", -1), hx.StrConst("s1", "=", "s1"), {Op: "and", Kids: []hx.Clause{hx.NoArg("f1", "isnull"), hx.BoolConst("b1", "=", false)}}}},
		hx.Clause{Op: "not", Kids: []hx.Clause{{Op: "and", Kids: []hx.Clause{hx.IntConst("i2", ">=", 0), hx.StrConst("e1", "!=", "a")}}}},
		hx.Clause{Op: "and", Kids: []hx.Clause{{Op: "null"}, hx.FloatConst("f2", ">", 0)}},
	)
	runs := 0
	for _, n := range blockSizes() {
		_, frames, tabs := blockFrames(n, blockSeed())
		for fi, qf := range frames {
			in := tabs[fi]
			ids := in.MustCol("id").I
			for _, cl := range clauses {
				res := qf.Filter(cl.Build(hx.KindMap(in)))
				if res.Err != nil {
					t.Fatalf("%d rows (frame %d), Filter %s: %v", n, fi, cl.String(), res.Err)
				}
				v, err := res.IntView("id")
				if err != nil {
					t.Fatal(err)
				}
				got := v.Slice()
				k := 0
				for r := 0; r < n; r++ {
					if cl.Eval(in, r) {
						if k >= len(got) || got[k] != ids[r] {
							t.Fatalf("Filter(%s) on a frame of %d rows (reversed=%v): kept row %d is not the model's (row id %d expected at position %d)", cl.String(), n, fi == 1, k, ids[r], k)
						}
						k++
					}
				}
				if k != len(got) {
					t.Fatalf("Filter(%s) on a frame of %d rows (reversed=%v) kept %d rows, the model keeps %d", cl.String(), n, fi == 1, len(got), k)
				}
				runs++
			}
		}
	}
	evC02.CaseHash(true, 0x424c4f43, func() string {
		return fmt.Sprintf("block sizes: %d clauses x %v rows x {storage order, reversed}: %d Filter calls compared with the model", len(clauses), blockSizes(), runs)
	}, "block-sizes")
}

func TestC08Blocks(t *testing.T) {
	runs := 0
	for _, n := range blockSizes() {
		qf := qframe.New(map[string]interface{}{
			"ci": qframe.ConstInt{Val: -7, Count: n}, "cf": qframe.ConstFloat{Val: 2.5, Count: n}, "cb": qframe.ConstBool{Val: true, Count: n},
			"cs": qframe.ConstString{Val: hx.Sp("k"), Count: n}, "cn": qframe.ConstString{Val: nil, Count: n}, "id": hx.Iota(n),
		})
		if qf.Err != nil || qf.Len() != n {
			t.Fatalf("New with constant columns of %d rows: err %v, len %d", n, qf.Err, qf.Len())
		}
		check := func(f qframe.QFrame, what string, lo, hi int) {
			obs, err := hx.Observe(f)
			if err != nil || obs.N() != hi-lo {
				t.Fatalf("%s of %d rows: %v, %d rows (want %d)", what, n, err, obs.N(), hi-lo)
			}
			for r := 0; r < obs.N(); r++ {
				if obs.MustCol("ci").I[r] != -7 || obs.MustCol("cf").F[r] != 2.5 || !obs.MustCol("cb").B[r] || obs.MustCol("cs").S[r] == nil || *obs.MustCol("cs").S[r] != "k" || obs.MustCol("cn").S[r] != nil || obs.MustCol("id").I[r] != lo+r {
					t.Fatalf("%s of %d rows: row %d holds %s %s %s %s %s id=%s", what, n, r, obs.MustCol("ci").Cell(r), obs.MustCol("cf").Cell(r), obs.MustCol("cb").Cell(r), obs.MustCol("cs").Cell(r), obs.MustCol("cn").Cell(r), obs.MustCol("id").Cell(r))
				}
			}
			runs++
		}
		check(qf, "New with constant columns", 0, n)
		check(qf.Slice(n/2-3, n), "Slice(n/2-3, n)", n/2-3, n)
		check(qf.Slice(1, n-1).Copy("cf", "cf").Select("ci", "cf", "cb", "cs", "cn", "id"), "Slice+Copy+Select", 1, n-1)
	}
	evC08New.CaseHash(true, 0x424c4f43, func() string {
		return fmt.Sprintf("block sizes: constant columns of %v rows through New, Slice, Copy, Select (%d frames read back)", blockSizes(), runs)
	}, "block-sizes")
}
