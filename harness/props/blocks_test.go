package props

import (
	"bytes"
	"encoding/binary"
	"fmt"
	"github.com/tobgu/qframe/config/csv"
	"github.com/tobgu/qframe/config/newqf"
	"hash/fnv"
	"io"
	"math"
	"os"
	"sort"
	"strconv"
	"strings"
	"sync"
	"testing"

	"github.com/tobgu/qframe"
	"github.com/tobgu/qframe/config/groupby"
	"github.com/tobgu/qframe/types"

	"verifharness/hx"
)

// Block sizes: once per run every operation shape of C02, C06, C07 (and constant columns of C08) is executed on
// frames of each of hx.BlockSizes rows (1023 … 65537) - in storage order and reversed - and compared with the model.
// The random cases mostly stay below a few hundred rows; code that processes rows in blocks, unrolled or in parallel
// chunks switches behaviour far above that, and its remainders are what goes wrong.

func blockFrames(n int, seed uint64) (tab hx.Table, frames []qframe.QFrame, tabs []hx.Table) {
	rng := hx.SplitMix(seed ^ uint64(n)*0x9e3779b97f4a7c15)
	tab = hx.Table{Cols: []hx.Col{
		hx.FillCol(&rng, "i1", hx.KInt, n, 5, nil),
		hx.FillCol(&rng, "f1", hx.KFloat, n, 5, nil),
		hx.FillCol(&rng, "b1", hx.KBool, n, 2, nil),
		hx.FillCol(&rng, "s1", hx.KString, n, 5, nil),
		hx.FillCol(&rng, "e1", hx.KEnum, n, 5, []string{"c", "a", "b", "", "B"}),
		hx.FillCol(&rng, "i2", hx.KInt, n, 7, nil),
		hx.FillCol(&rng, "f2", hx.KFloat, n, 7, nil),
		hx.FillCol(&rng, "b2", hx.KBool, n, 2, nil),
		hx.FillCol(&rng, "s2", hx.KString, n, 3, nil),
		hx.FillCol(&rng, "e2", hx.KEnum, n, 5, []string{"c", "a", "b", "", "B"}),
		{Name: "id", Kind: hx.KInt, I: hx.Iota(n)},
	}}
	plain := hx.Build(tab)
	rev := plain.Sort(qframe.Order{Column: "id", Reverse: true})
	sel := make([]int, n)
	for i := range sel {
		sel[i] = n - 1 - i
	}
	// a third arrangement: first and last row in place, everything between them shuffled (the index is then a
	// permutation of a consecutive range that starts with its minimum and ends with its maximum)
	inner := hx.Iota(n)
	for i := n - 2; i > 1; i-- {
		j := 1 + rng.Intn(i)
		inner[i], inner[j] = inner[j], inner[i]
	}
	rk := make([]int, n)
	for pos, row := range inner {
		rk[row] = pos
	}
	shuffled := hx.Build(tab.With(hx.Col{Name: "zzrk", Kind: hx.KInt, I: rk})).Sort(qframe.Order{Column: "zzrk"}).Select(tab.Names()...)
	return tab, []qframe.QFrame{plain, rev, shuffled}, []hx.Table{tab, tab.Rows(sel), tab.Rows(inner)}
}

func colOf(qf qframe.QFrame, name string) (hx.Col, error) {
	if qf.Err != nil {
		return hx.Col{}, qf.Err
	}
	obs, err := hx.Observe(qf.Select(name))
	if err != nil {
		return hx.Col{}, err
	}
	return obs.Cols[0], nil
}

func blockSeed() uint64 {
	s, _ := strconv.ParseUint(os.Getenv("VERIF_SHARD_SEED"), 10, 64)
	return s
}

func blockSizes() []int {
	small := []int{33, 65, 257} // just past the small thresholds (32, 64, 256)
	if tier() == "thorough" {
		return append(small, hx.BlockSizes...)
	}
	return append(small, hx.BlockSizes[:len(hx.BlockSizes)-2]...) // 32769 and 65537 in the thorough tier only
}

func TestC06Blocks(t *testing.T) {
	var instrs []hx.Instr
	for _, src := range []string{"i1", "f1", "b1", "s1", "e1"} {
		for _, res := range []hx.Kind{hx.KInt, hx.KFloat, hx.KBool, hx.KString} {
			instrs = append(instrs, hx.Instr{Op: "fn1", Dst: "n1", Src1: src, Res: res})
		}
		instrs = append(instrs, hx.Instr{Op: "copy", Dst: "n1", Src1: src}, hx.Instr{Op: "fn1", Dst: src, Src1: src, Res: map[string]hx.Kind{"i1": hx.KInt, "f1": hx.KFloat, "b1": hx.KBool, "s1": hx.KString, "e1": hx.KString}[src]})
	}
	for _, p := range [][2]string{{"i1", "i2"}, {"f1", "f2"}, {"b1", "b2"}, {"s1", "s2"}, {"e1", "e2"}, {"i2", "i2"}} {
		instrs = append(instrs, hx.Instr{Op: "fn2", Dst: "n1", Src1: p[0], Src2: p[1]})
	}
	for _, op := range []string{"const", "fn0"} {
		instrs = append(instrs, hx.Instr{Op: op, Dst: "n1", CK: hx.KInt, CI: 7}, hx.Instr{Op: op, Dst: "n1", CK: hx.KFloat, CF: 2.5},
			hx.Instr{Op: op, Dst: "n1", CK: hx.KBool, CB: true}, hx.Instr{Op: op, Dst: "n1", CK: hx.KString, CS: hx.Sp("x"), AsPtr: true})
	}
	instrs = append(instrs, hx.Instr{Op: "upper", Dst: "n1", Src1: "s1"}, hx.Instr{Op: "upper", Dst: "e1", Src1: "e1"})
	runs := 0
	for _, n := range blockSizes() {
		_, frames, tabs := blockFrames(n, blockSeed())
		for fi, qf := range frames {
			in := tabs[fi]
			for _, ins := range instrs {
				res := qf.Apply(ins.Build(hx.KindMap(in)))
				got, err := colOf(res, ins.Dst)
				if err != nil {
					t.Fatalf("%d rows (frame %d), %s: %v", n, fi, ins.String(), err)
				}
				want := ins.Exec(in, hx.Iota(n)).MustCol(ins.Dst)
				if diff := hx.Diff(hx.Table{Cols: []hx.Col{want}}, hx.Table{Cols: []hx.Col{got}}); diff != "" {
					t.Fatalf("Apply(%s) on a frame of %d rows (arrangement %d: 0 storage order, 1 reversed, 2 inner rows shuffled) differs from the model: %s", ins.String(), n, fi, diff)
				}
				runs++
			}
			rn, err := colOf(qf.WithRowNums("rn"), "rn")
			if err != nil || hx.Diff(hx.Table{Cols: []hx.Col{{Name: "rn", Kind: hx.KInt, I: hx.Iota(n)}}}, hx.Table{Cols: []hx.Col{rn}}) != "" {
				t.Fatalf("WithRowNums on a frame of %d rows (arrangement %d) differs from 0..n-1: %v", n, fi, err)
			}
		}
	}
	evC06.CaseHash(true, 0x424c4f43, func() string {
		return fmt.Sprintf("block sizes: %d instruction shapes x %v rows x {storage order, reversed}: %d Apply calls compared with the model", len(instrs), blockSizes(), runs)
	}, "block-sizes")
}

func TestC07Blocks(t *testing.T) {
	col := func(n string) hx.Expr { return hx.Expr{Op: "col", Col: n} }
	call := func(fn string, args ...hx.Expr) hx.Expr { return hx.Expr{Op: "call", Fn: fn, Args: args} }
	ci := hx.Expr{Op: "const", CK: hx.KInt, CI: 3}
	cf := hx.Expr{Op: "const", CK: hx.KFloat, CF: 2.5}
	cs := hx.Expr{Op: "const", CK: hx.KString, CS: hx.Sp("-x")}
	exprs := []hx.Expr{
		call("+", col("i1"), col("i2")), call("-", col("i1"), col("i2")), call("*", col("i1"), ci), call("-", ci, col("i1")),
		call("+", col("f1"), col("f2")), call("*", cf, col("f1")), call("/", col("f1"), cf),
		call("&", col("b1"), col("b2")), call("|", col("b1"), col("b2")), call("!=", col("b1"), col("b2")),
		call("+", col("s1"), col("s2")), call("+", col("s1"), cs), call("+", cs, col("s1")),
		call("abs", col("i1")), call("abs", col("f1")), call("!", col("b1")), call("upper", col("s1")), call("len", col("s1")), call("str", col("i1")), call("float", col("i1")),
		call("+", call("*", col("i1"), col("i2")), call("abs", col("i2"))), call("+", col("i1"), col("i2"), col("i1"), ci),
		// neutral constants are still operands (-0.0 + 0.0 is +0.0)
		call("+", col("f1"), hx.Expr{Op: "const", CK: hx.KFloat, CF: 0}), call("-", col("f1"), hx.Expr{Op: "const", CK: hx.KFloat, CF: 0}),
		call("*", col("f1"), hx.Expr{Op: "const", CK: hx.KFloat, CF: 1}), call("*", hx.Expr{Op: "const", CK: hx.KFloat, CF: 1}, col("f2")),
		call("+", col("i1"), hx.Expr{Op: "const", CK: hx.KInt, CI: 0}), call("*", hx.Expr{Op: "const", CK: hx.KInt, CI: 1}, col("i1")),
	}
	runs := 0
	for _, n := range blockSizes() {
		_, frames, tabs := blockFrames(n, blockSeed())
		for fi, qf := range frames {
			in := tabs[fi]
			for _, e := range exprs {
				if _, err := e.Type(in, false); err != nil {
					t.Fatalf("harness: %s: %v", e.String(), err)
				}
				res := qf.Eval("n1", e.Build())
				got, err := colOf(res, "n1")
				if err != nil {
					t.Fatalf("%d rows (frame %d), Eval %s: %v", n, fi, e.String(), err)
				}
				want := e.EvalCol(in, "n1", false)
				if diff := hx.Diff(hx.Table{Cols: []hx.Col{want}}, hx.Table{Cols: []hx.Col{got}}); diff != "" {
					t.Fatalf("Eval(%s) on a frame of %d rows (arrangement %d: 0 storage order, 1 reversed, 2 inner rows shuffled) differs from the model: %s", e.String(), n, fi, diff)
				}
				if len(res.ColumnNames()) != len(in.Cols)+1 {
					t.Fatalf("Eval(%s) on %d rows left columns %q", e.String(), n, res.ColumnNames())
				}
				runs++
			}
		}
	}
	// rows a filter has removed are not evaluated: integer division where only excluded rows hold a zero divisor
	for _, n := range append([]int{16, 17, 40, 100}, blockSizes()...) {
		x, y := make([]int, n), make([]int, n)
		for i := range x {
			x[i] = i*7 - 50
			y[i] = i%5 + 1
			if i%50 == 13 || i == n-1 {
				y[i] = 0
			}
		}
		qf := qframe.New(map[string]interface{}{"x": x, "y": y})
		var res qframe.QFrame
		if perr := hx.Safely(func() {
			res = qf.Filter(qframe.Filter{Column: "y", Comparator: "!=", Arg: 0}).Eval("q", qframe.Expr("/", types.ColumnName("x"), types.ColumnName("y")))
		}); perr != nil {
			t.Fatalf("Filter(y != 0).Eval(x / y) on %d rows panicked (a removed row was evaluated?): %v", n, perr)
		}
		if res.Err != nil {
			t.Fatalf("Filter(y != 0).Eval(x / y) on %d rows: %v", n, res.Err)
		}
		qv, xv, yv := res.MustIntView("q"), res.MustIntView("x"), res.MustIntView("y")
		for r := 0; r < qv.Len(); r++ {
			if yv.ItemAt(r) == 0 || qv.ItemAt(r) != xv.ItemAt(r)/yv.ItemAt(r) {
				t.Fatalf("Filter(y != 0).Eval(x / y) on %d rows: row %d holds x=%d y=%d q=%d", n, r, xv.ItemAt(r), yv.ItemAt(r), qv.ItemAt(r))
			}
		}
		runs++
	}
	evC07.CaseHash(true, 0x424c4f43, func() string {
		return fmt.Sprintf("block sizes: %d expressions x %v rows x {storage order, reversed}: %d Eval calls compared with the model", len(exprs), blockSizes(), runs)
	}, "block-sizes")
}

func TestC02Blocks(t *testing.T) {
	var clauses []hx.Clause
	for _, comp := range []string{"<", "<=", ">", ">=", "=", "!="} {
		clauses = append(clauses, hx.IntConst("i1", comp, 0), hx.FloatConst("f1", comp, 0.5), hx.StrConst("s1", comp, "s2"), hx.StrConst("e1", comp, "a"),
			hx.ColArg("i1", comp, "i2"), hx.ColArg("f1", comp, "f2"), hx.ColArg("i1", comp, "f1"), hx.ColArg("s1", comp, "s2"), hx.ColArg("e1", comp, "e2"))
	}
	for _, comp := range []string{"=", "!="} {
		clauses = append(clauses, hx.BoolConst("b1", comp, true), hx.ColArg("b1", comp, "b2"))
	}
	for _, c := range []string{"f1", "s1", "e1", "i1"} {
		clauses = append(clauses, hx.NoArg(c, "isnull"), hx.NoArg(c, "isnotnull"))
	}
	clauses = append(clauses,
		hx.Clause{Op: "leaf", Col: "i1", Comp: "in", Arg: "list", LI: []int{-1, 2, 64}},
		hx.Clause{Op: "leaf", Col: "s1", Comp: "in", Arg: "list", LS: []string{"s0", "s3", "zz"}},
		hx.Clause{Op: "leaf", Col: "e1", Comp: "in", Arg: "list", LS: []string{"a", "", "B"}},
		hx.IntConst("i1", "any_bits", 2), hx.IntConst("i1", "all_bits", 3),
		hx.StrConst("s1", "like", "s1"), hx.StrConst("s1", "like", "s%"), hx.StrConst("s1", "ilike", "%S1%"), hx.StrConst("e1", "like", "%b"), hx.StrConst("e1", "ilike", "B"), hx.StrConst("s1", "like", "s[12]"),
		hx.Clause{Op: "leaf", Col: "i1", Comp: "fn1", Arg: "none", Fn: 0}, hx.Clause{Op: "leaf", Col: "f1", Comp: "fn1", Arg: "none", Fn: 0},
		hx.Clause{Op: "leaf", Col: "s1", Comp: "fn1", Arg: "none", Fn: 0}, hx.Clause{Op: "leaf", Col: "b1", Comp: "fn1", Arg: "none", Fn: 0},
		hx.Clause{Op: "leaf", Col: "i1", Comp: "fn2", Arg: "col", ArgCol: "i2", Fn: 0}, hx.Clause{Op: "leaf", Col: "s1", Comp: "fn2", Arg: "col", ArgCol: "s2", Fn: 0},
	)
	n0 := len(clauses)
	for i := 0; i < n0; i++ {
		c := clauses[i]
		c.Inverse = true
		clauses = append(clauses, c)
	}
	clauses = append(clauses,
		hx.Clause{Op: "or", Kids: []hx.Clause{hx.IntConst("i1", "<", -1), hx.StrConst("s1", "=", "s1"), {Op: "and", Kids: []hx.Clause{hx.NoArg("f1", "isnull"), hx.BoolConst("b1", "=", false)}}}},
		hx.Clause{Op: "not", Kids: []hx.Clause{{Op: "and", Kids: []hx.Clause{hx.IntConst("i2", ">=", 0), hx.StrConst("e1", "!=", "a")}}}},
		hx.Clause{Op: "and", Kids: []hx.Clause{{Op: "null"}, hx.FloatConst("f2", ">", 0)}},
	)
	runs := 0
	for _, n := range blockSizes() {
		_, frames, tabs := blockFrames(n, blockSeed())
		for fi, qf := range frames {
			in := tabs[fi]
			ids := in.MustCol("id").I
			for _, cl := range clauses {
				res := qf.Filter(cl.Build(hx.KindMap(in)))
				if res.Err != nil {
					t.Fatalf("%d rows (frame %d), Filter %s: %v", n, fi, cl.String(), res.Err)
				}
				v, err := res.IntView("id")
				if err != nil {
					t.Fatal(err)
				}
				got := v.Slice()
				k := 0
				for r := 0; r < n; r++ {
					if cl.Eval(in, r) {
						if k >= len(got) || got[k] != ids[r] {
							t.Fatalf("Filter(%s) on a frame of %d rows (arrangement %d): kept row %d is not the model's (row id %d expected at position %d)", cl.String(), n, fi, k, ids[r], k)
						}
						k++
					}
				}
				if k != len(got) {
					t.Fatalf("Filter(%s) on a frame of %d rows (arrangement %d) kept %d rows, the model keeps %d", cl.String(), n, fi, len(got), k)
				}
				runs++
			}
		}
	}
	evC02.CaseHash(true, 0x424c4f43, func() string {
		return fmt.Sprintf("block sizes: %d clauses x %v rows x {storage order, reversed}: %d Filter calls compared with the model", len(clauses), blockSizes(), runs)
	}, "block-sizes")
}

func TestC08Blocks(t *testing.T) {
	runs := 0
	for _, n := range blockSizes() {
		qf := qframe.New(map[string]interface{}{
			"ci": qframe.ConstInt{Val: -7, Count: n}, "cf": qframe.ConstFloat{Val: 2.5, Count: n}, "cb": qframe.ConstBool{Val: true, Count: n},
			"cs": qframe.ConstString{Val: hx.Sp("k"), Count: n}, "cn": qframe.ConstString{Val: nil, Count: n}, "id": hx.Iota(n),
		})
		if qf.Err != nil || qf.Len() != n {
			t.Fatalf("New with constant columns of %d rows: err %v, len %d", n, qf.Err, qf.Len())
		}
		check := func(f qframe.QFrame, what string, lo, hi int) {
			obs, err := hx.Observe(f)
			if err != nil || obs.N() != hi-lo {
				t.Fatalf("%s of %d rows: %v, %d rows (want %d)", what, n, err, obs.N(), hi-lo)
			}
			for r := 0; r < obs.N(); r++ {
				if obs.MustCol("ci").I[r] != -7 || obs.MustCol("cf").F[r] != 2.5 || !obs.MustCol("cb").B[r] || obs.MustCol("cs").S[r] == nil || *obs.MustCol("cs").S[r] != "k" || obs.MustCol("cn").S[r] != nil || obs.MustCol("id").I[r] != lo+r {
					t.Fatalf("%s of %d rows: row %d holds %s %s %s %s %s id=%s", what, n, r, obs.MustCol("ci").Cell(r), obs.MustCol("cf").Cell(r), obs.MustCol("cb").Cell(r), obs.MustCol("cs").Cell(r), obs.MustCol("cn").Cell(r), obs.MustCol("id").Cell(r))
				}
			}
			runs++
		}
		check(qf, "New with constant columns", 0, n)
		check(qf.Slice(n/2-3, n), "Slice(n/2-3, n)", n/2-3, n)
		check(qf.Slice(1, n-1).Copy("cf", "cf").Select("ci", "cf", "cb", "cs", "cn", "id"), "Slice+Copy+Select", 1, n-1)
		// small slices of a big frame, anywhere in it
		check(qf.Slice(n/3, n/3+9), "Slice(n/3, n/3+9)", n/3, n/3+9)
		check(qf.Slice(n-3, n), "Slice(n-3, n)", n-3, n)
		check(qf.Slice(7, 8).Copy("ci", "ci"), "Slice(7,8)+Copy", 7, 8)
		w := (n - 1) / 4
		check(qf.Slice(1, n).Slice(n/2, n/2+w), "Slice(1,n).Slice(n/2, n/2+(n-1)/4)", n/2+1, n/2+1+w)
	}
	evC08New.CaseHash(true, 0x424c4f43, func() string {
		return fmt.Sprintf("block sizes: constant columns of %v rows through New, Slice, Copy, Select (%d frames read back)", blockSizes(), runs)
	}, "block-sizes")
}

// quickSnap is a cheap fingerprint of everything observable about a frame (names, types, Len, every cell through the
// typed views), for the block-size persistence pass.
func quickSnap(qf qframe.QFrame) uint64 {
	h := fnv.New64a()
	w := func(s string) { _, _ = h.Write([]byte(s)); _, _ = h.Write([]byte{0}) }
	if qf.Err != nil {
		w("err:" + qf.Err.Error())
		return h.Sum64()
	}
	w(strconv.Itoa(qf.Len()))
	var num [8]byte
	for i, name := range qf.ColumnNames() {
		w(name)
		typ := qf.ColumnTypes()[i]
		w(string(typ))
		switch typ {
		case types.Int:
			v, _ := qf.IntView(name)
			for _, x := range v.Slice() {
				binary.LittleEndian.PutUint64(num[:], uint64(x))
				_, _ = h.Write(num[:])
			}
		case types.Float:
			v, _ := qf.FloatView(name)
			for _, x := range v.Slice() {
				binary.LittleEndian.PutUint64(num[:], math.Float64bits(x))
				_, _ = h.Write(num[:])
			}
		case types.Bool:
			v, _ := qf.BoolView(name)
			for _, x := range v.Slice() {
				if x {
					_, _ = h.Write([]byte{1})
				} else {
					_, _ = h.Write([]byte{0})
				}
			}
		case types.String:
			v, _ := qf.StringView(name)
			for _, p := range v.Slice() {
				if p == nil {
					_, _ = h.Write([]byte{0xff, 0})
				} else {
					w(*p)
				}
			}
		case types.Enum:
			v, _ := qf.EnumView(name)
			for _, p := range v.Slice() {
				if p == nil {
					_, _ = h.Write([]byte{0xff, 0})
				} else {
					w(*p)
				}
			}
		}
	}
	return h.Sum64()
}

// TestC01Blocks: persistence on big frames. For each block size a small family (the frame in storage order, reversed,
// a slice and a projection of the reversed one) is fingerprinted; then one operation of every kind is applied to the
// reversed frame and all fingerprints are taken again.
func TestC01Blocks(t *testing.T) {
	ops := []struct {
		name string
		run  func(qf qframe.QFrame)
	}{
		{"Filter", func(qf qframe.QFrame) {
			_ = qf.Filter(qframe.Or(qframe.Filter{Column: "i1", Comparator: ">", Arg: 0}, qframe.Not(qframe.Filter{Column: "s1", Comparator: "like", Arg: "s1%"})))
		}},
		{"Sort", func(qf qframe.QFrame) {
			_ = qf.Sort(qframe.Order{Column: "s1"}, qframe.Order{Column: "f1", Reverse: true})
		}},
		{"Distinct one key", func(qf qframe.QFrame) { _ = qf.Distinct(groupby.Columns("i1")) }},
		{"Distinct string key", func(qf qframe.QFrame) { _ = qf.Distinct(groupby.Columns("s1"), groupby.Null(true)) }},
		{"Distinct two keys", func(qf qframe.QFrame) { _ = qf.Distinct(groupby.Columns("e1", "b1")) }},
		{"Distinct all", func(qf qframe.QFrame) { _ = qf.Distinct() }},
		{"GroupBy+Aggregate+QFrames", func(qf qframe.QFrame) {
			g := qf.GroupBy(groupby.Columns("i2"))
			_ = g.Aggregate(qframe.Aggregation{Fn: "sum", Column: "f1"}, qframe.Aggregation{Fn: "max", Column: "i1"}, qframe.Aggregation{Fn: "count", Column: "s1", As: "n"})
			_, _ = g.QFrames()
		}},
		{"groups handed out by QFrames stay what they were while Aggregate runs (two big groups, one group of all rows)", func(qf qframe.QFrame) {
			for _, cols := range [][]string{{"b1"}, nil, {"e1"}} {
				var g qframe.Grouper
				if cols == nil {
					g = qf.GroupBy()
				} else {
					g = qf.GroupBy(groupby.Columns(cols...), groupby.Null(true))
				}
				frames, err := g.QFrames()
				if err != nil {
					panic(err)
				}
				before := make([]uint64, len(frames))
				for i, f := range frames {
					before[i] = quickSnap(f)
				}
				_ = g.Aggregate(qframe.Aggregation{Fn: "sum", Column: "i1"}, qframe.Aggregation{Fn: hx.AggLastI, Column: "id", As: "lastid"}, qframe.Aggregation{Fn: "count", Column: "s1", As: "n"})
				_ = g.Aggregate(qframe.Aggregation{Fn: "max", Column: "f1"})
				_ = g.Aggregate(qframe.Aggregation{Fn: "sum", Column: "f1"}, qframe.Aggregation{Fn: "avg", Column: "f2"}, qframe.Aggregation{Fn: "min", Column: "i2"}, qframe.Aggregation{Fn: "majority", Column: "b1"})
				for i, f := range frames {
					if quickSnap(f) != before[i] {
						panic(fmt.Sprintf("VIOLATION: group frame %d of GroupBy(%q).QFrames() changed while Aggregate ran on the grouper", i, cols))
					}
				}
			}
		}},
		{"GroupBy enum key", func(qf qframe.QFrame) {
			_ = qf.GroupBy(groupby.Columns("e1"), groupby.Null(true)).Aggregate(qframe.Aggregation{Fn: "majority", Column: "b1"})
		}},
		{"Apply", func(qf qframe.QFrame) {
			_ = qf.Apply(qframe.Instruction{Fn: hx.Int2, DstCol: "i1", SrcCol1: "i1", SrcCol2: "i2"}, qframe.Instruction{Fn: "ToUpper", DstCol: "s1", SrcCol1: "s1"},
				qframe.Instruction{Fn: "ToUpper", DstCol: "e1", SrcCol1: "e1"}, qframe.Instruction{Fn: 2.5, DstCol: "f1"})
		}},
		{"FilteredApply", func(qf qframe.QFrame) {
			_ = qf.FilteredApply(qframe.Filter{Column: "b1", Comparator: "=", Arg: true}, qframe.Instruction{Fn: hx.FloatToFloat, DstCol: "f1", SrcCol1: "f1"})
		}},
		{"Eval", func(qf qframe.QFrame) {
			_ = qf.Eval("i1", qframe.Expr("+", qframe.Expr("abs", types.ColumnName("i1")), types.ColumnName("i2"), 3))
		}},
		{"Copy/WithRowNums/Select/Drop/Slice", func(qf qframe.QFrame) {
			_ = qf.Copy("i1", "i2").WithRowNums("i2").Select("i2", "i1", "s1").Drop("s1").Slice(1, qf.Len()-1)
		}},
		{"ToCSV/ToJSON/String/Equals", func(qf qframe.QFrame) {
			_ = qf.ToCSV(io.Discard)
			_ = qf.ToJSON(io.Discard)
			_ = qf.String()
			_, _ = qf.Equals(qf)
		}},
		{"Sort into the opposite and into the present order", func(qf qframe.QFrame) {
			// the receiver is ordered on id descending: the requested order is exactly the opposite / exactly what it has
			_ = qf.Sort(qframe.Order{Column: "id"})
			_ = qf.Sort(qframe.Order{Column: "id", Reverse: true})
		}},
		{"results of earlier calls stay what they were while later calls run", func(qf qframe.QFrame) {
			big := qframe.Filter{Column: "id", Comparator: ">=", Arg: 5}
			makers := []func() qframe.QFrame{
				func() qframe.QFrame { return qf.Filter(qframe.And(big, qframe.Null())) },
				func() qframe.QFrame { return qf.Filter(qframe.And(qframe.Null(), big, qframe.Null())) },
				func() qframe.QFrame { return qf.Filter(qframe.Or(big, qframe.Null())) },
				func() qframe.QFrame { return qf.Filter(qframe.Not(qframe.Not(big))) },
				func() qframe.QFrame { return qf.Sort(qframe.Order{Column: "id"}) },
				func() qframe.QFrame { return qf.Distinct(groupby.Columns("id")) },
				func() qframe.QFrame { return qf.Slice(2, qf.Len()-2) },
			}
			// (the later calls follow at once, several times: storage that was handed back for reuse is taken by the next taker)
			for mi, mk := range makers {
				for attempt := 0; attempt < 4; attempt++ {
					r := mk()
					before := r.MustIntView("id").Slice()
					_ = qf.Filter(qframe.Filter{Column: "id", Comparator: "<", Arg: qf.Len() - 3}) // other rows at the same positions
					_ = qf.Filter(qframe.Filter{Column: "id", Comparator: "any_bits", Arg: 6})
					_ = qf.Filter(qframe.And(qframe.Filter{Column: "i1", Comparator: "<", Arg: 100}, qframe.Filter{Column: "id", Comparator: ">", Arg: 200}))
					_ = qf.Sort(qframe.Order{Column: "i1"}, qframe.Order{Column: "id"})
					_ = r.Filter(qframe.Filter{Column: "id", Comparator: "any_bits", Arg: 1})
					after := r.MustIntView("id").Slice()
					if len(after) != len(before) {
						panic(fmt.Sprintf("VIOLATION: result %d of an earlier call changed its length (%d -> %d) while later calls ran", mi, len(before), len(after)))
					}
					for i := range before {
						if before[i] != after[i] {
							panic(fmt.Sprintf("VIOLATION: result %d of an earlier call changed at row %d (id %d -> %d) while later calls ran on the same receiver", mi, i, before[i], after[i]))
						}
					}
				}
			}
		}},
		{"columns computed by earlier Apply/Eval calls stay what they were while later ones run", func(qf qframe.QFrame) {
			two := []qframe.Instruction{
				{Fn: hx.Bool2, DstCol: "n", SrcCol1: "b1", SrcCol2: "b2"},
				{Fn: hx.Int2, DstCol: "n", SrcCol1: "i1", SrcCol2: "i2"},
				{Fn: hx.Float2, DstCol: "n", SrcCol1: "f1", SrcCol2: "f2"},
				{Fn: hx.Str2, DstCol: "n", SrcCol1: "s1", SrcCol2: "s2"},
				{Fn: hx.BoolToBool, DstCol: "n", SrcCol1: "b1"},
				{Fn: hx.IntToInt, DstCol: "n", SrcCol1: "i1"},
				{Fn: hx.FloatToStr, DstCol: "n", SrcCol1: "f1"},
			}
			other := []qframe.Instruction{
				{Fn: hx.Bool2, DstCol: "m", SrcCol1: "b2", SrcCol2: "b1"},
				{Fn: hx.Int2, DstCol: "m", SrcCol1: "i2", SrcCol2: "i1"},
				{Fn: hx.Float2, DstCol: "m", SrcCol1: "f2", SrcCol2: "f1"},
				{Fn: hx.Str2, DstCol: "m", SrcCol1: "s2", SrcCol2: "s1"},
				{Fn: hx.BoolToBool, DstCol: "m", SrcCol1: "b2"},
				{Fn: hx.IntToInt, DstCol: "m", SrcCol1: "i2"},
				{Fn: hx.FloatToStr, DstCol: "m", SrcCol1: "f2"},
			}
			for i, in := range two {
				r := qf.Apply(in)
				if r.Err != nil {
					panic(r.Err)
				}
				before := quickSnap(r.Select("id", "n"))
				for _, o := range other {
					_ = qf.Apply(o)
					_ = r.Apply(o)
				}
				_ = qf.Eval("m", qframe.Expr("&", types.ColumnName("b2"), types.ColumnName("b1")))
				_ = qf.Eval("m", qframe.Expr("+", types.ColumnName("i2"), types.ColumnName("i1")))
				if quickSnap(r.Select("id", "n")) != before {
					panic(fmt.Sprintf("VIOLATION: the column computed by an earlier Apply (instruction %d) changed while later Apply/Eval calls ran", i))
				}
			}
		}},
		{"views", func(qf qframe.QFrame) {
			if v, err := qf.IntView("i1"); err == nil {
				s := v.Slice()
				sort.Ints(s)
			}
			if v, err := qf.FloatView("f1"); err == nil {
				s := v.Slice()
				for i := range s {
					s[i] = -1
				}
			}
		}},
	}
	sizes := []int{1023, 1024, 1025, 2048, 4097, 16385}
	if tier() == "thorough" {
		sizes = blockSizes()
	}
	runs := 0
	for _, n := range sizes {
		_, frames, _ := blockFrames(n, blockSeed())
		rev := frames[1]
		family := []qframe.QFrame{frames[0], rev, rev.Slice(n/3, n-7), rev.Select("s1", "i1", "e1", "id")}
		names := []string{"the frame in storage order", "the reversed frame (receiver)", "a slice of the receiver", "a projection of the receiver"}
		before := make([]uint64, len(family))
		for i, f := range family {
			before[i] = quickSnap(f)
		}
		for _, op := range ops {
			if perr := hx.Safely(func() { op.run(rev) }); perr != nil {
				t.Fatalf("%s on a frame of %d rows: %v", op.name, n, perr)
			}
			for i, f := range family {
				if quickSnap(f) != before[i] {
					t.Fatalf("%s applied to a frame of %d rows changed %s", op.name, n, names[i])
				}
			}
			runs++
		}
	}
	// frames whose columns were not assembled by New: read from CSV documents of 200 and 1200 rows (the longer ones with a
	// RowCountHint, strings untyped), with string columns written by the ToUpper built-in. Results and frames obtained
	// earlier are fingerprinted again after a sibling was upper-cased, after the same built-in ran on other rows of the
	// same column, and after the next document was read.
	csvDoc := func(rows int, tag string) string {
		var sb strings.Builder
		sb.WriteString("id,k,s\n")
		for r := 0; r < rows; r++ {
			fmt.Fprintf(&sb, "%d,%d,%s-word%d\n", r, (r*7919)%rows, tag, r%13)
		}
		return sb.String()
	}
	upper := qframe.Instruction{Fn: "ToUpper", DstCol: "u", SrcCol1: "s"}
	upperInPlace := qframe.Instruction{Fn: "ToUpper", DstCol: "s", SrcCol1: "s"}
	for _, rows := range []int{200, 1200, 2100} {
		var fns []csv.ConfigFunc
		if rows > 1000 {
			fns = append(fns, csv.RowCountHint(2001))
		}
		fa := qframe.ReadCSV(strings.NewReader(csvDoc(rows, "alpha")), fns...)
		if fa.Err != nil {
			t.Fatal(fa.Err)
		}
		snapA := quickSnap(fa)
		r1 := fa.Sort(qframe.Order{Column: "k"}).Apply(upper)
		r1b := fa.Apply(upperInPlace)
		snap1, snap1b := quickSnap(r1), quickSnap(r1b)
		r2 := fa.Filter(qframe.Filter{Column: "k", Comparator: "<", Arg: rows / 2}).Apply(upper)
		r3 := r1b.Sort(qframe.Order{Column: "k", Reverse: true}).Apply(upperInPlace).Sort(qframe.Order{Column: "id"}).Apply(upper)
		if r2.Err != nil || r3.Err != nil {
			t.Fatalf("ToUpper on CSV-read frames: %v %v", r2.Err, r3.Err)
		}
		fb := qframe.ReadCSV(strings.NewReader(csvDoc(rows, "BRAVO-other-document")), fns...)
		_ = fb.Apply(upper)
		if quickSnap(fa) != snapA || quickSnap(r1) != snap1 || quickSnap(r1b) != snap1b {
			t.Fatalf("VIOLATION: a frame read from a CSV document of %d rows, or the result of the ToUpper built-in on it, changed while siblings were upper-cased and the next document was read", rows)
		}
		// (and what the second ToUpper made of a column that the first one wrote in another row order is the upper case
		// of every cell)
		sv, uv := r3.MustStringView("s"), r3.MustStringView("u")
		for i := 0; i < r3.Len(); i++ {
			if w := strings.ToUpper(*sv.ItemAt(i)); uv.ItemAt(i) == nil || *uv.ItemAt(i) != w || !strings.HasPrefix(w, "ALPHA-WORD") {
				t.Fatalf("VIOLATION: ToUpper of a column that an earlier ToUpper wrote in another row order: row %d holds %v, want %q", i, uv.ItemAt(i), w)
			}
		}
	}
	evC01.CaseHash(true, 0x424c4f43, func() string {
		return fmt.Sprintf("block sizes: %d operations x %v rows, a family of 4 frames fingerprinted before and after each (%d runs); CSV-read frames of 200/1200/2100 rows around ToUpper and further reads", len(ops), sizes, runs)
	}, "block-sizes")
}

// TestC11Blocks (built with -race like all of C11): big frames, where an implementation may split one call over
// goroutines of its own. Every operation runs alone (the detector then watches the call's internal concurrency) and
// four times at once on frames sharing storage; results must equal the solo result; an invalid aggregation among valid
// ones must still be reported, wherever it stands.
func TestC11Blocks(t *testing.T) {
	sizes := []int{16384, 16391, 20003}
	if tier() == "thorough" {
		sizes = append(sizes, 32769, 65537)
	}
	wsum := func(xs []int) int {
		s := 0
		for i, x := range xs {
			s += (i + 1) * x
		}
		return s
	}
	runs := 0
	for _, n := range sizes {
		_, frames, _ := blockFrames(n, blockSeed())
		rev := frames[1]
		sl := rev.Slice(3, n-5)
		ops := []struct {
			name string
			run  func(qf qframe.QFrame) string
		}{
			{"Aggregate(sum,max,count,user)", func(qf qframe.QFrame) string {
				return multiset(qf.GroupBy(groupby.Columns("i2")).Aggregate(qframe.Aggregation{Fn: "sum", Column: "i1"}, qframe.Aggregation{Fn: "max", Column: "f1"},
					qframe.Aggregation{Fn: "count", Column: "s1", As: "n"}, qframe.Aggregation{Fn: wsum, Column: "id", As: "w"}))
			}},
			{"Aggregate(invalid first)", func(qf qframe.QFrame) string {
				r := qf.GroupBy(groupby.Columns("i2")).Aggregate(qframe.Aggregation{Fn: "nosuchfn", Column: "i1"}, qframe.Aggregation{Fn: "max", Column: "f1"}, qframe.Aggregation{Fn: wsum, Column: "id", As: "w"})
				return fmt.Sprint(r.Err != nil, r.Len())
			}},
			{"Aggregate(invalid in the middle)", func(qf qframe.QFrame) string {
				r := qf.GroupBy(groupby.Columns("e1", "b1")).Aggregate(qframe.Aggregation{Fn: "sum", Column: "i1"}, qframe.Aggregation{Fn: "sum", Column: "s1", As: "bad"}, qframe.Aggregation{Fn: "min", Column: "f2"})
				return fmt.Sprint(r.Err != nil, r.Len())
			}},
			{"Apply fn2 + fn1", func(qf qframe.QFrame) string {
				return fmt.Sprint(quickSnap(qf.Apply(qframe.Instruction{Fn: hx.Int2, DstCol: "n1", SrcCol1: "i1", SrcCol2: "i2"}, qframe.Instruction{Fn: hx.FloatToStr, DstCol: "n2", SrcCol1: "f1"})))
			}},
			{"Eval", func(qf qframe.QFrame) string {
				return fmt.Sprint(quickSnap(qf.Eval("n1", qframe.Expr("+", qframe.Expr("str", types.ColumnName("f1")), types.ColumnName("s1")))))
			}},
			{"Filter", func(qf qframe.QFrame) string {
				return fmt.Sprint(quickSnap(qf.Filter(qframe.Or(qframe.Filter{Column: "s1", Comparator: "ilike", Arg: "%S1%"}, qframe.Not(qframe.Filter{Column: "i1", Comparator: "in", Arg: []int{2, -1, 0}})))))
			}},
			{"Sort", func(qf qframe.QFrame) string {
				return fmt.Sprint(quickSnap(qf.Sort(qframe.Order{Column: "e1"}, qframe.Order{Column: "f1", Reverse: true}, qframe.Order{Column: "id"})))
			}},
			{"Distinct", func(qf qframe.QFrame) string {
				return multiset(qf.Distinct(groupby.Columns("i1", "b1")).Select("i1", "b1"))
			}},
			{"Equals", func(qf qframe.QFrame) string {
				// against itself re-sorted, against a sibling that differs in one column, and in three columns
				same := qf.Sort(qframe.Order{Column: "id"}).Sort(qframe.Order{Column: "id", Reverse: true})
				if qf.Len() > 0 && qf.MustIntView("id").ItemAt(0) < qf.MustIntView("id").ItemAt(qf.Len()-1) {
					same = same.Sort(qframe.Order{Column: "id"})
				}
				one := qf.Apply(qframe.Instruction{Fn: hx.FloatToFloat, DstCol: "f1", SrcCol1: "f1"})
				three := qf.Apply(qframe.Instruction{Fn: hx.IntToInt, DstCol: "i2", SrcCol1: "i2"}, qframe.Instruction{Fn: hx.FloatToFloat, DstCol: "f1", SrcCol1: "f1"},
					qframe.Instruction{Fn: hx.StrToStr, DstCol: "s1", SrcCol1: "s1"})
				e0, r0 := qf.Equals(same)
				e1, r1 := qf.Equals(one)
				e3, r3 := qf.Equals(three)
				return fmt.Sprint(e0, r0, e1, r1, e3, r3)
			}},
			{"ToJSON+ToCSV", func(qf qframe.QFrame) string {
				var a, b bytes.Buffer
				_ = qf.ToJSON(&a)
				_ = qf.ToCSV(&b)
				h := fnv.New64a()
				_, _ = h.Write(a.Bytes())
				_, _ = h.Write(b.Bytes())
				return fmt.Sprint(h.Sum64())
			}},
		}
		for _, op := range ops {
			solo := op.run(rev)
			soloSl := op.run(sl)
			if strings.HasPrefix(op.name, "Aggregate(invalid") && !strings.HasPrefix(solo, "true") {
				t.Fatalf("%s on %d rows: an invalid aggregation was not reported (Err set, Len: %s)", op.name, n, solo)
			}
			var wg sync.WaitGroup
			res := make([]string, 4)
			for g := 0; g < 4; g++ {
				wg.Add(1)
				go func(g int) {
					defer wg.Done()
					if g%2 == 0 {
						res[g] = op.run(rev)
					} else {
						res[g] = op.run(sl)
					}
				}(g)
			}
			wg.Wait()
			for g := range res {
				want := solo
				if g%2 == 1 {
					want = soloSl
				}
				if res[g] != want {
					t.Fatalf("%s on a frame of %d rows gave another result when run four times at once", op.name, n)
				}
			}
			runs++
		}
	}
	evC11.CaseHash(true, 0x424c4f43, func() string {
		return fmt.Sprintf("block sizes: 9 operations x %v rows, solo and four at once on frames sharing storage (%d runs, race detector on)", sizes, runs)
	}, "block-sizes")
}

// TestC03Blocks: Sort on frames of thousands of rows in the arrangements an implementation might special-case or split:
// random, already ordered on the first key (ties straddling the middle), reversed; two and three keys, all flags.
func TestC03Blocks(t *testing.T) {
	sizes := []int{4095, 4096, 4097, 8191, 16385}
	if tier() == "thorough" {
		sizes = append(sizes, 20003, 32769, 65537)
	}
	runs := 0
	for _, n := range sizes {
		rng := hx.SplitMix(blockSeed() ^ uint64(n))
		k1, k2, f := make([]int, n), make([]int, n), make([]float64, n)
		for i := range k1 {
			k1[i] = rng.Intn(7)
			k2[i] = rng.Intn(1 << 30)
			f[i] = float64(rng.Intn(100)) / 4
			if rng.Intn(25) == 0 {
				f[i] = math.NaN()
			}
		}
		tab := hx.Table{Cols: []hx.Col{{Name: "k1", Kind: hx.KInt, I: k1}, {Name: "k2", Kind: hx.KInt, I: k2}, {Name: "f", Kind: hx.KFloat, F: f}, {Name: "id", Kind: hx.KInt, I: hx.Iota(n)}}}
		base := hx.Build(tab)
		arrangements := map[string]qframe.QFrame{
			"random":              base,
			"ordered on k1":       base.Sort(qframe.Order{Column: "k1"}),
			"ordered on k1,f":     base.Sort(qframe.Order{Column: "k1"}, qframe.Order{Column: "f"}),
			"reverse of k1,k2":    base.Sort(qframe.Order{Column: "k1", Reverse: true}, qframe.Order{Column: "k2", Reverse: true}),
			"ordered on f (NaNs)": base.Sort(qframe.Order{Column: "f", NullLast: true}),
		}
		orderSets := [][]hx.Order{
			{{Col: "k1"}, {Col: "k2"}},
			{{Col: "k1"}, {Col: "f", NullLast: true}, {Col: "k2", Reverse: true}},
			{{Col: "k1", Reverse: true}, {Col: "k2"}},
			{{Col: "f"}, {Col: "k1"}, {Col: "k2"}},
		}
		for name, qf := range arrangements {
			in, err := hx.Observe(qf)
			if err != nil {
				t.Fatal(err)
			}
			for _, os := range orderSets {
				res := qf.Sort(hx.BuildOrders(os)...)
				got, err := hx.Observe(res)
				if err != nil || res.Err != nil {
					t.Fatalf("Sort of %d rows (%s): %v %v", n, name, res.Err, err)
				}
				if msg := checkSorted(in, got, os); msg != "" {
					t.Fatalf("Sort(%s) of %d rows arranged as %q: %s", hx.OrdersString(os), n, name, msg)
				}
				runs++
			}
		}
	}
	evC03.CaseHash(true, 0x424c4f43, func() string {
		return fmt.Sprintf("block sizes: %v rows x 5 arrangements x 4 order lists (%d sorts checked)", sizes, runs)
	}, "block-sizes")
}

// TestC05Blocks: Distinct and GroupBy on thousands of rows whose keys repeat with a period around and above the block
// sizes, in storage order and shuffled; counted against the period.
func TestC05Blocks(t *testing.T) {
	sizes := []int{4097, 8200, 16385, 20003}
	if tier() == "thorough" {
		sizes = append(sizes, 32769, 65537, 140000)
	}
	runs := 0
	for _, n := range sizes {
		for _, period := range []int{1, 3, 4095, 4096, 4097, 5000, n / 2, n - 1, n} {
			if period < 1 || period > n {
				continue
			}
			k, s := make([]int, n), make([]string, n)
			for i := range k {
				k[i] = (i % period) * 3
				s[i] = "k" + strconv.Itoa(i%period)
			}
			base := qframe.New(map[string]interface{}{"k": k, "s": s, "id": hx.Iota(n)})
			for ai, qf := range []qframe.QFrame{base, base.Sort(qframe.Order{Column: "id", Reverse: true}), base.Sort(qframe.Order{Column: "s"})} {
				for _, key := range []string{"k", "s"} {
					d := qf.Distinct(groupby.Columns(key))
					if d.Err != nil || d.Len() != period {
						t.Fatalf("Distinct(%s) of %d rows with %d different keys (arrangement %d): %d rows, Err %v", key, n, period, ai, d.Len(), d.Err)
					}
					a := qf.GroupBy(groupby.Columns(key)).Aggregate(qframe.Aggregation{Fn: "count", Column: "id", As: "n"}, qframe.Aggregation{Fn: "min", Column: "id", As: "first"})
					if a.Err != nil || a.Len() != period {
						t.Fatalf("GroupBy(%s) of %d rows with %d different keys (arrangement %d): %d groups, Err %v", key, n, period, ai, a.Len(), a.Err)
					}
					cnt, first := a.MustIntView("n"), a.MustIntView("first")
					for r := 0; r < a.Len(); r++ {
						want := n / period
						if first.ItemAt(r) < n%period {
							want++
						}
						if first.ItemAt(r) >= period || cnt.ItemAt(r) != want {
							t.Fatalf("GroupBy(%s) of %d rows, period %d (arrangement %d): the group of row %d counts %d rows, want %d", key, n, period, ai, first.ItemAt(r), cnt.ItemAt(r), want)
						}
					}
					runs++
				}
			}
		}
	}
	// keys that hold nulls: every null key is a key of its own unless Null(true) is given (each such row exactly once)
	for _, n := range sizes {
		for _, period := range []int{3, 5000} {
			ps, pf := make([]*string, n), make([]float64, n)
			nullS, nullF := 0, 0
			seenS, seenF := map[int]bool{}, map[int]bool{}
			for i := range ps {
				if i%7 == 3 {
					nullS++
				} else {
					ps[i] = hx.Sp("k" + strconv.Itoa(i%period))
					seenS[i%period] = true
				}
				if i%5 == 1 {
					pf[i] = math.NaN()
					nullF++
				} else {
					pf[i] = float64(i%period) / 4
					seenF[i%period] = true
				}
			}
			base := qframe.New(map[string]interface{}{"s": ps, "f": pf, "id": hx.Iota(n)})
			for ai, qf := range []qframe.QFrame{base, base.Sort(qframe.Order{Column: "id", Reverse: true})} {
				for _, c := range []struct {
					key             string
					distinct, nulls int
				}{{"s", len(seenS), nullS}, {"f", len(seenF), nullF}} {
					for _, groupNull := range []bool{false, true} {
						want := c.distinct + c.nulls
						if groupNull {
							want = c.distinct + 1
						}
						d := qf.Distinct(groupby.Columns(c.key), groupby.Null(groupNull))
						if d.Err != nil || d.Len() != want {
							t.Fatalf("Distinct(%s, Null(%v)) of %d rows with %d different keys and %d null keys (arrangement %d): %d rows, want %d, Err %v", c.key, groupNull, n, c.distinct, c.nulls, ai, d.Len(), want, d.Err)
						}
						ids := d.MustIntView("id").Slice()
						sort.Ints(ids)
						for i := 1; i < len(ids); i++ {
							if ids[i] == ids[i-1] {
								t.Fatalf("Distinct(%s, Null(%v)) of %d rows (arrangement %d) returns the row with id %d twice", c.key, groupNull, n, ai, ids[i])
							}
						}
						g, err := qf.GroupBy(groupby.Columns(c.key), groupby.Null(groupNull)).QFrames()
						if err != nil || len(g) != want {
							t.Fatalf("GroupBy(%s, Null(%v)).QFrames() of %d rows (arrangement %d): %d groups, want %d, err %v", c.key, groupNull, n, ai, len(g), want, err)
						}
						runs++
					}
				}
			}
		}
	}
	evC05.CaseHash(true, 0x424c4f43, func() string {
		return fmt.Sprintf("block sizes: Distinct and GroupBy on %v rows with keys of period 1 … n, three arrangements (%d runs)", sizes, runs)
	}, "block-sizes")
}

// TestC18Blocks: like/ilike over columns of 4099 … 70001 rows (code that matches in blocks or side by side), string and
// enum column with the same cells, plain and reversed, literal and regexp patterns: both agree with the pattern model.
func TestC18Blocks(t *testing.T) {
	sizes := []int{4099, 65536, 65537, 70001}
	if tier() == "thorough" {
		sizes = append(sizes, 131073, 262147)
	}
	pool := []string{}
	for _, a := range []string{"ab", "Ab", "aB", "AB", "xy", "äö", "ÄÖ", "", "b", "ß", "x.y", "a b"} {
		for _, b := range []string{"", "1", "12", "c", "C", "é"} {
			pool = append(pool, a+b)
		}
	}
	patterns := []string{"ab%", "%b1%", "ab12", "%2", "%", "AB%", "%äö%", "a[bB]1.*", "^x.*y$", "%C", "x.y", "%b%"}
	runs := 0
	for _, n := range sizes {
		rng := hx.SplitMix(blockSeed() ^ uint64(n)*0x9e3779b97f4a7c15)
		cells := make([]*string, n)
		for r := range cells {
			if rng.Intn(11) != 0 {
				cells[r] = hx.Sp(pool[rng.Intn(len(pool))])
			}
		}
		qf := qframe.New(map[string]interface{}{"s": cells, "e": cells, "id": hx.Iota(n)}, newqf.Enums(map[string][]string{"e": nil}))
		if qf.Err != nil {
			t.Fatal(qf.Err)
		}
		rev := qf.Sort(qframe.Order{Column: "id", Reverse: true})
		for _, pat := range patterns {
			for _, comp := range []string{"like", "ilike"} {
				match, err := hx.LikeModel(pat, comp == "ilike")
				if err != nil {
					t.Fatal(err)
				}
				var want []int
				for r, c := range cells {
					if c != nil && match(*c) {
						want = append(want, r)
					}
				}
				wantRev := make([]int, len(want))
				for i, r := range want {
					wantRev[len(want)-1-i] = r
				}
				for fi, f := range []qframe.QFrame{qf, rev} {
					w := want
					if fi == 1 {
						w = wantRev
					}
					for _, col := range []string{"s", "e"} {
						res := f.Filter(qframe.Filter{Column: col, Comparator: comp, Arg: pat})
						if res.Err != nil {
							t.Fatalf("%d rows: %s %s %q: %v", n, col, comp, pat, res.Err)
						}
						got := res.MustIntView("id").Slice()
						if len(got) != len(w) {
							t.Fatalf("%d rows (frame %d): column %s %s %q selects %d rows, the pattern model %d", n, fi, col, comp, pat, len(got), len(w))
						}
						for i := range got {
							if got[i] != w[i] {
								t.Fatalf("%d rows (frame %d): column %s %s %q: selected row %d is id %d, the pattern model says %d (cell %s)", n, fi, col, comp, pat, i, got[i], w[i], ptrStr(cells[w[i]]))
							}
						}
						runs++
					}
				}
			}
		}
	}
	evC18.CaseHash(true, 0x424c4f43^blockSeed(), func() string {
		return fmt.Sprintf("block pass: %d like/ilike filters on string and enum columns of %v rows", runs, sizes)
	}, "block-sizes")
}

// TestC14Blocks: the writers on frames of 1023 … 20003 rows in three arrangements (code that renders in blocks or side by
// side), and on an int column holding every power of ten and of two with its neighbours: the JSON text denotes exactly the
// frame, row by row, and reads back as it; the CSV text has one record per row.
func TestC14Blocks(t *testing.T) {
	sizes := []int{1023, 4097, 8191, 8192, 8193, 8195, 16386, 20003}
	if tier() == "thorough" {
		sizes = append(sizes, 32769, 65537, 65539, 131075)
	}
	runs := 0
	for _, n := range sizes {
		_, frames, tabs := blockFrames(n, blockSeed())
		for fi, qf := range frames {
			if msg := checkJSON(qf, finiteOnly(tabs[fi])); msg != "" {
				t.Fatalf("ToJSON of %d rows (arrangement %d): %s", n, fi, clipS(msg))
			}
			// (the round trip on the columns JSON can always tell: no NaN, no null)
			var buf bytes.Buffer
			if err := qf.Select("id", "i1", "b1").ToJSON(&buf); err != nil {
				t.Fatal(err)
			}
			back := qframe.ReadJSON(bytes.NewReader(buf.Bytes()))
			if back.Err != nil || back.Len() != n {
				t.Fatalf("ReadJSON(ToJSON) of %d rows (arrangement %d): %d rows, Err %v", n, fi, back.Len(), back.Err)
			}
			ids, err := back.IntView("id")
			if err != nil {
				// (whole floats: JSON numbers come back as float)
				fv, ferr := back.FloatView("id")
				if ferr != nil {
					t.Fatalf("id column after the round trip: %v %v", err, ferr)
				}
				want := tabs[fi].MustCol("id").I
				for r := 0; r < n; r++ {
					if int(fv.ItemAt(r)) != want[r] {
						t.Fatalf("ReadJSON(ToJSON) of %d rows (arrangement %d): row %d has id %v, want %d", n, fi, r, fv.ItemAt(r), want[r])
					}
				}
			} else {
				want := tabs[fi].MustCol("id").I
				for r := 0; r < n; r++ {
					if ids.ItemAt(r) != want[r] {
						t.Fatalf("ReadJSON(ToJSON) of %d rows (arrangement %d): row %d has id %d, want %d", n, fi, r, ids.ItemAt(r), want[r])
					}
				}
			}
			runs++
		}
	}
	// every power of ten and of two with its neighbours, both signs
	var ints []int
	for p := 1; p > 0 && p <= math.MaxInt64/10; p *= 10 {
		ints = append(ints, p-1, p, p+1, -p+1, -p, -p-1)
	}
	for k := 0; k < 63; k++ {
		p := 1 << uint(k)
		ints = append(ints, p-1, p, p+1, -p+1, -p, -p-1)
	}
	ints = append(ints, math.MaxInt64, math.MinInt64, math.MaxInt64-1, math.MinInt64+1)
	itab := hx.Table{Cols: []hx.Col{{Name: "i", Kind: hx.KInt, I: ints}}}
	if msg := checkJSON(hx.Build(itab), itab); msg != "" {
		t.Fatalf("ToJSON of the powers of ten and two with their neighbours: %s", clipS(msg))
	}
	if msg := checkCSV(hx.Build(itab), itab); msg != "" {
		t.Fatalf("ToCSV of the powers of ten and two with their neighbours: %s", clipS(msg))
	}
	evC14.CaseHash(true, 0x424c4f43^blockSeed(), func() string {
		return fmt.Sprintf("block pass: ToJSON/ReadJSON on %v rows, three arrangements (%d runs); %d ints at the powers of ten and two", sizes, runs, len(ints))
	}, "block-sizes")
}

// finiteOnly replaces the infinities of float columns by NaN-free finite values? No: JSON cannot tell ±Inf, the denotation
// check leaves them out - the block tables hold none; the function only documents the precondition.
func finiteOnly(t hx.Table) hx.Table {
	for _, c := range t.Cols {
		if c.Kind == hx.KFloat {
			for _, f := range c.F {
				if math.IsInf(f, 0) {
					panic("block tables must not hold infinities")
				}
			}
		}
	}
	return t
}
