package props

import (
	"bytes"
	"encoding/json"
	"fmt"
	"github.com/tobgu/qframe/config/groupby"
	"github.com/tobgu/qframe/types"
	"strings"
	"testing"

	"github.com/tobgu/qframe"
	"github.com/tobgu/qframe/config/csv"
	"github.com/tobgu/qframe/config/newqf"
	"pgregory.net/rapid"

	"verifharness/ev"
	"verifharness/hx"
)

// C17 — Enum columns keep their declared value set and order.

var evC17 = ev.New("C17", "declared value lists of 1..300 values (sizes biased to 1, 2, 63-65, 127-129, 191-193, 254-257; >255 must be rejected) in an order different from the alphabet, data inside and outside the list, "+
	"derived enums with up to 260 distinct values (exactly 254..257 forced in 1/8 of the cases), nulls; configuration maps optionally reused for two constructions; construction through New ([]string, []*string, ConstString), ReadCSV (Types+EnumValues) and ReadJSON (Enums); then < <= > >= = != against declared and undeclared constants, "+
	"in-lists touching ranks 63/64/127/128/191/192/254, like/ilike, Sort with all flag combinations and EnumView read-out; oracle: model with rank = position in the declared list, Err for undeclared data / undeclared filter constants / more than 255 values; "+
	"non-trivial = declared list of >=64 values with data at rank >=64, or cardinality 254..257; distinct = FNV-64 of (declared list size+order seed, data, path, operation)")

func enumValue(i int) string { return fmt.Sprintf("v%03d", i) }

func TestC17(t *testing.T) { rapid.Check(t, propC17) }

// FuzzC17: the same property driven by coverage-guided bytes (thorough tier).
func FuzzC17(f *testing.F) { f.Fuzz(rapid.MakeFuzz(propC17)) }

func propC17(t *rapid.T) {
	size := rapid.SampledFrom([]int{1, 2, 3, 5, 17, 63, 64, 65, 100, 127, 128, 129, 191, 192, 193, 250, 254, 255, 256, 257, 300}).Draw(t, "size")
	declared := rapid.IntRange(0, 3).Draw(t, "declared") > 0
	// the cardinality limit of derived enums on every construction path: exactly 254..257 distinct values in the data
	// declared lists that use the whole range of codes (254..256 values)
	if rapid.IntRange(0, 9).Draw(t, "fullfocus") == 0 {
		size = rapid.SampledFrom([]int{254, 255, 255, 255, 256}).Draw(t, "fullsize")
		declared = true
	}
	limitFocus := rapid.IntRange(0, 7).Draw(t, "limitfocus") == 0
	if limitFocus {
		size = rapid.SampledFrom([]int{254, 255, 256, 257}).Draw(t, "limitsize")
		declared = false
	}
	rng := hx.SplitMix(rapid.Uint64().Draw(t, "permseed"))
	// universe of values in an order that is not alphabetical (Fisher-Yates from the seed)
	perm := hx.Iota(size)
	for i := size - 1; i > 0; i-- {
		j := rng.Intn(i + 1)
		perm[i], perm[j] = perm[j], perm[i]
	}
	decl := make([]string, size)
	for i, p := range perm {
		decl[i] = enumValue(p)
	}
	n := rapid.SampledFrom([]int{0, 1, 5, 40, 300, 600}).Draw(t, "rows")
	path := rapid.SampledFrom([]string{"new-ptrs", "new-ptrs", "new-strings", "new-const", "readcsv", "readjson"}).Draw(t, "path")
	outside := rapid.IntRange(0, 9).Draw(t, "outside") == 0 // one value outside the declared list
	// CSV only: read with EmptyNull(false), so that empty cells are the value "" (declared lists then hold "" as one of their values)
	csvEmptyIsValue := path == "readcsv" && rapid.Bool().Draw(t, "csvemptyvalue")
	if csvEmptyIsValue {
		decl[size/2] = ""
	}
	// data: ranks (or -1 = null); cover the boundary ranks on purpose
	ranks := make([]int, n)
	boundary := []int{0, 62, 63, 64, 65, 126, 127, 128, 129, 190, 191, 192, 193, 253, 254, size - 1, size - 1, size - 2}
	coverAll := rapid.IntRange(0, 3).Draw(t, "coverall") == 0 // use every value (cardinality = size)
	if limitFocus {
		coverAll = true
		if n < 300 {
			n = 300
			ranks = make([]int, n)
		}
	}
	for r := range ranks {
		switch {
		case coverAll && r < size:
			ranks[r] = r
		case rng.Intn(6) == 0 && path != "new-strings":
			ranks[r] = -1
		case rng.Intn(3) == 0:
			ranks[r] = boundary[rng.Intn(len(boundary))] % size
		default:
			ranks[r] = rng.Intn(size)
		}
	}
	if path == "new-const" {
		v := -1
		if n > 0 {
			v = ranks[0]
		}
		for r := range ranks {
			ranks[r] = v
		}
	}
	data := make([]*string, n)
	for r, k := range ranks {
		if k >= 0 {
			data[r] = hx.Sp(decl[k])
		} else if csvEmptyIsValue {
			data[r] = hx.Sp("") // an empty cell read without EmptyNull
			ranks[r] = size / 2
		}
	}
	outsidePos := -1
	if outside && n > 0 {
		outsidePos = rng.Intn(n)
		if path == "new-const" {
			for r := range data {
				data[r] = hx.Sp("not-declared")
			}
		} else {
			data[outsidePos] = hx.Sp("not-declared")
		}
	}
	distinct := map[string]bool{}
	for _, p := range data {
		if p != nil {
			distinct[*p] = true
		}
	}
	var enumConf []string
	if declared {
		enumConf = decl
	}
	// model verdict
	wantErr := ""
	switch {
	case declared && size > 255:
		wantErr = "more than 255 declared values"
	case declared && outsidePos >= 0:
		wantErr = "data holds an undeclared value"
	case !declared && len(distinct) > 255:
		wantErr = "more than 255 distinct values in a derived enum"
	}
	desc := func() string {
		show := data
		if len(show) > 30 {
			show = show[:30]
		}
		cells := make([]string, len(show))
		for i, p := range show {
			cells[i] = ptrStr(p)
		}
		return fmt.Sprintf("enum size=%d declared=%v (first values %q) rows=%d path=%s outside=%v distinct=%d coverAll=%v\ndata %s…\nmodel: err=%q",
			size, declared, decl[:minInt(5, size)], n, path, outsidePos >= 0, len(distinct), coverAll, strings.Join(cells, " "), wantErr)
	}

	// construct; the caller's configuration maps are used for one or two constructions (configuration objects
	// are values a program keeps and reuses); the outcome of the last one is checked
	enumsMap := map[string][]string{"e": enumConf}
	typesMap := map[string]string{"e": "enum", "id": "int"}
	reuse := rapid.IntRange(0, 2).Draw(t, "reuseconfig") == 0
	var qf qframe.QFrame
	var construct func()
	perr := hx.Safely(func() {
		construct = func() {
			switch path {
			case "new-ptrs":
				qf = qframe.New(map[string]interface{}{"e": data, "id": hx.Iota(n)}, newqf.Enums(enumsMap))
			case "new-strings":
				ss := make([]string, n)
				for i, p := range data {
					ss[i] = *p
				}
				qf = qframe.New(map[string]interface{}{"e": ss, "id": hx.Iota(n)}, newqf.Enums(enumsMap))
			case "new-const":
				var v *string
				if n > 0 {
					v = data[0]
				}
				qf = qframe.New(map[string]interface{}{"e": qframe.ConstString{Val: v, Count: n}, "id": hx.Iota(n)}, newqf.Enums(enumsMap))
			case "readcsv":
				var sb strings.Builder
				sb.WriteString("e,id\n")
				for i, p := range data {
					if p != nil {
						sb.WriteString(*p)
					}
					fmt.Fprintf(&sb, ",%d\n", i)
				}
				fns := []csv.ConfigFunc{csv.Types(typesMap), csv.EmptyNull(true)}
				if declared {
					fns = append(fns, csv.EnumValues(enumsMap))
				}
				if csvEmptyIsValue {
					// without EmptyNull an empty cell is the value "": it must be declared (or is derived)
					fns[1] = csv.EmptyNull(false)
				}
				qf = qframe.ReadCSV(strings.NewReader(sb.String()), fns...)
			case "readjson":
				recs := make([]map[string]interface{}, n)
				for i, p := range data {
					recs[i] = map[string]interface{}{"id": i}
					if p != nil {
						recs[i]["e"] = *p
					} else {
						recs[i]["e"] = nil
					}
				}
				b, _ := json.Marshal(recs)
				qf = qframe.ReadJSON(bytes.NewReader(b), newqf.Enums(enumsMap))
			}
		}
		construct()
		if reuse {
			construct()
		}
	})
	if perr != nil {
		t.Fatalf("construction panicked: %v\n%s", perr, desc())
	}
	if path == "readjson" && n == 0 {
		// no records: no columns, the Enums entry then names a missing column (rejected) - nothing to check
		evC17.Case(false, desc, "path:"+path, "empty-json")
		return
	}
	if wantErr != "" {
		if qf.Err == nil {
			t.Fatalf("construction must fail (%s) but returned a frame\n%s", wantErr, desc())
		}
		evC17.Case(size >= 254 && size <= 257, desc, "path:"+path, "rejected:"+wantErr)
		return
	}
	if qf.Err != nil {
		t.Fatalf("construction failed: %v\n%s", qf.Err, desc())
	}
	// read-out: every cell is its own string, null only where null was put
	tab := hx.Table{Cols: []hx.Col{{Name: "e", Kind: hx.KEnum, S: data, Enum: enumConf}, {Name: "id", Kind: hx.KInt, I: hx.Iota(n)}}}
	obs, err := hx.Observe(qf)
	if err != nil {
		t.Fatalf("observe: %v\n%s", err, desc())
	}
	wantT := tab
	if path == "readjson" {
		// ints come back as floats from JSON: compare the enum column only
		wantT = hx.Table{Cols: tab.Cols[:1]}
		obs = obs.Project([]string{"e"})
	}
	if diff := hx.Diff(wantT, obs); diff != "" {
		t.Fatalf("enum column does not read back as it was put in: %s\n%s", diff, desc())
	}
	if path == "readjson" {
		evC17.Case(false, desc, "path:"+path)
		return
	}

	// operations
	op := rapid.SampledFrom([]string{"cmp", "cmp", "cmp-undeclared", "in", "like", "sort", "colcmp", "predicate", "equals", "in-upper", "sort2"}).Draw(t, "op")
	opDesc, fvia := "", "as constructed"
	full := func() string { return desc() + "\nop " + opDesc + " (filtered frame: " + fvia + ")" }
	// comparisons, in-lists and like also run on the column as other operations rebuild it (declared enums):
	// as the key column of an Aggregate or Distinct result, as a copy, on a slice
	fq, ftab := qf, tab
	if declared && wantErr == "" && (op == "cmp" || op == "in" || op == "like") && rapid.IntRange(0, 2).Draw(t, "filtervia") == 0 {
		fvia = rapid.SampledFrom([]string{"aggregate-key", "distinct", "copy", "slice"}).Draw(t, "fvia")
		switch fvia {
		case "aggregate-key":
			fq = qf.GroupBy(groupby.Columns("e")).Aggregate(qframe.Aggregation{Fn: "min", Column: "id"})
		case "distinct":
			fq = qf.Distinct(groupby.Columns("e"))
		case "copy":
			fq = qf.Copy("e2", "e").Drop("e").Copy("e", "e2").Drop("e2")
		case "slice":
			fq = qf.Slice(n/3, n)
		}
		obs, err := hx.Observe(fq)
		if err != nil || fq.Err != nil {
			t.Fatalf("%s: %v %v\n%s", fvia, fq.Err, err, desc())
		}
		if ei := obs.Find("e"); ei >= 0 && obs.Cols[ei].Kind == hx.KEnum {
			obs.Cols[ei].Enum = enumConf
		} else {
			t.Fatalf("after %s the column e is no enum column any more\n%s", fvia, desc())
		}
		ftab = obs
	}
	switch op {
	case "in-upper":
		// two declared values that differ only in case; after the ToUpper built-in both codes carry the same string and
		// value-based filters must find the rows of both
		if !declared || size < 2 || n < 2 || wantErr != "" {
			break
		}
		lo := "twin-" + strings.ToLower(enumConf[0])
		decl2 := append([]string{lo, strings.ToUpper(lo)}, enumConf...)
		if len(decl2) > 255 {
			decl2 = decl2[:255]
		}
		data2 := make([]*string, n)
		var wantRows []int
		for r := range data2 {
			switch r % 4 {
			case 0:
				data2[r] = hx.Sp(decl2[0])
				wantRows = append(wantRows, r)
			case 1:
				data2[r] = hx.Sp(decl2[1])
				wantRows = append(wantRows, r)
			case 2:
				if data[r] != nil && (len(decl2) == 255+0 && *data[r] == enumConf[len(enumConf)-1] || false) {
					data2[r] = nil
				} else {
					data2[r] = data[r]
				}
			}
		}
		for r, p := range data2 { // values cut off by the 255 limit
			if p != nil {
				ok := false
				for _, v := range decl2 {
					if v == *p {
						ok = true
					}
				}
				if !ok {
					data2[r] = nil
				}
			}
		}
		fr := qframe.New(map[string]interface{}{"e": data2, "id": hx.Iota(n)}, newqf.Enums(map[string][]string{"e": decl2}))
		if fr.Err != nil {
			t.Fatalf("twin values: %v\n%s", fr.Err, full())
		}
		up := fr.Apply(qframe.Instruction{Fn: "ToUpper", DstCol: "e", SrcCol1: "e"})
		target := strings.ToUpper(lo)
		kind := rapid.SampledFrom([]string{"in", "like", "ilike", "=", "predicate"}).Draw(t, "upperfilter")
		opDesc = fmt.Sprintf("after ToUpper (values %q and %q now equal): filter e %s %q", decl2[0], decl2[1], kind, target)
		var res qframe.QFrame
		switch kind {
		case "in":
			res = up.Filter(qframe.Filter{Column: "e", Comparator: "in", Arg: []string{target, "zz-not-there"}})
		case "predicate":
			res = up.Filter(qframe.Filter{Column: "e", Comparator: func(p *string) bool { return p != nil && *p == target }})
		default:
			res = up.Filter(qframe.Filter{Column: "e", Comparator: kind, Arg: target})
		}
		if res.Err != nil {
			if kind == "=" {
				break // a constant that names two codes may be refused for =
			}
			t.Fatalf("filter failed: %v\n%s", res.Err, full())
		}
		if got := res.MustIntView("id").Slice(); fmt.Sprint(got) != fmt.Sprint(wantRows) {
			t.Fatalf("rows %v, but the cells equal to %q stand in rows %v\n%s", clipInts(got), target, clipInts(wantRows), full())
		}
	case "sort2":
		// the enum as second key behind a key with nulls: among the rows whose first key is null the declared order holds too
		if !declared || n < 2 || wantErr != "" {
			break
		}
		ks := make([]*string, n)
		for r := range ks {
			if r%3 != 0 {
				ks[r] = hx.Sp([]string{"x", "y"}[r%2])
			}
		}
		fr := qframe.New(map[string]interface{}{"k": ks, "e": data, "id": hx.Iota(n)}, newqf.Enums(map[string][]string{"e": enumConf}))
		if fr.Err != nil {
			t.Fatalf("frame with a nullable first key: %v\n%s", fr.Err, full())
		}
		t3 := hx.Table{Cols: []hx.Col{{Name: "e", Kind: hx.KEnum, S: data, Enum: enumConf}, {Name: "id", Kind: hx.KInt, I: hx.Iota(n)}, {Name: "k", Kind: hx.KString, S: ks}}}
		os := []hx.Order{{Col: "k", NullLast: rapid.Bool().Draw(t, "knulllast")}, {Col: "e", Reverse: rapid.Bool().Draw(t, "erev"), NullLast: rapid.Bool().Draw(t, "enulllast")}}
		opDesc = "sort " + hx.OrdersString(os)
		res := fr.Sort(hx.BuildOrders(os)...)
		got, err := hx.Observe(res)
		if err != nil || res.Err != nil {
			t.Fatalf("sort failed: %v %v\n%s", res.Err, err, full())
		}
		if msg := checkSorted(t3, got, os); msg != "" {
			t.Fatalf("sort by a nullable key, then the enum: %s\n%s", msg, full())
		}
	case "predicate":
		// a Go function as comparator: called for (or at least answering for) every row, null rows included
		k := boundary[rapid.IntRange(0, len(boundary)-1).Draw(t, "predrank")] % size
		wantNil := rapid.Bool().Draw(t, "prednil")
		target := decl[k]
		fn := func(p *string) bool {
			if p == nil {
				return wantNil
			}
			return *p == target
		}
		opDesc = fmt.Sprintf("filter e by func(*string) bool: nil -> %v, %q -> true", wantNil, target)
		res := qf.Filter(qframe.Filter{Column: "e", Comparator: fn})
		if res.Err != nil {
			t.Fatalf("predicate filter failed: %v\n%s", res.Err, full())
		}
		var keep []int
		for r := 0; r < n; r++ {
			if fn(data[r]) {
				keep = append(keep, r)
			}
		}
		got, err := hx.Observe(res)
		if err != nil {
			t.Fatal(err)
		}
		if diff := hx.Diff(tab.Rows(keep), got); diff != "" {
			t.Fatalf("predicate filter result differs from the model: %s\n%s", diff, full())
		}
	case "equals":
		// the same strings over a value list in another order (first value kept, the rest rotated) are Equal; the same
		// internal codes over other strings are not
		if !declared || size < 3 || wantErr != "" {
			break
		}
		decl2 := append([]string{enumConf[0]}, append(append([]string(nil), enumConf[2:]...), enumConf[1])...)
		same := qframe.New(map[string]interface{}{"e": data, "id": hx.Iota(n)}, newqf.Enums(map[string][]string{"e": decl2}))
		rank := map[string]int{}
		for i, v := range enumConf {
			rank[v] = i
		}
		data3 := make([]*string, n)
		differs := false
		for r, p := range data {
			if p != nil {
				data3[r] = hx.Sp(decl2[rank[*p]]) // the string that has the same code in the other list
				if *data3[r] != *p {
					differs = true
				}
			}
		}
		codes := qframe.New(map[string]interface{}{"e": data3, "id": hx.Iota(n)}, newqf.Enums(map[string][]string{"e": decl2}))
		base2 := qframe.New(map[string]interface{}{"e": data, "id": hx.Iota(n)}, newqf.Enums(map[string][]string{"e": enumConf}))
		if same.Err != nil || codes.Err != nil || base2.Err != nil {
			t.Fatalf("building the comparison frames: %v %v %v\n%s", same.Err, codes.Err, base2.Err, full())
		}
		opDesc = "Equals against the same strings over a rotated value list, and against the same codes over other strings"
		if ab, ba, why := equalsBoth(base2, same); !ab || !ba {
			t.Fatalf("enum columns holding the same strings (value lists in another order) are not Equal (%v,%v): %s\n%s", ab, ba, why, full())
		}
		if ab, ba, _ := equalsBoth(base2, codes); (ab || ba) && differs {
			t.Fatalf("enum columns holding different strings (but the same internal codes) are Equal (%v,%v)\n%s", ab, ba, full())
		}
	case "colcmp":
		// the column against a second enum column of the same declared list, row by row, on a frame whose index
		// is not the identity: by rank in the declared list, null never matching except under !=
		if !declared || n < 2 || wantErr != "" {
			break
		}
		shift := rapid.IntRange(1, n-1).Draw(t, "shift")
		data2 := make([]*string, n)
		for r := range data2 {
			data2[r] = data[(r+shift)%n]
		}
		// now and then the second column declares the same values in another order: the two are then not of the same
		// type, and comparing them is either refused or done by value - never by internal code
		if size >= 3 && rapid.IntRange(0, 3).Draw(t, "rotateddecl") == 0 {
			rot := append(append([]string(nil), enumConf[1:]...), enumConf[0])
			fr := qframe.New(map[string]interface{}{"e": data, "e2": data2, "id": hx.Iota(n)}, newqf.Enums(map[string][]string{"e": enumConf, "e2": rot}))
			if fr.Err != nil {
				t.Fatalf("two enum columns over rotated lists: %v\n%s", fr.Err, full())
			}
			comp := rapid.SampledFrom([]string{"=", "!="}).Draw(t, "rotcomp")
			opDesc = fmt.Sprintf("filter e %s column e2 whose value list is rotated", comp)
			res := fr.Filter(qframe.Filter{Column: "e", Comparator: comp, Arg: types.ColumnName("e2")})
			if res.Err == nil {
				var want []int
				for r := 0; r < n; r++ {
					a, b := data[r], data2[r]
					eq := a != nil && b != nil && *a == *b
					if (comp == "=" && eq) || (comp == "!=" && !eq) {
						want = append(want, r)
					}
				}
				if got := res.MustIntView("id").Slice(); fmt.Sprint(got) != fmt.Sprint(want) {
					t.Fatalf("enum columns with rotated value lists compared without an error but not by value: rows %v, by value %v\n%s", clipInts(got), clipInts(want), full())
				}
			}
			break
		}
		// now and then the other column is the column itself under a second name (a Copy shares its storage), or the
		// comparison names the same column on both sides: null still equals nothing, itself included
		alias := rapid.IntRange(0, 3).Draw(t, "colalias")
		if alias <= 1 {
			data2 = data
		}
		fr := qframe.New(map[string]interface{}{"e": data, "e2": data2, "id": hx.Iota(n)}, newqf.Enums(map[string][]string{"e": enumConf, "e2": enumConf}))
		if alias == 0 {
			fr = fr.Copy("e2", "e")
		}
		if fr.Err != nil {
			t.Fatalf("two enum columns over one declared list: %v\n%s", fr.Err, full())
		}
		tab2 := hx.Table{Cols: []hx.Col{{Name: "e", Kind: hx.KEnum, S: data, Enum: enumConf}, {Name: "e2", Kind: hx.KEnum, S: data2, Enum: enumConf}, {Name: "id", Kind: hx.KInt, I: hx.Iota(n)}}}
		comp := rapid.SampledFrom([]string{"<", "<=", ">", ">=", "=", "!="}).Draw(t, "colcomp")
		cl := hx.ColArg("e", comp, "e2")
		if alias == 1 {
			cl = hx.ColArg("e", comp, "e")
		}
		cl.Inverse = rapid.IntRange(0, 3).Draw(t, "colinv") == 0
		// non-identity index: reversed, or every second row
		var sel []int
		derived := fr
		if rapid.Bool().Draw(t, "colrev") {
			derived = fr.Sort(qframe.Order{Column: "id", Reverse: true})
			for r := n - 1; r >= 0; r-- {
				sel = append(sel, r)
			}
		} else {
			derived = fr.Filter(qframe.Filter{Column: "id", Comparator: "any_bits", Arg: 1}).Slice(0, n/2)
			for r := 1; r < n; r += 2 {
				sel = append(sel, r)
			}
		}
		opDesc = fmt.Sprintf("filter e %s column e2 (e shifted by %d) inverse=%v on rows %v…", comp, shift, cl.Inverse, sel[:minInt(6, len(sel))])
		res := derived.Filter(cl.Build(hx.KindMap(tab2)))
		if res.Err != nil {
			t.Fatalf("column-column filter on enum columns of one declared list failed: %v\n%s", res.Err, full())
		}
		var keep []int
		for _, r := range sel {
			if cl.Eval(tab2, r) {
				keep = append(keep, r)
			}
		}
		got, err := hx.Observe(res)
		if err != nil {
			t.Fatal(err)
		}
		if diff := hx.Diff(tab2.Rows(keep), got); diff != "" {
			t.Fatalf("column-column filter result differs from the rank model: %s\n%s", diff, full())
		}
	case "cmp", "cmp-undeclared":
		comps := []string{"<", "<=", ">", ">=", "=", "!="}
		if !declared {
			comps = []string{"=", "!="}
		}
		comp := rapid.SampledFrom(comps).Draw(t, "comp")
		k := boundary[rapid.IntRange(0, len(boundary)-1).Draw(t, "constrank")] % size
		c := decl[k]
		if op == "cmp-undeclared" {
			c = "not-declared"
			hasEmpty := false
			for _, v := range decl {
				hasEmpty = hasEmpty || v == ""
			}
			if !hasEmpty && rapid.IntRange(0, 2).Draw(t, "emptyconst") == 0 {
				c = "" // the empty string is a constant like any other: undeclared unless the list has it
			}
		}
		inv := rapid.IntRange(0, 3).Draw(t, "inv") == 0
		opDesc = fmt.Sprintf("filter e %s %q inverse=%v", comp, c, inv)
		cl := hx.StrConst("e", comp, c)
		cl.Inverse = inv
		if op == "cmp-undeclared" && declared {
			// the error must surface from wherever in a clause tree the comparison stands
			wrapped := cl
			ok := hx.NoArg("e", "isnotnull")
			wrap := rapid.SampledFrom([]string{"plain", "plain", "not(and)", "not(or)", "not(not)", "and", "or", "and(ok,x)", "or(ok,x)", "not(and(ok,x))", "or(and(x),ok)", "or(all,not(x))", "or(all,and(x))", "or(all,x)", "and(none,x)"}).Draw(t, "wrap")
			switch wrap {
			case "not(and)":
				wrapped = hx.Clause{Op: "not", Kids: []hx.Clause{{Op: "and", Kids: []hx.Clause{cl}}}}
			case "not(or)":
				wrapped = hx.Clause{Op: "not", Kids: []hx.Clause{{Op: "or", Kids: []hx.Clause{cl}}}}
			case "not(not)":
				wrapped = hx.Clause{Op: "not", Kids: []hx.Clause{{Op: "not", Kids: []hx.Clause{cl}}}}
			case "and":
				wrapped = hx.Clause{Op: "and", Kids: []hx.Clause{cl}}
			case "or":
				wrapped = hx.Clause{Op: "or", Kids: []hx.Clause{cl, cl}}
			case "and(ok,x)":
				wrapped = hx.Clause{Op: "and", Kids: []hx.Clause{ok, cl}}
			case "or(ok,x)":
				wrapped = hx.Clause{Op: "or", Kids: []hx.Clause{ok, cl}}
			case "not(and(ok,x))":
				wrapped = hx.Clause{Op: "not", Kids: []hx.Clause{{Op: "and", Kids: []hx.Clause{ok, cl}}}}
			case "or(and(x),ok)":
				wrapped = hx.Clause{Op: "or", Kids: []hx.Clause{{Op: "and", Kids: []hx.Clause{cl}}, ok}}
			case "or(all,not(x))": // the rows are all selected before the invalid comparison is reached
				wrapped = hx.Clause{Op: "or", Kids: []hx.Clause{{Op: "null"}, {Op: "not", Kids: []hx.Clause{cl}}}}
			case "or(all,and(x))":
				wrapped = hx.Clause{Op: "or", Kids: []hx.Clause{hx.IntConst("id", ">=", 0), {Op: "and", Kids: []hx.Clause{cl}}}}
			case "or(all,x)":
				wrapped = hx.Clause{Op: "or", Kids: []hx.Clause{hx.IntConst("id", ">=", 0), cl}}
			case "and(none,x)": // ... or none is left
				wrapped = hx.Clause{Op: "and", Kids: []hx.Clause{hx.IntConst("id", "<", 0), cl}}
			}
			opDesc += " wrapped as " + wrap
			res := qf.Filter(wrapped.Build(hx.KindMap(tab)))
			if res.Err == nil {
				t.Fatalf("filtering a declared enum against an undeclared constant must be an error\n%s", full())
			}
			break
		}
		if declared && size >= 3 && rapid.IntRange(0, 3).Draw(t, "otherorderfirst") == 0 {
			// another enum column over the same values in another declared order (same length, same first value) was
			// asked the same question just before: the rank of a constant belongs to the column it is compared with
			alt := []string{enumConf[0]}
			for i := len(enumConf) - 1; i >= 1; i-- {
				alt = append(alt, enumConf[i])
			}
			other := qframe.New(map[string]interface{}{"e": data}, newqf.Enums(map[string][]string{"e": alt}))
			_ = other.Filter(qframe.Filter{Column: "e", Comparator: comp, Arg: c, Inverse: inv})
			opDesc += " (after the same comparison on a column declared in another order)"
		}
		cl = c17Combine(t, cl, ftab, &opDesc)
		res := fq.Filter(cl.Build(hx.KindMap(ftab)))
		if res.Err != nil {
			t.Fatalf("filter failed: %v\n%s", res.Err, full())
		}
		var keep []int
		for r := 0; r < ftab.N(); r++ {
			if cl.Eval(ftab, r) {
				keep = append(keep, r)
			}
		}
		got, err := hx.Observe(res)
		if err != nil {
			t.Fatal(err)
		}
		if diff := hx.Diff(ftab.Rows(keep), got); diff != "" {
			t.Fatalf("filter result differs from the rank model: %s\n%s", diff, full())
		}
	case "in":
		m := rapid.IntRange(0, 6).Draw(t, "inlen")
		var ls []string
		for i := 0; i < m; i++ {
			ls = append(ls, decl[boundary[rapid.IntRange(0, len(boundary)-1).Draw(t, "inrank")]%size])
		}
		opDesc = fmt.Sprintf("filter e in %q", ls)
		cl := hx.Clause{Op: "leaf", Col: "e", Comp: "in", Arg: "list", LS: ls}
		if ls == nil {
			cl.LS = []string{}
		}
		cl = c17Combine(t, cl, ftab, &opDesc)
		res := fq.Filter(cl.Build(hx.KindMap(ftab)))
		if res.Err != nil {
			t.Fatalf("filter failed: %v\n%s", res.Err, full())
		}
		var keep []int
		for r := 0; r < ftab.N(); r++ {
			if cl.Eval(ftab, r) {
				keep = append(keep, r)
			}
		}
		got, _ := hx.Observe(res)
		if diff := hx.Diff(ftab.Rows(keep), got); diff != "" {
			t.Fatalf("in-filter result differs from the model: %s\n%s", diff, full())
		}
	case "like":
		pat := rapid.SampledFrom([]string{"v0%", "%7", "%12%", "v064", "V064", "v1.%", "%[0-3]", "v25%", "v\\d+", "v\\D+", "%\\d\\d\\d", "\\D\\d+", "\\w\\d+", "\\W%"}).Draw(t, "pattern")
		comp := rapid.SampledFrom([]string{"like", "ilike"}).Draw(t, "likecomp")
		opDesc = fmt.Sprintf("filter e %s %q", comp, pat)
		if rapid.Bool().Draw(t, "earlierlike") {
			// the column has answered a related pattern before (the other comparator, or the pattern in the other case:
			// \d becomes \D)
			opDesc += " after a filter with the case-swapped pattern / the other comparator"
			_ = hx.Safely(func() {
				_ = fq.Filter(qframe.Filter{Column: "e", Comparator: comp, Arg: swapCase(pat)})
				_ = fq.Filter(qframe.Filter{Column: "e", Comparator: map[string]string{"like": "ilike", "ilike": "like"}[comp], Arg: pat})
			})
		}
		cl := hx.StrConst("e", comp, pat)
		cl = c17Combine(t, cl, ftab, &opDesc)
		res := fq.Filter(cl.Build(hx.KindMap(ftab)))
		if res.Err != nil {
			t.Fatalf("filter failed: %v\n%s", res.Err, full())
		}
		var keep []int
		for r := 0; r < ftab.N(); r++ {
			if cl.Eval(ftab, r) {
				keep = append(keep, r)
			}
		}
		got, _ := hx.Observe(res)
		if diff := hx.Diff(ftab.Rows(keep), got); diff != "" {
			t.Fatalf("like-filter result differs from the model: %s\n%s", diff, full())
		}
	case "sort":
		if !declared {
			break // rank order of derived enums is unspecified
		}
		o := hx.Order{Col: "e", Reverse: rapid.Bool().Draw(t, "rev"), NullLast: rapid.Bool().Draw(t, "nulllast")}
		// the column keeps its declared order through operations that rebuild it: as the key column of an
		// Aggregate or Distinct result, as a copy, as the result of the ToUpper built-in
		via := rapid.SampledFrom([]string{"direct", "direct", "aggregate-key", "distinct", "copy", "toupper"}).Draw(t, "sortvia")
		src, srcDecl := qf, enumConf
		switch via {
		case "aggregate-key":
			src = qf.GroupBy(groupby.Columns("e")).Aggregate(qframe.Aggregation{Fn: "min", Column: "id"}) // id stays a unique row identity
		case "distinct":
			src = qf.Distinct(groupby.Columns("e"))
		case "copy":
			src = qf.Copy("e2", "e").Drop("e").Copy("e", "e2").Drop("e2")
		case "toupper":
			src = qf.Apply(qframe.Instruction{Fn: "ToUpper", DstCol: "e", SrcCol1: "e"})
			srcDecl = make([]string, len(enumConf))
			for i, v := range enumConf {
				srcDecl[i] = strings.ToUpper(v)
			}
		}
		if src.Err != nil {
			t.Fatalf("%s failed: %v\n%s", via, src.Err, full())
		}
		srcObs, err := hx.Observe(src)
		if err != nil {
			t.Fatal(err)
		}
		if ei := srcObs.Find("e"); ei >= 0 && srcObs.Cols[ei].Kind == hx.KEnum {
			srcObs.Cols[ei].Enum = srcDecl
		} else {
			t.Fatalf("after %s the column e is no enum column any more\n%s", via, full())
		}
		tab := srcObs
		opDesc = "sort " + o.String() + " via " + via
		res := src.Sort(hx.BuildOrders([]hx.Order{o})...)
		if res.Err != nil {
			t.Fatalf("sort failed: %v\n%s", res.Err, full())
		}
		got, err := hx.Observe(res)
		if err != nil {
			t.Fatal(err)
		}
		if msg := checkSorted(tab, got, []hx.Order{o}); msg != "" {
			t.Fatalf("sort on the enum column violates the declared order: %s\n%s", msg, full())
		}
		// a sorted frame whose key column is then overwritten by another enum column of the same declared list, sorted
		// again by the same order: the new values decide, in declared order
		if via == "direct" && n >= 2 && rapid.IntRange(0, 2).Draw(t, "resortenum") == 0 {
			shift := rapid.IntRange(1, n-1).Draw(t, "resortshift")
			other := make([]*string, n)
			for r := range other {
				other[r] = data[(r+shift)%n]
			}
			two := qframe.New(map[string]interface{}{"e": data, "f": other, "id": hx.Iota(n)}, newqf.Enums(map[string][]string{"e": enumConf, "f": enumConf}))
			ro := hx.BuildOrders([]hx.Order{o})
			changed := two.Sort(ro...).Copy("e", "f")
			again := changed.Sort(ro...)
			if two.Err != nil || again.Err != nil {
				t.Fatalf("sort, overwrite the key, sort again: %v %v\n%s", two.Err, again.Err, full())
			}
			cobs, err1 := hx.Observe(changed)
			aobs, err2 := hx.Observe(again)
			if err1 != nil || err2 != nil {
				t.Fatal(err1, err2)
			}
			for _, tb := range []*hx.Table{&cobs, &aobs} {
				for i := range tb.Cols {
					if tb.Cols[i].Kind == hx.KEnum {
						tb.Cols[i].Enum = enumConf
					}
				}
			}
			if msg := checkSorted(cobs, aobs, []hx.Order{o}); msg != "" {
				t.Fatalf("sorted, key column overwritten by Copy(e, f), sorted again by the same order: %s\n%s", msg, full())
			}
		}
		// the view's Slice() tells the same as its ItemAt
		if ev, err := res.EnumView("e"); err == nil {
			sl := ev.Slice()
			ec := got.MustCol("e")
			if len(sl) != ec.Len() {
				t.Fatalf("EnumView.Slice() has %d entries, the column %d\n%s", len(sl), ec.Len(), full())
			}
			for r := range sl {
				if (sl[r] == nil) != (ec.S[r] == nil) || (sl[r] != nil && *sl[r] != *ec.S[r]) {
					t.Fatalf("EnumView.Slice()[%d] = %s but ItemAt(%d) = %s\n%s", r, ptrStr(sl[r]), r, ptrStr(ec.S[r]), full())
				}
			}
		}
	}
	high := false
	for _, k := range ranks {
		if k >= 64 {
			high = true
		}
	}
	// whatever was done above, the constructed frame still reads as constructed (no value reported as another string)
	if after, err := hx.Observe(qf); err != nil || hx.Diff(wantT, after) != "" {
		t.Fatalf("the frame no longer reads back as constructed after %s: %v %s\n%s", opDesc, err, hx.Diff(wantT, after), full())
	}
	nontrivial := (declared && size >= 64 && high) || (len(distinct) >= 254 && len(distinct) <= 257) || (size >= 254 && size <= 257)
	evC17.Case(nontrivial, func() string { return full() }, "path:"+path, "op:"+op, fmt.Sprintf("declared=%v", declared), fmt.Sprintf("size=%d", size))
}

func minInt(a, b int) int {
	if a < b {
		return a
	}
	return b
}

func clipInts(v []int) []int {
	if len(v) > 20 {
		return v[:20]
	}
	return v
}

// c17Combine puts an enum comparison into a clause next to other comparisons, as the first or a later alternative of an
// Or, as the first or a later condition of an And: an enum comparison answers for the rows it is asked about like a string
// comparison does, wherever it stands (rows an earlier alternative has selected stay selected, rows an earlier condition
// has dropped stay dropped).
func c17Combine(t *rapid.T, cl hx.Clause, tab hx.Table, opDesc *string) hx.Clause {
	if tab.Find("id") < 0 || tab.N() == 0 {
		return cl
	}
	ids := tab.MustCol("id").I
	other := hx.IntConst("id", rapid.SampledFrom([]string{"<", ">=", "!="}).Draw(t, "combcomp"), ids[rapid.IntRange(0, len(ids)-1).Draw(t, "combid")])
	second := hx.NoArg("e", rapid.SampledFrom([]string{"isnull", "isnotnull"}).Draw(t, "combnull"))
	how := rapid.SampledFrom([]string{"plain", "plain", "or(other,x)", "or(x,other)", "and(other,x)", "and(x,other)", "or(second,x)", "or(other,second,x)", "or(and(other,x),x)"}).Draw(t, "combine")
	kids := func(op string, k ...hx.Clause) hx.Clause { return hx.Clause{Op: op, Kids: k} }
	switch how {
	case "or(other,x)":
		cl = kids("or", other, cl)
	case "or(x,other)":
		cl = kids("or", cl, other)
	case "and(other,x)":
		cl = kids("and", other, cl)
	case "and(x,other)":
		cl = kids("and", cl, other)
	case "or(second,x)":
		cl = kids("or", second, cl)
	case "or(other,second,x)":
		cl = kids("or", other, second, cl)
	case "or(and(other,x),x)":
		cl = kids("or", kids("and", other, cl), cl)
	}
	*opDesc += " combined as " + how + ": " + cl.String()
	return cl
}
