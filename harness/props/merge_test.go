package props

import (
	"encoding/binary"
	"encoding/json"
	"os"
	"sort"
	"strings"
	"testing"

	"verifharness/ev"
)

// TestZZMergeEvidence is not a check: the driver uses the test binary to union the
// statistics of the shard processes (VERIF_MERGE_LIST names a file listing the stats
// files, VERIF_MERGE_OUT the merged output).
func TestZZMergeEvidence(t *testing.T) {
	list, out := os.Getenv("VERIF_MERGE_LIST"), os.Getenv("VERIF_MERGE_OUT")
	if list == "" || out == "" {
		t.Skip("driver helper")
	}
	b, err := os.ReadFile(list)
	if err != nil {
		t.Fatal(err)
	}
	type merged struct {
		Evals      int64                  `json:"evaluations"`
		Nontrivial int64                  `json:"nontrivial_cases"`
		Distinct   int                    `json:"distinct_nontrivial"`
		Classes    map[string]int64       `json:"classes"`
		Samples    []string               `json:"samples"`
		Known      map[string]int64       `json:"known"`
		Extra      map[string]interface{} `json:"extra"`
		Rules      []string               `json:"rules"`
		Saturated  bool                   `json:"saturated"`
	}
	m := merged{Classes: map[string]int64{}, Known: map[string]int64{}, Extra: map[string]interface{}{}}
	var hashes []uint64
	seenRule := map[string]bool{}
	for _, f := range strings.Fields(string(b)) {
		raw, err := os.ReadFile(f)
		if err != nil {
			continue
		}
		var stats []ev.Stats
		if json.Unmarshal(raw, &stats) != nil {
			continue
		}
		for _, s := range stats {
			m.Evals += s.Evals
			m.Nontrivial += s.Nontrivial
			m.Saturated = m.Saturated || s.Saturated
			for k, v := range s.Classes {
				m.Classes[k] += v
			}
			for k, v := range s.Known {
				m.Known[k] += v
			}
			for k, v := range s.Extra {
				if old, ok := m.Extra[k].(float64); ok {
					if nv, ok := v.(float64); ok {
						m.Extra[k] = old + nv
						continue
					}
				}
				m.Extra[k] = v
			}
			if !seenRule[s.Rule] {
				seenRule[s.Rule] = true
				m.Rules = append(m.Rules, s.Rule)
			}
			if len(m.Samples) < 12 {
				for _, x := range s.Samples {
					if len(m.Samples) < 12 {
						m.Samples = append(m.Samples, x)
					}
				}
			}
		}
		hb, err := os.ReadFile(f + ".hashes")
		if err == nil {
			for i := 0; i+8 <= len(hb); i += 8 {
				hashes = append(hashes, binary.LittleEndian.Uint64(hb[i:]))
			}
		}
	}
	sort.Slice(hashes, func(i, j int) bool { return hashes[i] < hashes[j] })
	for i, h := range hashes {
		if i == 0 || h != hashes[i-1] {
			m.Distinct++
		}
	}
	ob, _ := json.Marshal(m)
	if err := os.WriteFile(out, ob, 0o644); err != nil {
		t.Fatal(err)
	}
}
