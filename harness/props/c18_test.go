package props

import (
	"fmt"
	"regexp"
	"strings"
	"testing"
	"unicode"
	"unicode/utf8"

	"github.com/tobgu/qframe"
	"pgregory.net/rapid"

	"verifharness/ev"
	"verifharness/hx"
)

// C18 — like/ilike match by the documented wildcard and case rules.

var evC18 = ev.New("C18", "valid UTF-8 cells (0-40 bytes) over ASCII letters in both cases, digits, blanks, multi-byte letters, code points whose upper-case form has another byte length (dotless i, long s, turned a/alpha, a-stroke, micro sign, Kelvin sign), "+
	"title-case digraphs, C1 controls incl. U+0080, emoji, runs of 1-9 letters that all grow (or all shrink) by a byte when upper-cased followed by a plain tail; 1-30 cells per frame with growing and shrinking lengths (matcher buffer reuse); patterns derived from the cells (substring/prefix/suffix, case flips) or random, % at neither/either/both ends, \"\", \"%\", \"%%\", % in the middle, "+
	"regexp metacharacters (valid and invalid); oracle: model of the statement (==/HasPrefix/HasSuffix/Contains, for ilike after strings.ToUpper of both sides; Go regexp anchored where there is no %, (?i) for ilike; compile error => Err; nulls never match) and the same rows from a string column and an enum column; "+
	"non-trivial = ilike on a frame holding a non-ASCII cell, or a cell longer than its predecessor by more than the initial buffer; distinct = FNV-64 of (cells, comparator, pattern)")

var likeAlphabet = []string{"a", "b", "c", "A", "B", "C", "x", "Z", "0", "1", " ", "ä", "Ä", "é", "ß", "ñ", "Ω", "ω", "ж", "Ж",
	"ı", "ſ", "ɐ", "ɑ", "ⱥ", "Ⱥ", "µ", "K", "k", "K", "ǅ", "ǆ", "Ǆ", "\u0080", "\u0085", "\u009f", " ", "😀", "日", "ǰ", "ŉ", "İ", "i", "I", "_", "-",
	"$", ".", "*", "(", "^", "+", "\\", "[", "$", "\n", "\n", "\t", "\r", ".", ".*", "~", "{", "|", "}", "\x7f", "`", "@", "\x00"}
var likeMeta = []string{".", "*", "+", "?", "(", ")", "[", "]", "{", "}", "^", "$", "\\", ".*", "[a-c]", "(a|b)", "\\d", "a+",
	"\\$", "\\^", "\\.", "\\(", "\\\\", "\\w+", "\\x{e9}", "(?s).", "\\pL", "$", "^", "[^-~]+", "[:-_]+", "\\141", "\\x61", "[\\x41-\\x5a]", "\\x{e9}+"}

// letters whose upper-case form is one byte longer / shorter in UTF-8
var likeExpanders = []string{"ɐ", "ɑ", "ɫ", "ɽ", "ȿ", "ɀ", "ɒ", "ɜ"}
var likeShrinkers = []string{"ı", "ſ", "ⱥ", "ⱦ", "ι"}

func genLikeCell(t *rapid.T) string {
	if rapid.IntRange(0, 5).Draw(t, "runcell") == 0 {
		// a run of letters that all grow (or all shrink) when upper-cased, then a plain tail: the converted text
		// outgrows the few spare bytes of the conversion buffer exactly where the tail starts
		pool := likeExpanders
		if rapid.IntRange(0, 3).Draw(t, "shrink") == 0 {
			pool = likeShrinkers
		}
		var sb strings.Builder
		sb.WriteString(rapid.SampledFrom([]string{"", "", "a", "Zz", "é"}).Draw(t, "runhead"))
		k := rapid.IntRange(1, 9).Draw(t, "runlen")
		for i := 0; i < k; i++ {
			sb.WriteString(rapid.SampledFrom(pool).Draw(t, "runch"))
		}
		sb.WriteString(rapid.SampledFrom([]string{"", "a", "ab", "abc", "abcd", "abcde", "abcdefgh", "xé", "0123456789", "b日c"}).Draw(t, "runtail"))
		return sb.String()
	}
	n := rapid.IntRange(0, 14).Draw(t, "celllen")
	var sb strings.Builder
	for i := 0; i < n && sb.Len() < 40; i++ {
		sb.WriteString(rapid.SampledFrom(likeAlphabet).Draw(t, "ch"))
	}
	return sb.String()
}

func flipCase(t *rapid.T, s string) string {
	switch rapid.IntRange(0, 3).Draw(t, "flip") {
	case 0:
		return strings.ToUpper(s)
	case 1:
		return strings.ToLower(s)
	case 2:
		var sb strings.Builder
		for i, r := range s {
			if i%2 == 0 {
				sb.WriteString(strings.ToUpper(string(r)))
			} else {
				sb.WriteString(strings.ToLower(string(r)))
			}
		}
		return sb.String()
	}
	return s
}

// runeSub cuts a substring on rune boundaries.
func runeSub(t *rapid.T, s string) string {
	rs := []rune(s)
	if len(rs) == 0 {
		return ""
	}
	a := rapid.IntRange(0, len(rs)).Draw(t, "suba")
	b := rapid.IntRange(a, len(rs)).Draw(t, "subb")
	switch rapid.IntRange(0, 2).Draw(t, "subkind") {
	case 0:
		return string(rs[:b]) // prefix
	case 1:
		return string(rs[a:]) // suffix
	}
	return string(rs[a:b])
}

func TestC18(t *testing.T) { rapid.Check(t, propC18) }

// FuzzC18 drives the same property with coverage-guided bytes (thorough tier only).
func FuzzC18(f *testing.F) { f.Fuzz(rapid.MakeFuzz(propC18)) }

// swapCase flips the case of every letter (in a regular expression also of the class escapes: \d becomes \D).
func swapCase(s string) string {
	rs := []rune(s)
	for i, r := range rs {
		if u := unicode.ToUpper(r); u != r {
			rs[i] = u
		} else {
			rs[i] = unicode.ToLower(r)
		}
	}
	return string(rs)
}

func propC18(t *rapid.T) {
	{
		n := rapid.IntRange(1, 30).Draw(t, "rows")
		cells := make([]*string, n)
		// now and then every cell is in upper case: the columns can then be the output of the ToUpper built-in (below)
		upperCells := rapid.IntRange(0, 5).Draw(t, "uppercells") == 0
		nonASCII, growth := false, false
		prevLen := 0
		for r := range cells {
			if rapid.IntRange(0, 7).Draw(t, "null") == 0 {
				continue
			}
			c := genLikeCell(t)
			if upperCells && utf8.ValidString(c) {
				c = strings.ToUpper(c)
			}
			cells[r] = &c
			if !isASCII(c) {
				nonASCII = true
			}
			if len(c) > prevLen+6 {
				growth = true
			}
			prevLen = len(c)
		}
		// pattern
		var core string
		switch rapid.IntRange(0, 7).Draw(t, "patkind") {
		case 7: // a substring of a cell, quoted so that its metacharacters are literal (regexp path, anchors matter)
			var src string
			for tries := 0; tries < 5; tries++ {
				if p := cells[rapid.IntRange(0, n-1).Draw(t, "srccellq")]; p != nil {
					src = *p
					break
				}
			}
			core = regexp.QuoteMeta(flipCase(t, runeSub(t, src)))
		case 0, 1, 2, 3: // derived from a cell
			var src string
			for tries := 0; tries < 5; tries++ {
				if p := cells[rapid.IntRange(0, n-1).Draw(t, "srccell")]; p != nil {
					src = *p
					break
				}
			}
			core = flipCase(t, runeSub(t, src))
		case 4:
			core = genLikeCell(t)
		case 5:
			core = rapid.SampledFrom([]string{"", "%", "a%b", "%a%b%", "a%%b"}).Draw(t, "special")
		case 6: // with regexp metacharacters, valid or not
			core = genLikeCell(t)
			rs := []rune(core)
			pos := rapid.IntRange(0, len(rs)).Draw(t, "metapos")
			switch rapid.IntRange(0, 3).Draw(t, "metaend") {
			case 0:
				pos = len(rs) // at the very end: interacts with the end anchor
			case 1:
				pos = 0 // at the very start: interacts with the start anchor
			}
			core = string(rs[:pos]) + rapid.SampledFrom(likeMeta).Draw(t, "meta") + string(rs[pos:])
		}
		pattern := core
		switch rapid.IntRange(0, 3).Draw(t, "wild") {
		case 1:
			pattern = "%" + core
		case 2:
			pattern = core + "%"
		case 3:
			pattern = "%" + core + "%"
		}
		// a top level | has unspecified anchoring: keep alternations inside groups only
		if strings.Contains(stripGroups(pattern), "|") {
			pattern = strings.ReplaceAll(pattern, "|", "")
		}
		if !utf8.ValidString(pattern) {
			t.Skip("invalid UTF-8 pattern")
		}
		comp := rapid.SampledFrom([]string{"like", "ilike", "ilike"}).Draw(t, "comp")
		inverse := rapid.IntRange(0, 5).Draw(t, "inverse") == 0
		tab := hx.Table{Cols: []hx.Col{{Name: "s", Kind: hx.KString, S: cells}, {Name: "e", Kind: hx.KEnum, S: cells}, {Name: "id", Kind: hx.KInt, I: hx.Iota(n)}}}
		// the enum column: values derived from the data, or declared after 190-220 unused values (or as many as fill the enum up to its 255 values) so that the values in
		// use get high internal codes (the enum matcher works on a 256-bit set of value codes)
		fillers := 0
		if rapid.IntRange(0, 4).Draw(t, "highcodes") == 0 {
			fillers = rapid.IntRange(190, 220).Draw(t, "fillers")
			if fe := rapid.IntRange(0, 2).Draw(t, "fullenum"); fe > 0 {
				// exactly the 255 values an enum can hold: the values in use get the last codes there are; or exactly
				// 63/64/65, 127/128/129, 191/192/193 values (the word boundaries of the 256-bit code set)
				distinct := map[string]bool{}
				for _, p := range cells {
					if p != nil {
						distinct[*p] = true
					}
				}
				total := 255
				if fe == 2 {
					total = rapid.SampledFrom([]int{63, 64, 65, 64, 127, 128, 129, 191, 192, 193}).Draw(t, "enumtotal")
				}
				fillers = total - len(distinct)
				if fillers < 0 {
					fillers = 0
				}
			}
			var decl []string
			for i := 0; i < fillers; i++ {
				decl = append(decl, fmt.Sprintf("\x02unused-%03d", i))
			}
			seen := map[string]bool{}
			for _, p := range cells {
				if p != nil && !seen[*p] {
					seen[*p] = true
					decl = append(decl, *p)
				}
			}
			tab.Cols[1].Enum = decl
		}
		wrap := rapid.SampledFrom([]string{"plain", "plain", "or(other,like)", "or(like,other)", "and(other,like)", "or(other,other2,like)", "or(like,like2)", "and(like,like2)", "or(like2,other,like)"}).Draw(t, "wrap")
		// a second pattern leaf (own comparator, own inversion) next to the first in one Or/And: the leaves of one
		// combinator are evaluated together
		var pattern2, comp2 string
		var inverse2 bool
		var match2 func(string) bool
		if strings.Contains(wrap, "like2") {
			var src string
			for tries := 0; tries < 5; tries++ {
				if p := cells[rapid.IntRange(0, n-1).Draw(t, "srccell2")]; p != nil {
					src = *p
					break
				}
			}
			pattern2 = []string{"", "%"}[rapid.IntRange(0, 1).Draw(t, "wild2a")] + flipCase(t, runeSub(t, src)) + []string{"", "%"}[rapid.IntRange(0, 1).Draw(t, "wild2b")]
			comp2 = rapid.SampledFrom([]string{"like", "ilike"}).Draw(t, "comp2")
			inverse2 = rapid.Bool().Draw(t, "inverse2")
			if inverse2 && rapid.Bool().Draw(t, "bothinverse") {
				inverse = true
			}
			m2, err2 := hx.LikeModel(pattern2, comp2 == "ilike")
			if err2 != nil || !utf8.ValidString(pattern2) || strings.Contains(stripGroups(pattern2), "|") {
				wrap = "plain"
			}
			match2 = m2
		}
		preludeName := ""
		desc := func() string {
			cs := make([]string, n)
			for i, p := range cells {
				cs[i] = ptrStr(p)
			}
			return fmt.Sprintf("prelude=%s cells %s\n%s pattern %q (%+q) inverse=%v unused enum values declared first: %d wrap=%s (second leaf: %s %q inverse=%v)", preludeName, strings.Join(cs, " "), comp, pattern, pattern, inverse, fillers, wrap, comp2, pattern2, inverse2)
		}
		qf := hx.Build(tab)
		if qf.Err != nil {
			t.Fatalf("build: %v\n%s", qf.Err, desc())
		}
		if upperCells && rapid.Bool().Draw(t, "viatoupper") {
			// the same cells, written by the ToUpper built-in from their lower-case forms (columns the built-in made are
			// columns like any other)
			low := hx.Table{Cols: append([]hx.Col(nil), tab.Cols...)}
			var made []string
			for i := 0; i < 2; i++ {
				if hx.Lowerable(low.Cols[i]) {
					low.Cols[i] = hx.Lowered(low.Cols[i])
					made = append(made, low.Cols[i].Name)
				}
			}
			if len(made) > 0 {
				up := hx.Build(low)
				for _, name := range made {
					up = up.Apply(qframe.Instruction{Fn: "ToUpper", DstCol: name, SrcCol1: name})
				}
				if obs, err := hx.Observe(up); err == nil && up.Err == nil && hx.Diff(tab, obs) == "" {
					qf = up
					preludeName = fmt.Sprintf("(columns %q written by the ToUpper built-in) ", made)
				}
			}
		}
		// the same rows in another order (a sorted frame: complete, but not in storage order)
		if rapid.IntRange(0, 2).Draw(t, "sortedfirst") == 0 && n > 1 {
			qf = qf.Sort(qframe.Order{Column: "id", Reverse: true})
			rev := make([]int, n)
			for i := range rev {
				rev[i] = n - 1 - i
			}
			tab = tab.Rows(rev)
			rc := make([]*string, n)
			for i := range rc {
				rc[i] = cells[n-1-i]
			}
			cells = rc
		}
		// an earlier use of the same columns: a related filter on the frame, the same filter on a part of it or on an
		// upper-cased copy of it - the checked filter below must not care (its results are what counts)
		prelude := rapid.SampledFrom([]string{"", "", "", "swapcase", "othercomp", "slicefirst", "filterfirst", "upperfirst", "samefilter"}).Draw(t, "prelude")
		preludeName += prelude
		if prelude != "" {
			_ = hx.Safely(func() {
				for _, col := range []string{"s", "e"} {
					f := qframe.Filter{Column: col, Comparator: comp, Arg: pattern, Inverse: inverse}
					switch prelude {
					case "swapcase":
						f.Arg = swapCase(pattern)
						_ = qf.Filter(f)
					case "othercomp":
						f.Comparator = map[string]string{"like": "ilike", "ilike": "like"}[comp]
						_ = qf.Filter(f)
					case "slicefirst":
						_ = qf.Slice(0, (n+1)/2).Filter(f)
						_ = qf.Slice(n/2, n).Filter(f)
					case "filterfirst":
						_ = qf.Filter(qframe.Filter{Column: "id", Comparator: ">=", Arg: n / 2}).Filter(f)
					case "upperfirst":
						_ = qf.Apply(qframe.Instruction{Fn: "ToUpper", DstCol: col, SrcCol1: col}).Filter(f)
					case "samefilter":
						_ = qf.Filter(f)
					}
				}
			})
		}
		match, merr := hx.LikeModel(pattern, comp == "ilike")
		var results [2]qframe.QFrame
		// the pattern filter alone, or as one of several sub-clauses (the matchers then work on a selection that other
		// sub-clauses have already written to)
		half := n / 2
		for i, col := range []string{"s", "e"} {
			f := qframe.Filter{Column: col, Comparator: comp, Arg: pattern, Inverse: inverse}
			other := qframe.Filter{Column: "id", Comparator: "<", Arg: half}
			other2 := qframe.Filter{Column: "id", Comparator: "=", Arg: n - 1}
			var f2 qframe.FilterClause = f
			switch wrap {
			case "or(other,like)":
				f2 = qframe.Or(other, f)
			case "or(like,other)":
				f2 = qframe.Or(f, other)
			case "and(other,like)":
				f2 = qframe.And(other, f)
			case "or(other,other2,like)":
				f2 = qframe.Or(other, other2, f)
			case "or(like,like2)":
				f2 = qframe.Or(f, qframe.Filter{Column: col, Comparator: comp2, Arg: pattern2, Inverse: inverse2})
			case "and(like,like2)":
				f2 = qframe.And(f, qframe.Filter{Column: col, Comparator: comp2, Arg: pattern2, Inverse: inverse2})
			case "or(like2,other,like)":
				f2 = qframe.Or(qframe.Filter{Column: col, Comparator: comp2, Arg: pattern2, Inverse: inverse2}, other, f)
			}
			if perr := hx.Safely(func() { results[i] = qf.Filter(f2) }); perr != nil {
				t.Fatalf("Filter on %s panicked: %v\n%s", col, perr, desc())
			}
		}
		if merr != nil {
			for i, col := range []string{"s", "e"} {
				if results[i].Err == nil {
					t.Fatalf("pattern is an invalid regular expression (%v) but filtering column %s returned no error\n%s", merr, col, desc())
				}
			}
			evC18.Case(false, desc, "invalid-regexp")
			return
		}
		var keep []int
		for r, p := range cells {
			m := p != nil && match(*p)
			if inverse {
				m = !m
			}
			id := tab.MustCol("id").I[r]
			switch wrap {
			case "or(other,like)", "or(like,other)":
				m = m || id < half
			case "and(other,like)":
				m = m && id < half
			case "or(other,other2,like)":
				m = m || id < half || id == n-1
			}
			if strings.Contains(wrap, "like2") {
				m2 := p != nil && match2(*p)
				if inverse2 {
					m2 = !m2
				}
				switch wrap {
				case "or(like,like2)":
					m = m || m2
				case "and(like,like2)":
					m = m && m2
				case "or(like2,other,like)":
					m = m || m2 || id < half
				}
			}
			if m {
				keep = append(keep, r)
			}
		}
		want := tab.Rows(keep)
		for i, col := range []string{"s", "e"} {
			if results[i].Err != nil {
				t.Fatalf("Filter on %s failed: %v\n%s", col, results[i].Err, desc())
			}
			got, err := hx.Observe(results[i])
			if err != nil {
				t.Fatal(err)
			}
			if diff := hx.Diff(want, got); diff != "" {
				t.Fatalf("%s on the %s column: rows %v expected, %s\n%s", comp, map[string]string{"s": "string", "e": "enum"}[col], keep, diff, desc())
			}
		}
		classes := []string{"comp:" + comp}
		isRe := regexp.QuoteMeta(pattern) != pattern
		if isRe {
			classes = append(classes, "regexp-pattern")
		} else {
			classes = append(classes, fmt.Sprintf("literal:start%%=%v:end%%=%v", strings.HasPrefix(pattern, "%"), strings.HasSuffix(pattern, "%")))
		}
		if len(keep) > 0 && len(keep) < n {
			classes = append(classes, "partial-match")
		}
		evC18.Case((comp == "ilike" && nonASCII) || growth, desc, classes...)
	}
}

func isASCII(s string) bool {
	for i := 0; i < len(s); i++ {
		if s[i] >= 0x80 {
			return false
		}
	}
	return true
}

// stripGroups removes everything inside parentheses (so a | inside a group does not count as top level).
func stripGroups(s string) string {
	var sb strings.Builder
	depth := 0
	for _, r := range s {
		switch {
		case r == '(':
			depth++
		case r == ')' && depth > 0:
			depth--
		case depth == 0:
			sb.WriteRune(r)
		}
	}
	return sb.String()
}
