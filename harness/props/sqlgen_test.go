package props

import (
	"database/sql/driver"
	"fmt"
	"math"

	"pgregory.net/rapid"

	"verifharness/hx"
)

// resultSet is a generated SQL result set together with the frame it denotes.
type resultSet struct {
	Cols []string
	Rows [][]driver.Value
	Exp  hx.Table // int64 -> int, float64, bool, text ([]byte or string) -> string, NULL -> null string / NaN
}

func (rs resultSet) String() string {
	s := fmt.Sprintf("result set cols=%q\n", rs.Cols)
	for i, r := range rs.Rows {
		if i >= 12 {
			s += fmt.Sprintf("  …(%d more rows)\n", len(rs.Rows)-i)
			break
		}
		s += "  "
		for _, v := range r {
			switch x := v.(type) {
			case []byte:
				s += fmt.Sprintf("bytes(%q) ", x)
			case string:
				s += fmt.Sprintf("%q ", x)
			case nil:
				s += "NULL "
			default:
				s += fmt.Sprintf("%v ", x)
			}
		}
		s += "\n"
	}
	return s
}

// genResultSet draws a result set with >= minRows rows. NULLs occur only in text and
// float columns, never in all rows of a column; every column has one consistent type.
func genResultSet(t *rapid.T, minRows int) resultSet {
	n := rapid.IntRange(minRows, 12).Draw(t, "rsrows")
	nc := rapid.IntRange(1, 5).Draw(t, "rscols")
	names := rapid.Permutation([]string{"id", "name", "value", "flag", "Col With Blank", "ä", "x", "y", "z"}).Draw(t, "rsnames")[:nc]
	rs := resultSet{Cols: append([]string(nil), names...), Rows: make([][]driver.Value, n)}
	for r := range rs.Rows {
		rs.Rows[r] = make([]driver.Value, nc)
	}
	for ci, name := range names {
		kind := rapid.SampledFrom([]string{"int", "float", "bool", "text", "bytes"}).Draw(t, "rskind")
		c := hx.Col{Name: name}
		nonNull := rapid.IntRange(0, n-1).Draw(t, "nonnullrow") // this row is never NULL
		for r := 0; r < n; r++ {
			null := r != nonNull && (kind == "float" || kind == "text" || kind == "bytes") && rapid.IntRange(0, 3).Draw(t, "null") == 0
			switch kind {
			case "int":
				v := hx.GenInt(t)
				rs.Rows[r][ci] = int64(v)
				c.Kind = hx.KInt
				c.I = append(c.I, v)
			case "float":
				c.Kind = hx.KFloat
				if null {
					rs.Rows[r][ci] = nil
					c.F = append(c.F, math.NaN())
				} else {
					f := hx.GenFloat(t, true)
					if math.IsNaN(f) {
						f = 2.5
					}
					rs.Rows[r][ci] = f
					c.F = append(c.F, f)
				}
			case "bool":
				v := rapid.Bool().Draw(t, "b")
				rs.Rows[r][ci] = v
				c.Kind = hx.KBool
				c.B = append(c.B, v)
			default:
				c.Kind = hx.KString
				if null {
					rs.Rows[r][ci] = nil
					c.S = append(c.S, nil)
				} else {
					s := hx.GenStr(t, true)
					if kind == "bytes" {
						rs.Rows[r][ci] = []byte(s)
					} else {
						rs.Rows[r][ci] = s
					}
					c.S = append(c.S, hx.Sp(s))
				}
			}
		}
		rs.Exp.Cols = append(rs.Exp.Cols, c)
	}
	return rs
}

type driverValue = driver.Value
