package props

import (
	"bytes"
	"fmt"
	"github.com/tobgu/qframe/config/csv"
	"io"
	"strings"
	"testing"
	"time"

	"github.com/tobgu/qframe"
	qsql "github.com/tobgu/qframe/config/sql"
	"pgregory.net/rapid"

	"verifharness/ev"
	"verifharness/faults"
	"verifharness/hx"
)

// C15 — I/O failures are reported, never swallowed or turned into partial data.
//
// Fault enumeration: for every generated input every failure position is executed.

var evC15 = ev.New("C15", "fault enumeration: for each generated input (CSV documents of C12's model, JSON written from generated frames, frames of 0-60 rows, SQL result sets) EVERY failure position is executed: "+
	"ReadCSV/ReadJSON - the reader delivers the first k bytes (under the drawn chunking, error alone or together with the last bytes; the error is plain, io.ErrUnexpectedEOF, wraps io.EOF or is merely named EOF) then fails, k=0..len; ToCSV/ToJSON - the writer accepts k bytes then fails, k=0..len-1; "+
	"ToSQL - Prepare/Exec of statement k fails; ReadSQL - Prepare, Query, Next at row k (k=0..rows), unsupported value at row k; "+
	"oracle: no panic; reader side: an error, or a frame equal to the fault-free result; writer side: an error whenever the sink did not take the complete output; "+
	"evaluations = input x position executions, exhaustive over positions per input (inputs are sampled); non-trivial case = an input with >=2 positions strictly inside the stream; distinct = FNV-64 of the input")

func csvPosClass(data []byte, delim byte, k int) string {
	if k == 0 {
		return "pos:at-start"
	}
	if k >= len(data) {
		return "pos:at-end"
	}
	inQ := false
	for i := 0; i < k; i++ {
		if data[i] == '"' {
			inQ = !inQ
		}
	}
	switch {
	case inQ:
		return "pos:inside-quoted-field"
	case data[k-1] == '\n':
		return "pos:row-start"
	case data[k-1] == delim:
		return "pos:field-start"
	}
	return "pos:inside-field"
}

func TestC15(t *testing.T) {
	rapid.Check(t, func(t *rapid.T) {
		kind := rapid.SampledFrom([]string{"readcsv", "readcsv", "readjson", "tocsv", "tojson", "tosql", "readsql"}).Draw(t, "kind")
		if kind == "readcsv" && rapid.IntRange(0, 11).Draw(t, "longdoc") == 0 {
			kind = "readcsv-long"
		}
		switch kind {
		case "readcsv-long":
			// documents of a thousand and more rows, read with and without a RowCountHint (the reader changes the way it
			// stores and fetches things once a document turns out long): the reader fails at sampled positions - every
			// position near the thousandth row and near the end, every 61st one elsewhere
			rows := rapid.SampledFrom([]int{999, 1000, 1001, 1200, 2100}).Draw(t, "longrows")
			hint := rapid.SampledFrom([]int{0, 1500, 2001, 2001, 5000}).Draw(t, "hint")
			var sb strings.Builder
			sb.WriteString("i,s\n")
			rowStart := make([]int, 0, rows)
			for r := 0; r < rows; r++ {
				rowStart = append(rowStart, sb.Len())
				fmt.Fprintf(&sb, "%d,v%d\n", r, r%7)
			}
			data := []byte(sb.String())
			var fns []csv.ConfigFunc
			if hint > 0 {
				fns = append(fns, csv.RowCountHint(hint))
			}
			rerr := rapid.SampledFrom(faults.ReadErrors).Draw(t, "readerr")
			chunk := rapid.SampledFrom([]int{1 << 20, 4096, 1000, 333}).Draw(t, "chunk")
			desc := func() string {
				return fmt.Sprintf("ReadCSV of %d rows (%d bytes) with RowCountHint(%d) under reader faults, reads of %d bytes, error %#v", rows, len(data), hint, chunk, rerr)
			}
			positions := 0
			near := func(k int) bool {
				a, b := rowStart[min(rows-1, 995)], rowStart[min(rows-1, 1003)]
				return k < 8 || k >= len(data)-200 || (k >= a && k <= b+8)
			}
			for k := 0; k < len(data); k++ {
				if !near(k) && k%61 != 0 {
					continue
				}
				rd := hx.NewChunkReader(data, []int{chunk}, false)
				rd.FailAt, rd.FailErr = k, rerr
				var res qframe.QFrame
				if perr := hx.Safely(func() { res = qframe.ReadCSV(rd, fns...) }); perr != nil {
					t.Fatalf("ReadCSV panicked with the reader failing after %d of %d bytes: %v\n%s", k, len(data), perr, desc())
				}
				if res.Err == nil {
					t.Fatalf("the reader failed after %d of %d bytes but ReadCSV returned an error-free frame with %d of %d rows\n%s", k, len(data), res.Len(), rows, desc())
				}
				positions++
			}
			evC15.ClassN("readcsv-long:positions", int64(positions))
			evC15.AddEvals(int64(positions) - 1)
			evC15.Case(true, desc, "kind:readcsv-long")
		case "readcsv":
			c := genCSVCase(t)
			if len(c.doc.Rows) > 100 {
				t.Skip("big documents are C12's business")
			}
			data := c.doc.Bytes()
			if len(data) > 6000 {
				t.Skip("document too long for exhaustive enumeration")
			}
			withData := rapid.Bool().Draw(t, "errwithdata")
			rerr := rapid.SampledFrom(faults.ReadErrors).Draw(t, "readerr")
			desc := func() string {
				return "ReadCSV under reader faults\n" + c.String() + fmt.Sprintf("\nerror together with last bytes: %v, error %#v", withData, rerr)
			}
			// the failing reader may also offer what in-memory readers offer (Len, as strings.Reader and bytes.Buffer
			// do): code that sizes its buffers from it must still see the failure
			hasLen := rapid.IntRange(0, 2).Draw(t, "readerhaslen") == 0
			// ... or Seek, like files: a Seek that fails is a failure of the reader as well
			failSeekAt := -1
			hasSeek := !hasLen && rapid.IntRange(0, 3).Draw(t, "readerhasseek") == 0
			if hasSeek {
				failSeekAt = rapid.IntRange(-1, 4).Draw(t, "failseekat")
			}
			seekFailed := false
			mk := func(failAt int) io.Reader {
				rd := hx.NewChunkReader(data, c.schedule, c.eofWith)
				rd.NoCycle = c.noCycle
				rd.FailAt, rd.FailErr, rd.FailWithData = failAt, rerr, withData
				if hasLen {
					return hx.LenReader{ChunkReader: rd}
				}
				if hasSeek {
					seeks := 0
					seekFailed = false
					return hx.SeekReader{ChunkReader: rd, FailSeekAt: failSeekAt, Seeks: &seeks, Failed: &seekFailed}
				}
				return rd
			}
			saveSeek := failSeekAt
			failSeekAt = -1 // the fault-free reference
			full := qframe.ReadCSV(mk(-1), c.confFns()...)
			failSeekAt = saveSeek
			if full.Err != nil {
				evC15.Case(false, desc, "input-rejected-without-fault")
				return
			}
			// a reader that can Seek and whose n-th Seek call fails (n = 0..3), the data itself being readable: an error,
			// or the complete frame - never an error-free frame with rows missing
			for fs := 0; fs <= 3; fs++ {
				rd := hx.NewChunkReader(data, c.schedule, c.eofWith)
				rd.NoCycle = c.noCycle
				seeks, failed := 0, false
				var res qframe.QFrame
				if perr := hx.Safely(func() {
					res = qframe.ReadCSV(hx.SeekReader{ChunkReader: rd, FailSeekAt: fs, Seeks: &seeks, Failed: &failed}, c.confFns()...)
				}); perr != nil {
					t.Fatalf("ReadCSV panicked when Seek call %d of the reader failed: %v\n%s", fs, perr, desc())
				}
				if res.Err == nil {
					got, err := hx.Observe(res)
					if err != nil || res.Len() != full.Len() || hx.Diff(hx.MustObserve(full), got) != "" {
						t.Fatalf("Seek call %d of the reader failed (%d Seek calls made) but ReadCSV returned an error-free frame with %d of %d rows\n%s", fs, seeks, res.Len(), full.Len(), desc())
					}
				}
			}
			fullT, err := hx.Observe(full)
			if err != nil {
				t.Fatalf("observe fault free: %v\n%s", err, desc())
			}
			counts := map[string]int64{}
			for k := 0; k <= len(data); k++ {
				var res qframe.QFrame
				if perr := hx.Safely(func() { res = qframe.ReadCSV(mk(k), c.confFns()...) }); perr != nil {
					t.Fatalf("ReadCSV panicked with the reader failing after %d of %d bytes: %v\n%s", k, len(data), perr, desc())
				}
				counts[csvPosClass(data, c.doc.Delim, k)]++
				if res.Err != nil {
					continue
				}
				got, err := hx.Observe(res)
				if err != nil || res.Len() != full.Len() || hx.Diff(fullT, got) != "" {
					t.Fatalf("reader failed after %d of %d bytes (%s) but ReadCSV returned an error-free frame with %d of %d rows: %s\n%s",
						k, len(data), csvPosClass(data, c.doc.Delim, k), res.Len(), full.Len(), hx.Diff(fullT, got), desc())
				}
			}
			for cl, n := range counts {
				evC15.ClassN("readcsv:"+cl, n)
			}
			evC15.AddEvals(int64(len(data)))
			evC15.Case(len(data) >= 3, desc, "kind:readcsv")
		case "readjson":
			tab := noInf(hx.GenTable(t, hx.TableOpt{MinCols: 1, MaxCols: 4, NoNull: false, Rows: rapid.IntRange(1, 20)}))
			qf := hx.Build(tab)
			var buf bytes.Buffer
			if err := qf.ToJSON(&buf); err != nil {
				t.Fatalf("ToJSON: %v", err)
			}
			data := buf.Bytes()
			schedule := []int{rapid.SampledFrom([]int{1, 3, 7, 64, 1 << 20}).Draw(t, "chunk")}
			withData := rapid.Bool().Draw(t, "errwithdata")
			rerr := rapid.SampledFrom(faults.ReadErrors).Draw(t, "readerr")
			desc := func() string {
				return fmt.Sprintf("ReadJSON under reader faults\njson %q\nchunk %v error with data %v, error %#v", clipS(string(data)), schedule, withData, rerr)
			}
			mk := func(failAt int) *hx.ChunkReader {
				rd := hx.NewChunkReader(data, schedule, false)
				rd.FailAt, rd.FailErr, rd.FailWithData = failAt, rerr, withData
				return rd
			}
			full := qframe.ReadJSON(mk(-1))
			if full.Err != nil {
				// e.g. a float column starting with NaN (null) followed by numbers: not invertible, fine
				evC15.Case(false, desc, "input-rejected-without-fault")
				return
			}
			fullT, err := hx.Observe(full)
			if err != nil {
				t.Fatalf("observe: %v", err)
			}
			for k := 0; k <= len(data); k++ {
				var res qframe.QFrame
				if perr := hx.Safely(func() { res = qframe.ReadJSON(mk(k)) }); perr != nil {
					t.Fatalf("ReadJSON panicked with the reader failing after %d of %d bytes: %v\n%s", k, len(data), perr, desc())
				}
				if res.Err != nil {
					continue
				}
				got, err := hx.Observe(res)
				if err != nil || res.Len() != full.Len() || hx.Diff(fullT, got) != "" {
					t.Fatalf("reader failed after %d of %d bytes but ReadJSON returned an error-free frame with %d of %d rows\n%s", k, len(data), res.Len(), full.Len(), desc())
				}
			}
			evC15.ClassN("readjson:positions", int64(len(data)+1))
			evC15.AddEvals(int64(len(data)))
			evC15.Case(len(data) >= 3, desc, "kind:readjson")
		case "tocsv", "tojson":
			tab := noInf(hx.GenTable(t, hx.TableOpt{MinCols: 1, MaxCols: 5, Wide: true, Rows: rapid.OneOf(rapid.IntRange(0, 12), rapid.IntRange(13, 60))}))
			if kind == "tocsv" && rapid.IntRange(0, 5).Draw(t, "bigcsv") == 0 {
				// output larger than the 4 KiB buffer of the csv writer: errors surface before the final flush
				seed := hx.SplitMix(rapid.Uint64().Draw(t, "fill"))
				tab = hx.Table{Cols: []hx.Col{hx.FillCol(&seed, "s1", hx.KString, 700, 50, nil), hx.FillCol(&seed, "i1", hx.KInt, 700, 1000, nil)}}
			}
			d := hx.GenDerived(t, tab, 2)
			if rapid.IntRange(0, 9).Draw(t, "columnless") == 0 {
				// a frame with rows but without columns (what Aggregate without keys and aggregations returns): whatever
				// little the writers put out for it, it has to reach the writer
				if cl := d.QF.GroupBy().Aggregate(); cl.Err == nil && cl.Len() > 0 && len(cl.ColumnNames()) == 0 {
					d.QF = cl
					d.Route = append(d.Route, "GroupBy().Aggregate(): rows without columns")
				}
			}
			// the writer is a plain io.Writer, or one that also offers WriteByte/WriteString (same fault plan behind them)
			rich := rapid.Bool().Draw(t, "richwriter")
			write := func(w *faults.FailWriter) error {
				var dst io.Writer = w
				rw := &faults.RichFailWriter{FailWriter: *w}
				if rich {
					dst = rw
				}
				var err error
				if kind == "tocsv" {
					err = d.QF.ToCSV(dst)
				} else {
					err = d.QF.ToJSON(dst)
				}
				if rich {
					*w = rw.FailWriter
				}
				return err
			}
			ok := &faults.FailWriter{Limit: -1}
			if err := write(ok); err != nil {
				t.Fatalf("%s without fault failed: %v\n%s", kind, err, d.String())
			}
			total := len(ok.Accepted)
			desc := func() string {
				return kind + " under writer faults, output " + fmt.Sprint(total) + " bytes\n" + d.String()
			}
			werr := rapid.SampledFrom(faults.WriteErrors).Draw(t, "writeerr")
			for k := 0; k < total; k++ {
				w := &faults.FailWriter{Limit: k, Err: werr}
				var err error
				if perr := hx.Safely(func() { err = write(w) }); perr != nil {
					t.Fatalf("%s panicked with the writer failing after %d of %d bytes: %v\n%s", kind, k, total, perr, desc())
				}
				if err == nil {
					t.Fatalf("%s reported success although the writer accepted only %d of %d bytes and reported %v\n%s", kind, len(w.Accepted), total, werr, desc())
				}
			}
			// a transient fault: exactly one Write call is refused, all later ones are accepted - the output was not
			// completely accepted by the writer, whatever succeeded afterwards
			for call := 1; call <= ok.Calls && call <= 400; call++ {
				w := &faults.FailWriter{Limit: -1, FailCall: call, Err: werr}
				var err error
				if perr := hx.Safely(func() { err = write(w) }); perr != nil {
					t.Fatalf("%s panicked with the writer refusing Write call %d of %d: %v\n%s", kind, call, ok.Calls, perr, desc())
				}
				if w.Failed && err == nil {
					t.Fatalf("%s reported success although the writer refused Write call %d (of %d without fault) and accepted %d of %d bytes\n%s", kind, call, ok.Calls, len(w.Accepted), total, desc())
				}
			}
			evC15.ClassN(kind+":write-calls-refused-once", int64(ok.Calls))
			evC15.ClassN(kind+":positions", int64(total))
			if total > 4096 {
				evC15.Class(kind + ":output>4KiB")
			}
			evC15.AddEvals(int64(total) - 1)
			evC15.Case(total >= 3, desc, "kind:"+kind)
		case "tosql":
			tab := noInf(hx.GenTable(t, hx.TableOpt{MinCols: 1, MaxCols: 4, Rows: rapid.OneOf(rapid.IntRange(1, 15), rapid.IntRange(1, 15), rapid.IntRange(1, 15), rapid.IntRange(1, 15), rapid.IntRange(95, 210))}))
			// (now and then a few hundred rows: a writer may send larger frames in another way, e.g. in batches)
			d := hx.GenDerived(t, tab, 2)
			exact := 0
			if rapid.IntRange(0, 5).Draw(t, "exactrows") == 0 {
				// a frame of exactly 2^k rows or one next to it (a writer that sends batches of 2^k rows has no remainder
				// then, or a remainder of one row): a narrow table filled from one seed, in sorted order
				exact = rapid.SampledFrom([]int{63, 64, 65, 127, 128, 129, 255, 256, 257, 512, 513, 1024}).Draw(t, "nexact")
				sm := hx.SplitMix(rapid.Uint64().Draw(t, "exactseed"))
				big := hx.Table{Cols: []hx.Col{hx.FillCol(&sm, "i1", hx.KInt, exact, 50, nil), hx.FillCol(&sm, "s1", hx.KString, exact, 9, nil)}}
				d = hx.GenDerived(t, big, 0)
				d.QF = d.QF.Sort(qframe.Order{Column: "i1"})
			}
			n := d.QF.Len()
			// any dialect configuration: the write path may differ with the options (placeholder style, presets)
			dopts := rapid.SampledFrom([]string{"plain", "incrementing", "postgres", "mysql", "sqlite", "escape"}).Draw(t, "sqldialect")
			sqlFns := func() []qsql.ConfigFunc {
				fns := []qsql.ConfigFunc{qsql.Table("t")}
				switch dopts {
				case "incrementing":
					fns = append(fns, qsql.Incrementing())
				case "postgres":
					fns = append(fns, qsql.Postgres())
				case "mysql":
					fns = append(fns, qsql.MySQL())
				case "sqlite":
					fns = append(fns, qsql.SQLite())
				case "escape":
					fns = append(fns, qsql.EscapeChar('"'))
				}
				return fns
			}
			desc := func() string { return "ToSQL (" + dopts + ") under driver faults\n" + d.String() }
			for mode := 0; mode < 2; mode++ {
				for k := 0; k < n; k++ {
					if exact > 0 && !(k < 2 || k >= n-2 || k == n/2 || k%64 < 2 || k%64 == 63) {
						continue // large frames: the statements around every multiple of 64, the first and the last ones
					}
					m, db := faults.New()
					if mode == 0 {
						m.FailExecAt = k
					} else {
						m.FailPrepareAt = k
					}
					tx, err := db.Begin()
					if err != nil {
						t.Fatal(err)
					}
					var werr error
					if perr := hx.Safely(func() { werr = d.QF.ToSQL(tx, sqlFns()...) }); perr != nil {
						t.Fatalf("ToSQL panicked with statement %d failing (mode %d): %v\n%s", k, mode, perr, desc())
					}
					_ = tx.Rollback()
					m.Release(db)
					if m.Delivered == 0 {
						continue // the code never made that call (e.g. it prepares the statement once): no fault happened
					}
					if werr == nil {
						t.Fatalf("ToSQL reported success although statement %d of %d failed (mode %d: 0=Exec 1=Prepare)\n%s", k, n, mode, desc())
					}
				}
			}
			evC15.ClassN("tosql:positions", int64(2*n))
			evC15.AddEvals(int64(2*n) - 1)
			evC15.Case(n >= 2, desc, "kind:tosql")
		case "readsql":
			rs := genResultSet(t, 1)
			serr := rapid.SampledFrom(faults.SQLErrors).Draw(t, "sqlerr")
			withArgs := rapid.Bool().Draw(t, "withqueryargs")
			desc := func() string {
				return fmt.Sprintf("ReadSQL under driver faults (error %v, query arguments %v)\n%s", serr, withArgs, rs.String())
			}
			run := func(plan func(m *faults.MemDB)) qframe.QFrame {
				m, db := faults.New()
				defer m.Release(db)
				m.Cols, m.Rows, m.Err = rs.Cols, rs.Rows, serr
				plan(m)
				tx, err := db.Begin()
				if err != nil {
					t.Fatal(err)
				}
				defer tx.Rollback()
				var res qframe.QFrame
				if perr := hx.Safely(func() {
					if withArgs {
						res = qframe.ReadSQLWithArgs(tx, []interface{}{int64(7), "x"}, qsql.Query("select * from t where a > ? and b = ?"))
					} else {
						res = qframe.ReadSQL(tx, qsql.Query("select * from t"))
					}
				}); perr != nil {
					t.Fatalf("ReadSQL panicked: %v\n%s", perr, desc())
				}
				return res
			}
			full := run(func(m *faults.MemDB) {})
			if full.Err != nil {
				t.Fatalf("ReadSQL without fault failed: %v\n%s", full.Err, desc())
			}
			fullT, err := hx.Observe(full)
			if err != nil {
				t.Fatal(err)
			}
			if res := run(func(m *faults.MemDB) { m.FailPrepareAt = 0 }); res.Err == nil {
				t.Fatalf("ReadSQL reported no error although Prepare failed\n%s", desc())
			}
			if res := run(func(m *faults.MemDB) { m.FailQuery = true }); res.Err == nil {
				t.Fatalf("ReadSQL reported no error although Query failed\n%s", desc())
			}
			for k := 0; k <= len(rs.Rows); k++ {
				res := run(func(m *faults.MemDB) { m.FailNextAt = k })
				if res.Err != nil {
					continue
				}
				got, err := hx.Observe(res)
				if err != nil || res.Len() != full.Len() || hx.Diff(fullT, got) != "" {
					t.Fatalf("the driver failed at row %d of %d but ReadSQL returned an error-free frame with %d rows\n%s", k, len(rs.Rows), res.Len(), desc())
				}
			}
			// a value the scanner cannot convert, at row k
			for k := 0; k < len(rs.Rows); k++ {
				res := run(func(m *faults.MemDB) {
					rows := make([][]interface{}, 0)
					_ = rows
					cp := make([][]driverValue, len(rs.Rows))
					for i := range rs.Rows {
						cp[i] = append([]driverValue(nil), rs.Rows[i]...)
					}
					cp[k][0] = time.Unix(0, 0)
					m.Rows = cp
				})
				if res.Err == nil {
					t.Fatalf("ReadSQL returned no error although row %d held a value it cannot scan (time.Time)\n%s", k, desc())
				}
			}
			evC15.ClassN("readsql:positions", int64(2*len(rs.Rows)+3))
			evC15.AddEvals(int64(2*len(rs.Rows) + 2))
			evC15.Case(len(rs.Rows) >= 2, desc, "kind:readsql")
		}
	})
}
