package props

import (
	"bytes"
	"fmt"
	"strconv"
	"strings"
	"testing"

	"github.com/tobgu/qframe"
	"github.com/tobgu/qframe/config/csv"
	"pgregory.net/rapid"

	"verifharness/ev"
	"verifharness/hx"
)

// C12 — ReadCSV parses RFC 4180 input faithfully for any fragmentation of the stream.

var evC12 = ev.New("C12", "document model (1-6 columns, 0-12 rows, or 1000-2500 rows for RowCountHint; cells over bytes without CR incl. delimiters, quotes, LF, blanks, numeric/boolean look-alikes, number texts of structured floats in f/g/e/G spellings, "+
	"fields of 1015..4105 bytes with a quote/delimiter/LF at the buffer edges; optional quoting; LF/CRLF/mixed row ends; with/without final break; documents padded to exactly 1023..4100 bytes (buffer size and its doublings +-1); delimiters , ; tab | space x) x configuration "+
	"(EmptyNull, IgnoreEmptyLines with injected blank lines, Headers, Types/EnumValues, RenameDuplicateColumns, MissingColumnNameAlias, RowCountHint; the same option values optionally used for an earlier read) x read schedule "+
	"(one read, all 1-byte reads, random 1-7, boundaries right after every quote/delimiter/line break, 1023/1024/1025; EOF with or after the last data); "+
	"oracle: the frame (or the error) denoted by the document model; non-trivial = a quoted field holding a quote, delimiter or LF read in fragments of <=7 bytes, or a field of >=1024 bytes; "+
	"distinct = FNV-64 of (document bytes, configuration, schedule)")

var csvDelims = []byte{',', ',', ',', ';', '\t', '|', ' ', 'x', ',', ';', 0xFE, 0x80, 0xFF, 0x01, 0xEF, 0x00}

var intCells = []string{"0", "1", "-1", "7", "+5", "007", "010", "0012", "-08", "42", "-0", "123456789012", "9223372036854775807", "-9223372036854775808",
	// zero-padded beyond the length of the longest int text: still ints (the sign and the digits decide, not the length)
	"000000000000000000007", "+0000000000000000000000012", "-0000000000000000000009223372036854775808", "0000000000000000000000000000000"}

// look like ints but do not fit: the column must fall back to float (or be refused when declared int)
var bigIntCells = []string{"9223372036854775808", "9999999999999999999", "-9223372036854775809", "18446744073709551616", "+9223372036854775808"}
var floatCells = []string{"1.5", "-0.25", "1e5", "NaN", "inf", "", ".5", "5.", "-Inf", "0x1p-2", "1e-320", "99999999999999999999", "3"}
var boolCells = []string{"true", "false", "t", "F", "TRUE", "True", "T", "f"}
var strPieces = []string{"a", "b", "ab", " ", "  ", "\"", "\"\"", ",", ";", "\t", "|", "x", "\n", "\n\n", "ä", "€", "\xff", "\xfe", "\ufffd", "\x80", "0", "1", "-", "e", ".", "true", "'", "\\", "%", "q\"q", "a,b", "line1\nline2", "null", "NULL", "\ufeff", "N/A", "0x1F", "0b101", "0o17", "1_000"}

func genCell(t *rapid.T, profile int) string {
	switch profile {
	case 0:
		if rapid.IntRange(0, 14).Draw(t, "outlier") == 0 {
			return rapid.SampledFrom([]string{"1.5", "", "x", "1e3", "true"}).Draw(t, "intoutlier")
		}
		if rapid.IntRange(0, 19).Draw(t, "bigint") == 0 {
			return rapid.SampledFrom(bigIntCells).Draw(t, "bigintcell")
		}
		return rapid.SampledFrom(intCells).Draw(t, "intcell")
	case 1:
		if rapid.IntRange(0, 14).Draw(t, "outlier") == 0 {
			return rapid.SampledFrom([]string{"x", "true", "1,5", "--1"}).Draw(t, "floatoutlier")
		}
		if rapid.IntRange(0, 3).Draw(t, "structuredfloat") == 0 {
			// a number text in one of the usual spellings; what it denotes is decided by strconv in the model
			f := hx.GenFloatStructured(t)
			return strconv.FormatFloat(f, rapid.SampledFrom([]byte{'f', 'g', 'e', 'G'}).Draw(t, "ffmt"), rapid.SampledFrom([]int{-1, -1, 17, 20}).Draw(t, "fprec"), 64)
		}
		return rapid.SampledFrom(floatCells).Draw(t, "floatcell")
	case 2:
		if rapid.IntRange(0, 14).Draw(t, "outlier") == 0 {
			return rapid.SampledFrom([]string{"yes", "", "2", "truE"}).Draw(t, "booloutlier")
		}
		return rapid.SampledFrom(boolCells).Draw(t, "boolcell")
	case 3:
		// long field around the 1 KiB buffer and its doublings, special byte at the edge
		lens := []int{1015, 1019, 1020, 1021, 1022, 1023, 1024, 1025, 1026, 1030, 2040, 2046, 2047, 2048, 2049, 2050, 2055, 4090, 4096, 4097, 4098, 4099, 4100, 4105}
		if tier() == "thorough" {
			lens = append(lens, 8190, 8198, 8199, 8200, 8201, 16395, 16399, 16400, 16401, 32799, 32800, 32801) // further doublings 2n+1 of the buffer
		}
		l := rapid.SampledFrom(lens).Draw(t, "longlen")
		special := rapid.SampledFrom([]string{"\"", "\"\"", ",", "\n", "", "a", "\"\n", "\",\""}).Draw(t, "special")
		tail := rapid.SampledFrom([]string{"", "z", "zz\"", "tail"}).Draw(t, "tail")
		return strings.Repeat("p", l) + special + tail
	}
	n := rapid.IntRange(0, 4).Draw(t, "pieces")
	var sb strings.Builder
	for i := 0; i < n; i++ {
		sb.WriteString(rapid.SampledFrom(strPieces).Draw(t, "piece"))
	}
	return sb.String()
}

var csvNames = []string{"a", "b", "c", "d", "e", "f", "col 1", "ä", "x,y", "q\"", "A", "long name with blanks", "n\nl", "''", "\"\"", "\ufeffbom", "null", " pad ", "'ab\"", "\"x'", "'\"", " ", "  ", "\t"}

type csvCase struct {
	doc      hx.CSVDoc
	conf     hx.CSVConf
	schedule []int
	noCycle  bool
	eofWith  bool
	schedTag string
}

func (c csvCase) String() string {
	b := c.doc.Bytes()
	s := fmt.Sprintf("%q", b)
	if len(s) > 900 {
		s = fmt.Sprintf("%s…(%d bytes, h=%x)…%s", s[:500], len(b), ev.Hash(string(b)), s[len(s)-200:])
	}
	sched := fmt.Sprint(c.schedule)
	if len(sched) > 120 {
		sched = sched[:120] + "…"
	}
	return fmt.Sprintf("doc delim=%q bytes=%s\nconf %s\nschedule %s %s noCycle=%v eofWithData=%v", c.doc.Delim, s, c.conf.String(), c.schedTag, sched, c.noCycle, c.eofWith)
}

func genCSVCase(t *rapid.T) csvCase {
	var c csvCase
	d := &c.doc
	d.Delim = csvDelims[rapid.IntRange(0, len(csvDelims)-1).Draw(t, "delim")]
	ncols := rapid.IntRange(1, 6).Draw(t, "ncols")
	big := rapid.IntRange(0, 39).Draw(t, "big") == 17
	nrows := rapid.IntRange(0, 12).Draw(t, "nrows")
	c.conf.EmptyNull = rapid.Bool().Draw(t, "emptynull")
	c.conf.IgnoreEmptyLines = rapid.IntRange(0, 2).Draw(t, "ignoreempty") == 0

	// header
	names := rapid.Permutation(csvNames).Draw(t, "names")[:ncols]
	names = append([]string(nil), names...)
	hdrKind := rapid.SampledFrom([]string{"plain", "plain", "plain", "dup", "missing", "headers-option"}).Draw(t, "hdrkind")
	switch hdrKind {
	case "dup":
		if ncols >= 2 {
			names[ncols-1] = names[0]
			c.conf.RenameDuplicates = rapid.IntRange(0, 3).Draw(t, "rename") > 0
			// further duplicates, and genuine columns that carry the very names a renaming scheme would pick
			if ncols >= 3 {
				switch rapid.IntRange(0, 5).Draw(t, "dupkind") {
				case 0:
					names[1] = names[0] // three of a kind
				case 1:
					names[1] = names[0] + "0" // genuine column before the duplicate
				case 2:
					names[ncols-1], names[ncols-2] = names[0]+"0", names[0] // ... and after it
				case 3:
					if ncols >= 4 {
						names[1], names[2] = names[0]+"0", names[0]+"1"
					}
				}
			}
		}
	case "missing":
		if ncols >= 2 {
			names[rapid.IntRange(0, ncols-1).Draw(t, "missingpos")] = ""
			if rapid.IntRange(0, 3).Draw(t, "alias") > 0 {
				c.conf.MissingAlias = rapid.SampledFrom([]string{"unnamed", "a", "_"}).Draw(t, "aliasname")
				c.conf.RenameDuplicates = rapid.Bool().Draw(t, "rename2")
			}
		}
	}
	if hdrKind == "headers-option" || ((hdrKind == "dup" || hdrKind == "missing") && rapid.IntRange(0, 2).Draw(t, "viaheaders") == 0) {
		c.conf.Headers = names
	} else {
		d.Header = names
		d.QuoteHdr = make([]bool, ncols)
		for i := range d.QuoteHdr {
			d.QuoteHdr[i] = rapid.IntRange(0, 5).Draw(t, "qh") == 0
		}
	}

	// cells
	profiles := make([]int, ncols)
	for i := range profiles {
		profiles[i] = rapid.SampledFrom([]int{0, 1, 2, 4, 4, 4}).Draw(t, "profile")
	}
	if big {
		nrows = rapid.IntRange(1000, 3200).Draw(t, "bigrows")
		seed := hx.SplitMix(rapid.Uint64().Draw(t, "bigseed"))
		d.Rows = make([][]string, nrows)
		d.Quote = make([][]bool, nrows)
		pool := [][]string{intCells[:6], floatCells[:6], boolCells[:4], nil, {"a", "", "b,c", "q\"q", "x\ny", "zz"}}
		for r := range d.Rows {
			d.Rows[r] = make([]string, ncols)
			d.Quote[r] = make([]bool, ncols)
			for i := range d.Rows[r] {
				p := pool[profiles[i]]
				d.Rows[r][i] = p[seed.Intn(len(p))]
				d.Quote[r][i] = seed.Intn(7) == 0
			}
		}
		c.conf.RowCountHint = rapid.SampledFrom([]int{0, 1500, 2001, 2001, 2002, 2100, 2500, 5000, 100000}).Draw(t, "hint") // too low, about right, far too high
	} else {
		d.Rows = make([][]string, nrows)
		d.Quote = make([][]bool, nrows)
		longBudget := 2
		for r := range d.Rows {
			d.Rows[r] = make([]string, ncols)
			d.Quote[r] = make([]bool, ncols)
			for i := range d.Rows[r] {
				p := profiles[i]
				if p == 4 && longBudget > 0 && rapid.IntRange(0, 11).Draw(t, "long") == 0 {
					p = 3
					longBudget--
				}
				d.Rows[r][i] = genCell(t, p)
				d.Quote[r][i] = rapid.IntRange(0, 5).Draw(t, "q") == 0
			}
		}
		if rapid.IntRange(0, 9).Draw(t, "hintsmall") == 0 {
			c.conf.RowCountHint = rapid.SampledFrom([]int{1, 10, 3000}).Draw(t, "hint")
		}
	}
	// document size focus: a last row whose first cell is padded (below, once the line ends are known) so that the
	// whole document is exactly as long as the reader's buffer or one of its doublings, +-1
	sizeFocus := !big && rapid.IntRange(0, 7).Draw(t, "sizefocus") == 0
	if sizeFocus {
		row := make([]string, ncols)
		row[0] = "p"
		for i := 1; i < ncols; i++ {
			row[i] = genCell(t, profiles[i])
		}
		d.Rows = append(d.Rows, row)
		d.Quote = append(d.Quote, make([]bool, ncols))
	}
	// the two representations the format cannot tell apart (see DESIGN.md): a single
	// column whose cell/name is empty and unquoted is a blank line
	if ncols == 1 {
		for r := range d.Rows {
			if d.Rows[r][0] == "" {
				if c.conf.IgnoreEmptyLines {
					d.Rows[r][0] = "e"
				} else if r == len(d.Rows)-1 {
					d.Quote[r][0] = true
				}
			}
		}
		if d.Header != nil && d.Header[0] == "" {
			d.Header[0] = "h"
		}
	}
	// line ends
	lines := len(d.Rows)
	if d.Header != nil {
		lines++
	}
	endKind := rapid.SampledFrom([]string{"lf", "lf", "crlf", "mixed"}).Draw(t, "lineend")
	d.RowEnd = make([]string, lines)
	d.BlankAfter = make([]bool, lines)
	for i := range d.RowEnd {
		switch endKind {
		case "lf":
			d.RowEnd[i] = "\n"
		case "crlf":
			d.RowEnd[i] = "\r\n"
		default:
			d.RowEnd[i] = rapid.SampledFrom([]string{"\n", "\r\n"}).Draw(t, "end")
		}
		if c.conf.IgnoreEmptyLines && !big && rapid.IntRange(0, 3).Draw(t, "blank") == 0 {
			d.BlankAfter[i] = true
		}
		if c.conf.IgnoreEmptyLines && big && (i%97 == 5 || i == 998 || i == 1001) {
			d.BlankAfter[i] = true // blank lines before and around the row where RowCountHint resizes
		}
	}
	d.FinalBreak = rapid.Bool().Draw(t, "finalbreak")
	if sizeFocus {
		cur := len(d.Bytes())
		var targets []int
		for _, x := range []int{1023, 1024, 1025, 2048, 2049, 2050, 4098, 4099, 4100} {
			if x >= cur {
				targets = append(targets, x)
			}
		}
		if len(targets) > 0 {
			target := rapid.SampledFrom(targets).Draw(t, "doclen")
			d.Rows[len(d.Rows)-1][0] = strings.Repeat("p", 1+target-cur)
		}
	}

	// declared types
	uniqueLegal := hdrKind == "plain" || hdrKind == "headers-option"
	// types may also be declared for a column under the alias it gets for its missing name
	typeNames := names
	if hdrKind == "missing" && c.conf.MissingAlias != "" {
		typeNames = append([]string(nil), names...)
		uniqueLegal = true
		for i, n := range typeNames {
			if n == "" {
				typeNames[i] = c.conf.MissingAlias
			} else if n == c.conf.MissingAlias {
				uniqueLegal = false // the alias collides with a real name: renaming (by an unspecified scheme) or an error
			}
		}
	}
	if uniqueLegal && rapid.IntRange(0, 2).Draw(t, "types") == 0 {
		c.conf.Types = map[string]string{}
		for i, n := range typeNames {
			switch rapid.IntRange(0, 7).Draw(t, "decl") {
			case 0:
				c.conf.Types[n] = []string{"int", "float", "bool", "string", "string"}[profiles[i]]
			case 1:
				c.conf.Types[n] = "string"
			case 2:
				c.conf.Types[n] = "enum"
				if rapid.Bool().Draw(t, "enumvals") {
					vals := []string{}
					seen := map[string]bool{}
					for r := range d.Rows {
						v := d.Rows[r][i]
						if v == "" && c.conf.EmptyNull {
							continue
						}
						if !seen[v] && len(vals) < 200 {
							seen[v] = true
							vals = append(vals, v)
						}
					}
					if len(vals) > 1 && rapid.IntRange(0, 5).Draw(t, "dropval") == 0 {
						vals = vals[1:] // an undeclared value: error predicted
					}
					vals = append(vals, "unused-value")
					if c.conf.EnumValues == nil {
						c.conf.EnumValues = map[string][]string{}
					}
					c.conf.EnumValues[n] = vals
				}
			case 3:
				c.conf.Types[n] = rapid.SampledFrom([]string{"int", "float", "bool"}).Draw(t, "forcedtype")
			}
		}
	}

	// read schedule
	sched := rapid.IntRange(0, 6).Draw(t, "sched")
	if sizeFocus && rapid.Bool().Draw(t, "sizefocusoneread") {
		sched = rapid.SampledFrom([]int{0, 5}).Draw(t, "sizefocussched")
	}
	switch sched {
	case 0:
		c.schedTag = "one-read"
	case 1, 2:
		c.schedule, c.schedTag = []int{1}, "all-1"
	case 3:
		n := rapid.IntRange(1, 12).Draw(t, "schedlen")
		for i := 0; i < n; i++ {
			c.schedule = append(c.schedule, rapid.IntRange(1, 7).Draw(t, "chunk"))
		}
		c.schedTag = "random-1-7"
	case 4:
		// a boundary right after every quote, delimiter, CR and LF
		data := d.Bytes()
		last := 0
		for i, b := range data {
			if b == '"' || b == d.Delim || b == '\n' || b == '\r' {
				c.schedule = append(c.schedule, i+1-last)
				last = i + 1
			}
		}
		c.noCycle = true
		c.schedTag = "after-specials"
		if len(c.schedule) == 0 {
			c.schedule = []int{1}
		}
	case 5:
		c.schedule, c.schedTag = []int{rapid.SampledFrom([]int{1023, 1024, 1025, 2048, 511}).Draw(t, "edge")}, "buffer-edge"
	default:
		c.schedule, c.schedTag = []int{rapid.IntRange(2, 40).Draw(t, "fixed")}, "fixed"
	}
	c.eofWith = rapid.Bool().Draw(t, "eofwithdata")
	return c
}

func (c csvCase) confFns() []csv.ConfigFunc {
	fns := []csv.ConfigFunc{}
	if c.doc.Delim != ',' {
		fns = append(fns, csv.Delimiter(c.doc.Delim))
	}
	if c.conf.EmptyNull {
		fns = append(fns, csv.EmptyNull(true))
	}
	if c.conf.IgnoreEmptyLines {
		fns = append(fns, csv.IgnoreEmptyLines(true))
	}
	if c.conf.Headers != nil {
		fns = append(fns, csv.Headers(append([]string(nil), c.conf.Headers...)))
	}
	if c.conf.Types != nil {
		fns = append(fns, csv.Types(c.conf.Types))
	}
	if c.conf.EnumValues != nil {
		fns = append(fns, csv.EnumValues(c.conf.EnumValues))
	}
	if c.conf.RenameDuplicates {
		fns = append(fns, csv.RenameDuplicateColumns(true))
	}
	if c.conf.MissingAlias != "" {
		fns = append(fns, csv.MissingColumnNameAlias(c.conf.MissingAlias))
	}
	if c.conf.RowCountHint != 0 {
		fns = append(fns, csv.RowCountHint(c.conf.RowCountHint))
	}
	return fns
}

// checkCSVRead compares the frame with the expectation; "" when it agrees.
func checkCSVRead(qf qframe.QFrame, exp hx.CSVExpect, nrows int) string {
	if exp.Err != "" {
		if qf.Err == nil {
			return "an error was expected (" + exp.Err + ") but ReadCSV returned a frame"
		}
		return ""
	}
	if qf.Err != nil {
		return "ReadCSV returned Err for a well-formed document: " + qf.Err.Error()
	}
	got, err := hx.Observe(qf)
	if err != nil {
		return "cannot observe the frame: " + err.Error()
	}
	want := exp.Table
	if exp.Renamed {
		// names by predicate: unique, first occurrence keeps its name, duplicates keep it as prefix
		names := got.Names()
		if len(names) != len(want.Cols) {
			return fmt.Sprintf("column count %d, want %d", len(names), len(want.Cols))
		}
		seen := map[string]bool{}
		first := map[string]bool{}
		for i, n := range names {
			if seen[n] {
				return fmt.Sprintf("renamed column names are not unique: %q", names)
			}
			seen[n] = true
			orig := want.Cols[i].Name
			if !first[orig] {
				first[orig] = true
				if n != orig {
					return fmt.Sprintf("first occurrence of %q was renamed to %q", orig, n)
				}
			} else if !strings.HasPrefix(n, orig) || n == orig {
				return fmt.Sprintf("duplicate of %q was renamed to %q", orig, n)
			}
			want.Cols[i].Name = n
		}
	}
	if exp.UntypedZero || nrows == 0 {
		if fmt.Sprint(got.Names()) != fmt.Sprint(want.Names()) {
			return fmt.Sprintf("column names %q, want %q", got.Names(), want.Names())
		}
		if qf.Len() != 0 {
			return fmt.Sprintf("Len()=%d, want 0", qf.Len())
		}
		if !exp.UntypedZero {
			for i := range want.Cols {
				if got.Cols[i].Kind != want.Cols[i].Kind {
					return fmt.Sprintf("column %q type %s, want %s", want.Cols[i].Name, got.Cols[i].Kind, want.Cols[i].Kind)
				}
			}
		}
		return ""
	}
	if qf.Len() != nrows {
		return fmt.Sprintf("Len()=%d, document has %d rows", qf.Len(), nrows)
	}
	return hx.Diff(want, got)
}

func TestC12(t *testing.T) { rapid.Check(t, propC12) }

// FuzzC12 drives the same property with coverage-guided bytes (thorough tier only).
func FuzzC12(f *testing.F) { f.Fuzz(rapid.MakeFuzz(propC12)) }

func propC12(t *rapid.T) {
	if rapid.IntRange(0, 7).Draw(t, "crcells") == 0 {
		propC12CR(t)
		return
	}
	{
		c := genCSVCase(t)
		data := c.doc.Bytes()
		exp := c.doc.Expect(c.conf)
		desc := func() string { return c.String() }
		rd := hx.NewChunkReader(data, c.schedule, c.eofWith)
		rd.NoCycle = c.noCycle
		var qf qframe.QFrame
		fns := c.confFns()
		if rapid.IntRange(0, 3).Draw(t, "reuseconfig") == 0 {
			// the same configuration (the caller's maps and option values) served an earlier read of the same document
			_ = hx.Safely(func() { _ = qframe.ReadCSV(bytes.NewReader(data), fns...) })
		}
		if rapid.IntRange(0, 7).Draw(t, "rejectedbefore") == 0 {
			// an earlier read in the same process was rejected half-way (a ragged line after a row longer than the initial
			// buffer, more rows behind it) or broke off with a reader error: nothing of it belongs to the next document
			long := strings.Repeat("x", rapid.SampledFrom([]int{900, 1100, 2500, 5000}).Draw(t, "longcell"))
			bad := "a,b\n" + long + ",1\nragged\n4,5\n6,7\n"
			if rapid.Bool().Draw(t, "longsecond") {
				bad = "a,b\n1," + long + "\n3\n4,5\n6,7\n"
			}
			brokenOff := rapid.Bool().Draw(t, "brokenoff")
			_ = hx.Safely(func() {
				if brokenOff {
					_ = qframe.ReadCSV(hx.NewChunkReader([]byte("a,b\n"+long+",1\n2,3\n4,5\n"), []int{700, 700, 1}, false), csv.Delimiter(';'))
				}
				if r := qframe.ReadCSV(strings.NewReader(bad)); r.Err == nil {
					panic("the ragged document was accepted")
				}
			})
		}
		if perr := hx.Safely(func() { qf = qframe.ReadCSV(rd, fns...) }); perr != nil {
			t.Fatalf("ReadCSV panicked: %v\n%s", perr, desc())
		}
		if msg := checkCSVRead(qf, exp, len(c.doc.Rows)); msg != "" {
			t.Fatalf("%s\nmodel expects: err=%q %s\n%s", msg, exp.Err, exp.Table.String(), desc())
		}
		// classification
		special, long := false, false
		for r, row := range c.doc.Rows {
			for i, cell := range row {
				_ = r
				_ = i
				if strings.ContainsAny(cell, "\"\n") || strings.IndexByte(cell, c.doc.Delim) >= 0 {
					special = true
				}
				if len(cell) >= 1024 {
					long = true
				}
			}
		}
		fragmented := len(c.schedule) > 0
		for _, s := range c.schedule {
			if s > 7 {
				fragmented = false
			}
		}
		classes := []string{"sched:" + c.schedTag, fmt.Sprintf("eofWithData=%v", c.eofWith)}
		if special {
			classes = append(classes, "quoted-special-field")
		}
		if long {
			classes = append(classes, "field>=1024")
		}
		if exp.Err != "" {
			classes = append(classes, "predicted-error")
		}
		if exp.Renamed {
			classes = append(classes, "renamed-duplicates")
		}
		if len(c.doc.Rows) >= 1000 {
			classes = append(classes, fmt.Sprintf("big-doc-hint=%d", c.conf.RowCountHint))
		}
		if !c.doc.FinalBreak {
			classes = append(classes, "no-final-break")
		}
		evC12.Case((special && fragmented) || long, desc, classes...)
	}
}

// propC12CR is the fragmentation half of C12 alone, for documents the denotation half leaves out: quoted cells that
// contain CR (bare, as CRLF, doubled). What such a cell denotes is not asserted (the reader documents that it drops CR),
// but whatever ReadCSV makes of the document, it makes the same of it however the reader delivers the bytes.
func propC12CR(t *rapid.T) {
	c := genCSVCase(t)
	injected := 0
	for r, row := range c.doc.Rows {
		for i, cell := range row {
			if len(cell) > 64 || rapid.IntRange(0, 2).Draw(t, "crhere") != 0 {
				continue
			}
			pos := rapid.IntRange(0, len(cell)).Draw(t, "crpos")
			piece := rapid.SampledFrom([]string{"\r", "\r\n", "\r\r\n", "x\r", "\r\"", "\n\r"}).Draw(t, "crpiece")
			c.doc.Rows[r][i] = cell[:pos] + piece + cell[pos:]
			c.doc.Quote[r][i] = true
			injected++
		}
	}
	data := c.doc.Bytes()
	desc := func() string { return c.String() }
	fns := c.confFns()
	var whole, frag qframe.QFrame
	if perr := hx.Safely(func() { whole = qframe.ReadCSV(bytes.NewReader(data), fns...) }); perr != nil {
		t.Fatalf("ReadCSV panicked (one read): %v\n%s", perr, desc())
	}
	rd := hx.NewChunkReader(data, c.schedule, c.eofWith)
	rd.NoCycle = c.noCycle
	if perr := hx.Safely(func() { frag = qframe.ReadCSV(rd, fns...) }); perr != nil {
		t.Fatalf("ReadCSV panicked (fragmented): %v\n%s", perr, desc())
	}
	if (whole.Err == nil) != (frag.Err == nil) {
		t.Fatalf("the document read in one piece gives Err %v, read in fragments Err %v\n%s", whole.Err, frag.Err, desc())
	}
	if whole.Err == nil {
		wt, err1 := hx.Observe(whole)
		ft, err2 := hx.Observe(frag)
		if err1 != nil || err2 != nil {
			t.Fatalf("observe: %v %v\n%s", err1, err2, desc())
		}
		if diff := hx.Diff(wt, ft); diff != "" {
			t.Fatalf("the document read in fragments differs from the same document read in one piece: %s\n%s\none piece %s\nfragments %s", diff, desc(), wt.String(), ft.String())
		}
	}
	fragmented := len(c.schedule) > 0
	for _, s := range c.schedule {
		if s > 7 {
			fragmented = false
		}
	}
	evC12.Case(injected > 0 && fragmented, desc, "cr-inside-quoted-cells", "sched:"+c.schedTag)
}
