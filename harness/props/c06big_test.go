package props

import (
	"bytes"
	"fmt"
	"github.com/tobgu/qframe/config/csv"
	"math"
	"os"
	"strconv"
	"strings"
	"testing"

	"github.com/tobgu/qframe"
	"github.com/tobgu/qframe/config/newqf"

	"verifharness/hx"
)

// Very long strings: the string columns address their cells through packed (offset, length) words, so cells whose
// length crosses a power of two far beyond anything the random generators produce get one volume case per run:
// a few cells of 2^24-1, 2^24 and 2^24+k bytes (the documented limit is 2^28 per cell), through New (C08) and as the
// result of Apply (C06), read back through the views, ToCSV and a filter.

func bigLens(seed uint64) []int {
	rng := hx.SplitMix(seed)
	return []int{1<<24 - 1, 1 << 24, 1<<24 + 1 + int(rng.Next()%4096)}
}

func bigString(n int, tag byte) string {
	b := []byte(strings.Repeat("0123456789abcdef", n/16+1)[:n])
	if n > 0 {
		b[0], b[n-1] = tag, tag
	}
	return string(b)
}

func checkBigColumn(t *testing.T, qf qframe.QFrame, col string, want []*string, what string) {
	if qf.Err != nil {
		t.Fatalf("%s: %v", what, qf.Err)
	}
	v, err := qf.StringView(col)
	if err != nil {
		t.Fatalf("%s: view: %v", what, err)
	}
	if v.Len() != len(want) {
		t.Fatalf("%s: %d rows, want %d", what, v.Len(), len(want))
	}
	for r, w := range want {
		g := v.ItemAt(r)
		if (g == nil) != (w == nil) || (g != nil && *g != *w) {
			gl, wl := -1, -1
			if g != nil {
				gl = len(*g)
			}
			if w != nil {
				wl = len(*w)
			}
			t.Fatalf("%s: row %d holds a cell of %d bytes, want the cell of %d bytes unchanged", what, r, gl, wl)
		}
	}
}

func TestC08Big(t *testing.T) {
	seed, _ := strconv.ParseUint(os.Getenv("VERIF_SHARD_SEED"), 10, 64)
	lens := bigLens(seed)
	data := []*string{hx.Sp("short"), nil}
	for i, n := range lens {
		data = append(data, hx.Sp(bigString(n, byte('A'+i))))
	}
	data = append(data, hx.Sp(""), hx.Sp("tail"))
	qf := qframe.New(map[string]interface{}{"s": data, "id": hx.Iota(len(data))})
	checkBigColumn(t, qf, "s", data, "New with cells of 2^24-1, 2^24 and more bytes")
	// projections keep them
	rev := qf.Sort(qframe.Order{Column: "id", Reverse: true}).Slice(1, len(data)).Copy("s2", "s").Select("s2", "id")
	var want []*string
	for i := len(data) - 2; i >= 0; i-- {
		want = append(want, data[i])
	}
	checkBigColumn(t, rev, "s2", want, "Sort/Slice/Copy/Select over the long cells")
	evC08New.CaseHash(true, seed, func() string {
		return fmt.Sprintf("volume case: string cells of %v bytes through New and projections", lens)
	}, "long-cells-2^24")
}

func TestC06Big(t *testing.T) {
	seed, _ := strconv.ParseUint(os.Getenv("VERIF_SHARD_SEED"), 10, 64)
	lens := bigLens(seed ^ 0x9e3779b97f4a7c15)
	if tier() == "thorough" {
		// (thorough tier only, it takes half a gigabyte: one cell at the next power of two that a packed length field
		// may end at - the string pointer documents 28 bits)
		lens = append(lens, 1<<27+5)
	}
	n := len(lens) + 2
	qf := qframe.New(map[string]interface{}{"id": hx.Iota(n), "s": make([]string, n)})
	want := make([]*string, n)
	for i := range want {
		switch {
		case i == 0:
			want[i] = hx.Sp("x")
		case i == n-1:
			want[i] = nil
		default:
			want[i] = hx.Sp(bigString(lens[i-1], byte('a'+i)))
		}
	}
	fn := func(id int) *string { return want[id] }
	res := qf.Apply(qframe.Instruction{Fn: fn, DstCol: "big", SrcCol1: "id"})
	checkBigColumn(t, res, "big", want, "Apply producing cells of 2^24-1, 2^24 and more bytes")
	// a second instruction reads them back as sources
	lenOf := func(s *string) int {
		if s == nil {
			return -1
		}
		return len(*s)
	}
	res2 := res.Apply(qframe.Instruction{Fn: lenOf, DstCol: "l", SrcCol1: "big"})
	if res2.Err != nil {
		t.Fatalf("Apply over the long cells: %v", res2.Err)
	}
	lv := res2.MustIntView("l")
	for i, w := range want {
		if lv.ItemAt(i) != lenOf(w) {
			t.Fatalf("Apply(len) over a cell of %d bytes saw %d bytes", lenOf(w), lv.ItemAt(i))
		}
	}
	// the ToUpper built-in on cells whose first letter that changes comes after a long unchanged prefix (the prefix is
	// copied in one piece into a conversion buffer of some size), on string and enum columns
	var cells []string
	for _, prefix := range []int{0, 7, 1019, 1020, 1021, 1023, 1024, 1025, 2047, 2048, 2049, 3000, 4095, 4096, 4097, 5000, 70000} {
		for _, tail := range []string{"b", "bç", "ß", ""} {
			cells = append(cells, strings.Repeat("A", prefix)+tail+"Z9")
		}
	}
	uq := qframe.New(map[string]interface{}{"s": cells, "e": cells}, newqf.Enums(map[string][]string{"e": nil})).Sort(qframe.Order{Column: "s", Reverse: true})
	up := uq.Apply(qframe.Instruction{Fn: "ToUpper", DstCol: "us", SrcCol1: "s"}, qframe.Instruction{Fn: "ToUpper", DstCol: "ue", SrcCol1: "e"})
	if up.Err != nil {
		t.Fatalf("ToUpper over long cells: %v", up.Err)
	}
	sv, usv, uev := up.MustStringView("s"), up.MustStringView("us"), up.MustEnumView("ue")
	for i := 0; i < up.Len(); i++ {
		w := strings.ToUpper(*sv.ItemAt(i))
		if g := usv.ItemAt(i); g == nil || *g != w {
			t.Fatalf("ToUpper of a string cell of %d bytes (unchanged prefix, then %q) is wrong: %d bytes, want %d", len(*sv.ItemAt(i)), clipS((*sv.ItemAt(i))[max(0, len(*sv.ItemAt(i))-6):]), len(*g), len(w))
		}
		if g := uev.ItemAt(i); g == nil || *g != w {
			t.Fatalf("ToUpper of an enum cell of %d bytes is wrong", len(*sv.ItemAt(i)))
		}
	}
	evC06.CaseHash(true, seed, func() string {
		return fmt.Sprintf("volume case: Apply producing and reading string cells of %v bytes; ToUpper after unchanged prefixes of 0..70000 bytes", lens)
	}, "long-cells-2^24")
}

// TestC12Big: one field of 2^24 bytes and more in a CSV document (no length limit is documented below 2^28), read in
// one piece and in 64 KiB pieces; the cell must come back whole.
func TestC12Big(t *testing.T) {
	seed, _ := strconv.ParseUint(os.Getenv("VERIF_SHARD_SEED"), 10, 64)
	lens := bigLens(seed ^ 0x1234567)
	var sb strings.Builder
	sb.WriteString("id,s\n")
	want := []*string{}
	for i, n := range lens {
		c := bigString(n, byte('A'+i))
		want = append(want, hx.Sp(c))
		sb.WriteString(strconv.Itoa(i) + "," + c + "\n")
	}
	want = append(want, hx.Sp("tail"))
	sb.WriteString("3,tail\n")
	doc := []byte(sb.String())
	for _, chunk := range []int{0, 1 << 16} {
		var rd *hx.ChunkReader
		if chunk == 0 {
			rd = hx.NewChunkReader(doc, nil, false)
		} else {
			rd = hx.NewChunkReader(doc, []int{chunk}, false)
		}
		qf := qframe.ReadCSV(rd)
		checkBigColumn(t, qf, "s", want, fmt.Sprintf("ReadCSV (chunk %d) of a document with fields of %v bytes", chunk, lens))
	}
	evC12.CaseHash(true, seed, func() string { return fmt.Sprintf("volume case: CSV fields of %v bytes", lens) }, "long-cells-2^24")

	// a column typed enum without declared values takes the values it meets: up to the 255 an enum can tell apart every
	// cell reads back as written, one more is an error (never a cell that silently reads back as something else)
	rng := hx.SplitMix(seed ^ 0x9e3779b9)
	for _, distinct := range []int{254, 255, 256, 257} {
		for _, emptyNull := range []bool{false, true} {
			var cells []string
			for v := 0; v < distinct; v++ {
				cells = append(cells, fmt.Sprintf("v%03d", v))
			}
			for k := 0; k < 200; k++ {
				cells = append(cells, cells[rng.Intn(distinct)]) // repeats, spread by the shuffle
			}
			for i := len(cells) - 1; i > 0; i-- {
				j := rng.Intn(i + 1)
				cells[i], cells[j] = cells[j], cells[i]
			}
			var doc strings.Builder
			doc.WriteString("id,e\n")
			for i, c := range cells {
				if emptyNull && i%50 == 7 {
					doc.WriteString(strconv.Itoa(i) + ",\n") // nulls are no value
				}
				doc.WriteString(strconv.Itoa(i) + "," + c + "\n")
			}
			qf := qframe.ReadCSV(strings.NewReader(doc.String()), csv.Types(map[string]string{"e": "enum"}), csv.EmptyNull(emptyNull))
			what := fmt.Sprintf("ReadCSV of a column typed enum with %d different values (EmptyNull=%v)", distinct, emptyNull)
			if distinct > 255 {
				if qf.Err == nil {
					t.Fatalf("%s succeeded: an enum cannot tell that many values apart, some cell must read back wrong", what)
				}
				continue
			}
			if qf.Err != nil {
				t.Fatalf("%s failed: %v", what, qf.Err)
			}
			v, err := qf.EnumView("e")
			if err != nil {
				t.Fatalf("%s: %v", what, err)
			}
			r := 0
			for i, c := range cells {
				if emptyNull && i%50 == 7 {
					if v.ItemAt(r) != nil {
						t.Fatalf("%s: the empty cell before row %d reads back as %q", what, i, *v.ItemAt(r))
					}
					r++
				}
				if got := v.ItemAt(r); got == nil || *got != c {
					t.Fatalf("%s: cell %q of row %d reads back as %v", what, c, i, hx.Col{Kind: hx.KString, S: []*string{got}}.Cell(0))
				}
				r++
			}
			if r != v.Len() {
				t.Fatalf("%s: %d rows, want %d", what, v.Len(), r)
			}
		}
	}
	evC12.CaseHash(true, seed^1, func() string { return "enum column without declared values: 254..257 different values" }, "enum-cardinality-limit")
}

// TestC09Big: the writers on a frame whose output is several MiB (more than any internal write buffer): 70000 rows
// with a cell of 1.5 MiB in the middle; every observer still describes the same rows.
func TestC09Big(t *testing.T) {
	seed, _ := strconv.ParseUint(os.Getenv("VERIF_SHARD_SEED"), 10, 64)
	rng := hx.SplitMix(seed)
	n := 70000 + rng.Intn(5000)
	tab := hx.Table{Cols: []hx.Col{{Name: "id", Kind: hx.KInt, I: hx.Iota(n)}, {Name: "s", Kind: hx.KString, S: make([]*string, n)}, {Name: "f", Kind: hx.KFloat, F: make([]float64, n)}}}
	pool := []string{"a", "", "q\"q", "tab\there", "ä€", "line\nbreak", "\\", "x,y", " "}
	for r := 0; r < n; r++ {
		if rng.Intn(9) != 0 {
			tab.Cols[1].S[r] = hx.Sp(pool[rng.Intn(len(pool))] + strconv.Itoa(r%97))
		}
		tab.Cols[2].F[r] = float64(rng.Intn(1000)) / 8
	}
	tab.Cols[1].S[n/2] = hx.Sp(bigString(3<<19+rng.Intn(1000), 'M'))
	qf := hx.Build(tab).Sort(qframe.Order{Column: "id", Reverse: true}).Sort(qframe.Order{Column: "id"})
	for name, f := range map[string]func(qframe.QFrame, hx.Table) string{"ToCSV": checkCSV, "ToJSON": checkJSON} {
		if msg := f(qf, tab); msg != "" {
			if len(msg) > 2000 {
				msg = msg[:2000] + "…"
			}
			t.Fatalf("observer %s on a frame of %d rows with one cell of 1.5 MiB: %s", name, n, msg)
		}
	}
	// observers tell different values apart: single-cell frames holding the special floats (infinities included, which
	// the JSON denotation check leaves out) are written differently from one another by every writer
	specials := []float64{math.Inf(1), math.Inf(-1), math.NaN(), math.MaxFloat64, -math.MaxFloat64, 0, math.Copysign(0, -1), 5e-324, 1}
	outs := map[string]map[string]float64{"ToCSV": {}, "ToJSON": {}, "String": {}}
	for _, f := range specials {
		one := qframe.New(map[string]interface{}{"f": []float64{f}})
		var cb, jb bytes.Buffer
		if err := one.ToCSV(&cb); err != nil {
			t.Fatal(err)
		}
		if err := one.ToJSON(&jb); err != nil {
			t.Fatal(err)
		}
		for name, text := range map[string]string{"ToCSV": cb.String(), "ToJSON": jb.String(), "String": one.String()} {
			if other, dup := outs[name][text]; dup {
				t.Fatalf("%s writes the cells %v and %v alike: %q", name, other, f, text)
			}
			outs[name][text] = f
		}
	}
	evC09.CaseHash(true, seed, func() string { return fmt.Sprintf("volume case: ToCSV/ToJSON of %d rows incl. a cell of 1.5 MiB", n) }, "multi-MiB-output")
}

// TestC17Big: Sort on an enum key of a frame in which one value (or null) occupies more rows than a 16-bit counter
// can count; the declared order must hold and no row may be lost.
func TestC17Big(t *testing.T) {
	seed, _ := strconv.ParseUint(os.Getenv("VERIF_SHARD_SEED"), 10, 64)
	rng := hx.SplitMix(seed ^ 0x17b16)
	n := 70000 + rng.Intn(3000)
	decl := []string{"mid", "low", "zz", "high"}
	heavy := rng.Intn(5) // index into decl, 4 = null
	e := make([]*string, n)
	for r := range e {
		k := heavy
		if rng.Intn(20) == 0 {
			k = rng.Intn(5)
		}
		if k < 4 {
			e[r] = hx.Sp(decl[k])
		}
	}
	qf := qframe.New(map[string]interface{}{"e": e, "id": hx.Iota(n)}, newqf.Enums(map[string][]string{"e": decl}))
	if qf.Err != nil {
		t.Fatal(qf.Err)
	}
	rank := map[string]int{"mid": 0, "low": 1, "zz": 2, "high": 3}
	for _, o := range []qframe.Order{{Column: "e"}, {Column: "e", Reverse: true}, {Column: "e", NullLast: true}} {
		res := qf.Sort(o)
		if res.Err != nil || res.Len() != n {
			t.Fatalf("Sort(%+v) of %d rows: err %v, %d rows", o, n, res.Err, res.Len())
		}
		ev := res.MustEnumView("e")
		ids := res.MustIntView("id").Slice()
		seen := make([]bool, n)
		key := func(p *string) int {
			if p == nil {
				if o.NullLast != o.Reverse {
					return 100
				}
				return -1
			}
			if o.Reverse {
				return -rank[*p] + 50
			}
			return rank[*p]
		}
		prev := -1000
		for r := 0; r < n; r++ {
			p := ev.ItemAt(r)
			id := ids[r]
			if id < 0 || id >= n || seen[id] {
				t.Fatalf("Sort(%+v) of %d rows (one value on most of them): row id %d twice or out of range at position %d", o, n, id, r)
			}
			seen[id] = true
			if (p == nil) != (e[id] == nil) || (p != nil && *p != *e[id]) {
				t.Fatalf("Sort(%+v): row id %d carries another value than before", o, id)
			}
			if k := key(p); k < prev {
				t.Fatalf("Sort(%+v) of %d rows: position %d is out of the declared order", o, n, r)
			} else {
				prev = k
			}
		}
	}
	evC17.CaseHash(true, seed, func() string {
		return fmt.Sprintf("volume case: Sort on a declared enum key of %d rows, %d%% of them one value", n, 95)
	}, "more-than-65535-rows-per-value")
}
