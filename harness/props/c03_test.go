package props

import (
	"fmt"
	"github.com/tobgu/qframe"
	"github.com/tobgu/qframe/config/groupby"
	"sort"
	"strings"
	"testing"

	"pgregory.net/rapid"

	"verifharness/ev"
	"verifharness/hx"
)

// C03 — Sort returns a permutation of the rows ordered by the given keys.
//
// Oracle (validity predicate, both directions): (a) the hidden ids of the result are a
// permutation of the input's and every row still carries its own cells, (b) every
// adjacent pair is "not greater" under the model's lexicographic comparator. Ties may
// come in any order, no expected frame is computed.

var evC03 = ev.New("C03", "derived frames in every size class of the sorter (<=12, 13..40, 41..200, 201..5000) with ties and nulls, "+
	"1-4 Order{Column,Reverse,NullLast} over all column types, plus McIlroy killer-adversary int columns forcing the heapsort fallback; "+
	"non-trivial = n>=2 and input not already ordered under the keys; distinct = FNV-64 of (table, route, orders)")

func genOrders(t *rapid.T, tab hx.Table, exclude ...string) []hx.Order {
	var cands []string
outer:
	for _, c := range tab.Cols {
		if c.Kind == hx.KEnum && c.Enum == nil {
			continue // rank order of derived enums is unspecified
		}
		for _, x := range exclude {
			if x == c.Name {
				continue outer
			}
		}
		cands = append(cands, c.Name)
	}
	if len(cands) == 0 {
		cands = []string{"id"}
	}
	n := rapid.IntRange(1, 4).Draw(t, "norders")
	if rapid.IntRange(0, 5).Draw(t, "manykeys") == 0 {
		n = rapid.IntRange(5, 8).Draw(t, "norders2") // long key lists: later keys decide among rows tied on the earlier ones
	}
	os := make([]hx.Order, n)
	for i := range os {
		os[i] = hx.Order{Col: rapid.SampledFrom(cands).Draw(t, "ordercol"), Reverse: rapid.Bool().Draw(t, "reverse"),
			NullLast: rapid.Bool().Draw(t, "nulllast")}
	}
	return os
}

// checkSorted verifies the validity predicate. in must carry a unique int column "id".
func checkSorted(in, got hx.Table, orders []hx.Order) string {
	if len(in.Cols) != len(got.Cols) {
		return fmt.Sprintf("columns changed: want %q got %q", in.Names(), got.Names())
	}
	for i := range in.Cols {
		if in.Cols[i].Name != got.Cols[i].Name || in.Cols[i].Kind != got.Cols[i].Kind {
			return fmt.Sprintf("column %d changed: want %q %s got %q %s", i, in.Cols[i].Name, in.Cols[i].Kind, got.Cols[i].Name, got.Cols[i].Kind)
		}
	}
	if in.N() != got.N() {
		return fmt.Sprintf("row count changed: want %d got %d", in.N(), got.N())
	}
	idIn, idGot := in.MustCol("id"), got.MustCol("id")
	pos := make(map[int]int, in.N())
	for r, id := range idIn.I {
		pos[id] = r
	}
	seen := make(map[int]bool, in.N())
	src := make([]int, got.N()) // row of `in` that each result row came from
	for r, id := range idGot.I {
		p, ok := pos[id]
		if !ok {
			return fmt.Sprintf("result row %d has id %d that is not in the input", r, id)
		}
		if seen[id] {
			return fmt.Sprintf("id %d occurs twice in the result (a row was duplicated, another dropped)", id)
		}
		seen[id] = true
		src[r] = p
		for ci := range in.Cols {
			if !hx.CellEq(in.Cols[ci], p, got.Cols[ci], r) {
				return fmt.Sprintf("row with id %d was torn: column %q was %s, is %s", id, in.Cols[ci].Name, in.Cols[ci].Cell(p), got.Cols[ci].Cell(r))
			}
		}
	}
	inDecl := hx.WithEnumDecl(got, in)
	for r := 1; r < got.N(); r++ {
		if hx.CmpRows(inDecl, orders, r-1, r) > 0 {
			return fmt.Sprintf("result rows %d and %d (ids %d, %d) are out of order under %s", r-1, r, idGot.I[r-1], idGot.I[r], hx.OrdersString(orders))
		}
	}
	return ""
}

func alreadyOrdered(in hx.Table, orders []hx.Order) bool {
	for r := 1; r < in.N(); r++ {
		if hx.CmpRows(in, orders, r-1, r) > 0 {
			return false
		}
	}
	return true
}

func withID(tab hx.Table) hx.Table {
	return hx.Table{Cols: append([]hx.Col{{Name: "id", Kind: hx.KInt, I: hx.Iota(tab.N())}}, tab.Cols...)}
}

func regimeClasses(in hx.Table, orders []hx.Order) []string {
	idx := hx.Iota(in.N())
	rg := hx.ReplicaSort(hx.IndexedLess{Index: idx, LessF: func(p, q int) bool { return hx.CmpRows(in, orders, p, q) < 0 }})
	var cl []string
	add := func(n int, name string) {
		if n > 0 {
			cl = append(cl, "regime:"+name)
		}
	}
	add(rg.Insertion, "insertion")
	add(rg.MedianOf3, "median-of-three")
	add(rg.Ninther, "ninther")
	add(rg.Protect, "protect-duplicates")
	add(rg.DupsProbe, "dups-probe")
	add(rg.Heapsort, "heapsort")
	return cl
}

func sizeClass(n int) string {
	switch {
	case n <= 1:
		return "n<=1"
	case n <= 12:
		return "n2..12"
	case n <= 40:
		return "n13..40"
	case n <= 200:
		return "n41..200"
	default:
		return "n201.."
	}
}

func TestC03(t *testing.T) {
	rapid.Check(t, func(t *rapid.T) {
		if hx.Rarely(t, 80, "norows-untyped") {
			// a frame without rows whose columns have no type yet (a header-only CSV document read without declared
			// types): ordering it is ordering nothing - the frame comes back, no error
			qf := qframe.ReadCSV(strings.NewReader("a,b,c\n"))
			keys := rapid.SliceOfNDistinct(rapid.SampledFrom([]string{"a", "b", "c"}), 1, 3, rapid.ID[string]).Draw(t, "keys")
			var os []qframe.Order
			for _, k := range keys {
				os = append(os, qframe.Order{Column: k, Reverse: rapid.Bool().Draw(t, "rev"), NullLast: rapid.Bool().Draw(t, "nl")})
			}
			r := qf.Sort(os...)
			if qf.Err != nil || r.Err != nil || r.Len() != 0 || fmt.Sprint(r.ColumnNames()) != "[a b c]" {
				t.Fatalf("Sort(%v) of a frame without rows read from a header-only CSV document: Err %v, Len %d, columns %v (read: %v)", os, r.Err, r.Len(), r.ColumnNames(), qf.Err)
			}
			evC03.Case(false, func() string { return "header-only CSV frame ordered" }, "no-rows-untyped-columns")
			return
		}
		mode := rapid.IntRange(0, 19).Draw(t, "mode")
		var d hx.Derived
		var orders []hx.Order
		classes := []string{}
		histOK := false
		switch {
		case mode == 0: // adversarial int column forcing heapsort
			sizes := []int{100, 200, 500, 1000, 2500, 5000}
			if tier() == "thorough" {
				sizes = append(sizes, 13, 41, 64, 20000, 50000)
			}
			n := rapid.SampledFrom(sizes).Draw(t, "n")
			rev := rapid.Bool().Draw(t, "reverse")
			seed := hx.SplitMix(rapid.Uint64().Draw(t, "fill"))
			var killer []int
			if rapid.IntRange(0, 3).Draw(t, "closedadversary") == 0 {
				killer, _ = hx.KillerSequence(n) // the heapsort range is all ties
			} else {
				killer, _ = hx.KillerSequenceOpen(n, &seed) // the heapsort range holds distinct shuffled keys
			}
			// physical order is a rotation+stride permutation; the frame is brought into the
			// killer order by sorting on a helper rank first (so the index is not the identity)
			stride := []int{1, 3, 7, 11}[seed.Intn(4)]
			for n%stride == 0 {
				stride++
			}
			off := seed.Intn(n)
			k := make([]int, n)
			rank := make([]int, n)
			for i := 0; i < n; i++ {
				p := (off + i*stride) % n
				rank[p] = i
				k[p] = killer[i]
				if rev {
					k[p] = -killer[i]
				}
			}
			base := hx.Table{Cols: []hx.Col{{Name: "k", Kind: hx.KInt, I: k}, hx.FillCol(&seed, "s1", hx.KString, n, 5, nil)}}
			base = withID(base)
			full := base.With(hx.Col{Name: hx.HelperRank, Kind: hx.KInt, I: rank})
			qf := hx.Build(full).Sort(hx.BuildOrders([]hx.Order{{Col: hx.HelperRank}})...).Select(base.Names()...)
			if qf.Err != nil {
				t.Fatalf("building adversarial frame: %v", qf.Err)
			}
			sel := make([]int, n)
			for p, r := range rank {
				sel[r] = p
			}
			d = hx.Derived{QF: qf, Base: base, Sel: sel, Exp: base.Rows(sel), Route: []string{fmt.Sprintf("adversarial n=%d rev=%v off=%d stride=%d", n, rev, off, stride)}}
			orders = []hx.Order{{Col: "k", Reverse: rev}}
			classes = append(classes, "adversarial")
		case mode <= 3: // large frames filled from one seed
			maxN := 5000
			if tier() == "thorough" {
				maxN = 60000 // deeper recursion, more ninther/protect rounds
			}
			n := rapid.IntRange(201, maxN).Draw(t, "n")
			seed := hx.SplitMix(rapid.Uint64().Draw(t, "fill"))
			card := rapid.SampledFrom([]int{1, 2, 3, 10, 100, 100000}).Draw(t, "card")
			decl := []string{"c", "a", "b", "", "B"}
			bigEnum := rapid.IntRange(0, 2).Draw(t, "bigenum") == 0
			if bigEnum {
				// the largest possible declared list (255 values, order not alphabetical); the cells favour its two
				// ends and null, whose internal codes are neighbours of the null code
				decl = make([]string, 255)
				for i := range decl {
					decl[i] = fmt.Sprintf("v%03d", (i*97)%255)
				}
			}
			e1 := hx.FillCol(&seed, "e1", hx.KEnum, n, card, decl)
			if bigEnum {
				for i := range e1.S {
					switch seed.Intn(8) {
					case 0:
						e1.S[i] = hx.Sp(decl[0])
					case 1:
						e1.S[i] = hx.Sp(decl[254])
					case 2:
						e1.S[i] = hx.Sp(decl[253])
					case 3:
						e1.S[i] = nil
					}
				}
				classes = append(classes, "enum-255-values")
			}
			base := withID(hx.Table{Cols: []hx.Col{
				hx.FillCol(&seed, "i1", hx.KInt, n, card, nil),
				hx.FillCol(&seed, "f1", hx.KFloat, n, card, nil),
				hx.FillCol(&seed, "b1", hx.KBool, n, card, nil),
				hx.FillCol(&seed, "s1", hx.KString, n, card, nil),
				e1,
			}})
			d = hx.GenDerived(t, base, 2)
			orders = genOrders(t, d.Exp, "id")
		case mode <= 6: // input that is already (almost) in the requested order, or in the reverse of it
			tab := withID(hx.GenTable(t, hx.TableOpt{MinCols: 1, MaxCols: 4, Rows: hx.RowsUpTo(300), AllowDerived: true}))
			orders = genOrders(t, tab, "id")
			perm := hx.Iota(tab.N())
			sort.SliceStable(perm, func(i, j int) bool { return hx.CmpRows(tab, orders, perm[i], perm[j]) < 0 })
			if rapid.Bool().Draw(t, "descending") {
				for i, j := 0, len(perm)-1; i < j; i, j = i+1, j-1 {
					perm[i], perm[j] = perm[j], perm[i]
				}
			}
			perturb := "none"
			if n := len(perm); n >= 2 {
				a, b := rapid.IntRange(0, n-1).Draw(t, "pa"), rapid.IntRange(0, n-1).Draw(t, "pb")
				switch rapid.IntRange(0, 5).Draw(t, "perturb") {
				case 1:
					perturb = "last row moved to the front"
					perm = append([]int{perm[n-1]}, perm[:n-1]...)
				case 2:
					perturb = "first row moved to the end"
					perm = append(append([]int(nil), perm[1:]...), perm[0])
				case 3:
					perturb = "two rows swapped"
					perm[a], perm[b] = perm[b], perm[a]
				case 4:
					perturb = "last row swapped with another"
					perm[a], perm[n-1] = perm[n-1], perm[a]
				case 5:
					perturb = "rotated"
					perm = append(append([]int(nil), perm[a:]...), perm[:a]...)
				}
			}
			d = hx.GenDerived(t, tab.Rows(perm), 0)
			d.Route = append(d.Route, "presorted input, "+perturb)
			classes = append(classes, "presorted")
		case mode == 7: // the receiver is an Aggregate result ordered by its key column (key columns are cut out of the frame's columns)
			n := rapid.IntRange(2, 40).Draw(t, "n")
			// string keys from a tiny domain: often nothing but "" and null, so that the pieces a key column is assembled
			// from are empty
			dom := rapid.SampledFrom([][]*string{{nil, hx.Sp("")}, {nil, hx.Sp(""), hx.Sp("")}, {nil, hx.Sp(""), hx.Sp("a")}, {nil, hx.Sp("b"), hx.Sp("a"), hx.Sp("")}}).Draw(t, "keydomain")
			sk := hx.Col{Name: "sk", Kind: hx.KString}
			ik := hx.Col{Name: "ik", Kind: hx.KInt}
			for r := 0; r < n; r++ {
				sk.S = append(sk.S, dom[rapid.IntRange(0, len(dom)-1).Draw(t, "skcell")])
				ik.I = append(ik.I, rapid.IntRange(0, 2).Draw(t, "ikcell"))
			}
			base := withID(hx.Table{Cols: []hx.Col{sk, ik}})
			pre := hx.GenDerived(t, base, 2)
			keys := []string{"sk"}
			if rapid.Bool().Draw(t, "twokeys") {
				keys = rapid.SampledFrom([][]string{{"sk", "ik"}, {"ik", "sk"}}).Draw(t, "keyorder")
			}
			agg := pre.QF.GroupBy(groupby.Columns(keys...), groupby.Null(true)).Aggregate(qframe.Aggregation{Fn: "count", Column: "id", As: "n"}).WithRowNums("id")
			aobs, err := hx.Observe(agg)
			if err != nil || agg.Err != nil {
				t.Fatalf("Aggregate: %v %v\n%s", agg.Err, err, pre.String())
			}
			d = hx.Derived{QF: agg, Base: aobs, Sel: hx.Iota(aobs.N()), Exp: aobs, Route: append(pre.Route, fmt.Sprintf("GroupBy(%q, null=true).Aggregate(count id)", keys))}
			orders = []hx.Order{{Col: "sk", Reverse: rapid.Bool().Draw(t, "rev"), NullLast: rapid.Bool().Draw(t, "nulllast")}}
			if len(keys) == 2 && rapid.Bool().Draw(t, "secondorder") {
				orders = append(orders, hx.Order{Col: "ik", Reverse: rapid.Bool().Draw(t, "rev2")})
			}
			classes = append(classes, "aggregate-result-receiver")
		default:
			histOK = true
			base := withID(hx.GenTable(t, hx.TableOpt{MinCols: 1, MaxCols: 5, Rows: hx.RowsUpTo(200), AllowDerived: true}))
			d = hx.GenDerived(t, base, 4)
			orders = genOrders(t, d.Exp, "id")
		}
		desc := func() string { return d.String() + "orders " + hx.OrdersString(orders) }

		// C03 owns Sort: the derived frame must be what the model says
		obs, err := hx.Observe(d.QF)
		if err != nil {
			t.Fatalf("observe derived: %v\n%s", err, desc())
		}
		if diff := hx.Diff(d.Exp, obs); diff != "" {
			t.Fatalf("derived frame differs from model: %s\n%s", diff, desc())
		}
		in := d.Exp
		// now and then the frame has an earlier life that touched its data columns - grouped and aggregated, ordered, numbered,
		// de-duplicated, tested for null, overwritten afterwards (what it then holds is observed) - and the orders tend to start
		// with the column that life was about
		if histOK && rapid.IntRange(0, 3).Draw(t, "history") == 0 {
			var hist hx.History
			d.QF, in, hist = hx.GenHistory(t, d.QF, in, true, "id")
			d.Route = append(d.Route, hist.String(), "input "+in.String())
			orders = genOrders(t, in, "id")
			if c := in.Find(hist.Focus); c >= 0 && !(in.Cols[c].Kind == hx.KEnum && in.Cols[c].Enum == nil) && rapid.IntRange(0, 2).Draw(t, "histfirst") > 0 {
				orders = append([]hx.Order{{Col: hist.Focus, Reverse: rapid.Bool().Draw(t, "hrev"), NullLast: rapid.Bool().Draw(t, "hnl")}}, orders...)
			}
			classes = append(classes, "with-history")
		}

		res := d.QF
		realOrders := hx.BuildOrders(orders)
		if rapid.IntRange(0, 3).Draw(t, "secondcall") == 0 {
			_ = hx.Safely(func() { _ = d.QF.Sort(realOrders...) }) // the second call with the same order values counts
		}
		if perr := hx.Safely(func() { res = d.QF.Sort(realOrders...) }); perr != nil {
			t.Fatalf("Sort panicked: %v\n%s", perr, desc())
		}
		if res.Err != nil {
			t.Fatalf("Sort returned Err: %v\n%s", res.Err, desc())
		}
		got, err := hx.Observe(res)
		if err != nil {
			t.Fatalf("observe result: %v\n%s", err, desc())
		}
		if msg := checkSorted(in, got, orders); msg != "" {
			t.Fatalf("Sort result invalid: %s\n%s", msg, desc())
		}
		// a sorted frame that is changed and sorted again by the same orders: the new values count
		if rapid.IntRange(0, 3).Draw(t, "resort") == 0 && len(orders) > 0 {
			gotDecl := hx.WithEnumDecl(got, in)
			key := gotDecl.MustCol(orders[0].Col)
			var donors []hx.Col
			for _, c := range gotDecl.Cols {
				if c.Name != key.Name && c.Name != "id" && c.Kind == key.Kind && (c.Kind != hx.KEnum || sameStrings(c.Enum, key.Enum)) {
					donors = append(donors, c)
				}
			}
			if len(donors) > 0 {
				donor := donors[rapid.IntRange(0, len(donors)-1).Draw(t, "donor")]
				changed := res.Copy(key.Name, donor.Name)
				res2 := changed
				if perr := hx.Safely(func() { res2 = changed.Sort(hx.BuildOrders(orders)...) }); perr != nil || res2.Err != nil {
					t.Fatalf("Sort of the changed frame: panic %v, Err %v\n%s", perr, res2.Err, desc())
				}
				in2 := hx.Table{Cols: append([]hx.Col(nil), gotDecl.Cols...)}
				for i := range in2.Cols {
					if in2.Cols[i].Name == key.Name {
						nc := donor
						nc.Name = key.Name
						in2.Cols[i] = nc
					}
				}
				got2, err := hx.Observe(res2)
				if err != nil {
					t.Fatalf("observe: %v\n%s", err, desc())
				}
				if msg := checkSorted(in2, got2, orders); msg != "" {
					t.Fatalf("after Copy(%q, %q) on the sorted frame, sorting again by the same orders: %s\n%s", key.Name, donor.Name, msg, desc())
				}
				classes = append(classes, "sorted-changed-sorted-again")
			}
		}
		// the sorted result sorted again with the flags of its first key flipped (same columns, another order)
		if rapid.IntRange(0, 3).Draw(t, "refollow") == 0 && len(orders) > 0 {
			orders2 := append([]hx.Order(nil), orders...)
			if rapid.Bool().Draw(t, "fliprev") {
				orders2[0].Reverse = !orders2[0].Reverse
			} else {
				orders2[0].NullLast = !orders2[0].NullLast
			}
			r2 := res
			ro2 := hx.BuildOrders(orders2)
			if rapid.Bool().Draw(t, "inplace") {
				// the caller changes the order list it passed before in place and passes it again
				copy(realOrders, ro2)
				ro2 = realOrders
			}
			if perr := hx.Safely(func() { r2 = res.Sort(ro2...) }); perr != nil || r2.Err != nil {
				t.Fatalf("Sort of the sorted frame: panic %v, Err %v\n%s", perr, r2.Err, desc())
			}
			g2, err := hx.Observe(r2)
			if err != nil {
				t.Fatalf("observe: %v\n%s", err, desc())
			}
			if msg := checkSorted(hx.WithEnumDecl(got, in), g2, orders2); msg != "" {
				t.Fatalf("the sorted frame sorted again by %s: %s\n%s", hx.OrdersString(orders2), msg, desc())
			}
		}
		// sorting must not have disturbed the receiver
		again, err := hx.Observe(d.QF)
		if err != nil || hx.Diff(in, again) != "" {
			t.Fatalf("Sort changed its receiver: %v %s\n%s", err, hx.Diff(in, again), desc())
		}

		classes = append(classes, sizeClass(in.N()))
		classes = append(classes, regimeClasses(in, orders)...)
		for _, o := range orders {
			c := in.MustCol(o.Col)
			classes = append(classes, fmt.Sprintf("key:%s:rev=%v:nullLast=%v", c.Kind, o.Reverse, o.NullLast))
		}
		nontrivial := in.N() >= 2 && !alreadyOrdered(in, orders)
		evC03.Case(nontrivial, desc, classes...)
	})
}

func sameStrings(a, b []string) bool {
	if len(a) != len(b) || (a == nil) != (b == nil) {
		return false
	}
	for i := range a {
		if a[i] != b[i] {
			return false
		}
	}
	return true
}
