package props

import (
	"bytes"
	"database/sql/driver"
	"fmt"
	"io"
	"math"
	"strings"
	"sync/atomic"
	"testing"

	"github.com/tobgu/qframe"
	"github.com/tobgu/qframe/config/csv"
	"github.com/tobgu/qframe/config/eval"
	"github.com/tobgu/qframe/config/groupby"
	"github.com/tobgu/qframe/config/newqf"
	"github.com/tobgu/qframe/config/rolling"
	qsql "github.com/tobgu/qframe/config/sql"
	"github.com/tobgu/qframe/types"
	"pgregory.net/rapid"

	"verifharness/ev"
	"verifharness/faults"
	"verifharness/hx"
)

// C10 — Invalid use yields Err, never a panic, and an error is sticky.

var evC10 = ev.New("C10", "chains of 1-8 public operations on a derived frame (or on the Err frame of a rejected New/ReadCSV) whose interface{} parameters come from a pool of ~70 hostile values "+
	"(every supported and many unsupported dynamic types, NaN/Inf, nil, typed nil *string, wrong element types, functions of supported and unsupported signatures, known and unknown names) and whose names/bounds are valid, unknown, empty, illegal, negative or huge, "+
	"interleaved with curated unambiguous misuses for which an error is required; oracle: no panic, Err!=nil => Len()==-1, after the first error every later result still reports it, no callback runs, GroupBy/Aggregate/QFrames pass it on, ToCSV/ToJSON/ToSQL return an error; "+
	"non-trivial = the first error occurs before the last step, or the chain contains a curated misuse; distinct = FNV-64 of the chain rendering")

type hostile struct {
	name string
	v    interface{}
}

var typedNilStr *string

var hostileArgs = []hostile{
	{"int 1", 1}, {"int -3", -3}, {"int max", math.MaxInt64}, {"float 1.5", 1.5}, {"float NaN", math.NaN()}, {"float +Inf", math.Inf(1)},
	{"bool true", true}, {"string a", "a"}, {"string empty", ""}, {"string [", "["}, {"string %", "%"}, {"nil", nil}, {"typed nil *string", typedNilStr},
	{"*string", hx.Sp("a")}, {"[]int", []int{1, 2}}, {"[]int empty", []int{}}, {"[]float64", []float64{1, 2.5}}, {"[]string", []string{"a", "b"}},
	{"[]interface ints", []interface{}{1, 2}}, {"[]interface strings", []interface{}{"a", "b"}}, {"[]interface mixed", []interface{}{1, "a", nil}},
	{"[]interface empty", []interface{}{}}, {"[]bool", []bool{true}}, {"map", map[string]int{"a": 1}}, {"struct", struct{ A int }{1}},
	{"int32", int32(1)}, {"uint", uint(1)}, {"float32", float32(1)}, {"rune", 'a'}, {"[]byte", []byte("a")}, {"chan", make(chan int)},
	{"col i1", types.ColumnName("i1")}, {"col f1", types.ColumnName("f1")}, {"col b1", types.ColumnName("b1")}, {"col s1", types.ColumnName("s1")},
	{"col e1", types.ColumnName("e1")}, {"col e2", types.ColumnName("e2")}, {"col nosuch", types.ColumnName("nosuch")}, {"col empty", types.ColumnName("")},
	{"func(int) bool", hx.PredFns[0].I1}, {"func(float64) bool", hx.PredFns[0].F1}, {"func(bool) bool", hx.PredFns[0].B1}, {"func(*string) bool", hx.PredFns[0].S1},
	{"func(int,int) bool", hx.PredFns[0].I2}, {"func(float64,float64) bool", hx.PredFns[0].F2}, {"func(*string,*string) bool", hx.PredFns[0].S2},
	{"func(int) int", hx.IntToInt}, {"func(int) float64", hx.IntToFloat}, {"func(float64) float64", hx.FloatToFloat}, {"func(*string) *string", hx.StrToStr},
	{"func(bool) int", hx.BoolToInt}, {"func(int,int) int", hx.Int2}, {"func(float64,float64) float64", hx.Float2}, {"func(*string,*string) *string", hx.Str2},
	{"func(bool,bool) bool", hx.Bool2},
	{"func() int", func() int { return 1 }}, {"func() *string", func() *string { return nil }}, {"func(string) bool", func(string) bool { return true }},
	{"func(int) string", func(int) string { return "" }}, {"func(int,float64) bool", func(int, float64) bool { return true }}, {"func()", func() {}},
	{"func([]int) int", func(x []int) int { return len(x) }}, {"func([]float64) float64", func(x []float64) float64 { return 0 }},
	{"func([]bool) bool", func(x []bool) bool { return false }}, {"func([]*string) *string", func(x []*string) *string { return nil }},
	{"func([]int) float64", func(x []int) float64 { return 0 }}, {"func([]string) string", func(x []string) string { return "" }},
}

var hostileComparators = []interface{}{"<", "<=", ">", ">=", "=", "!=", "in", "not in", "like", "ilike", "isnull", "isnotnull", "any_bits", "all_bits",
	"foo", "", "LIKE", "==", 1, nil, 1.5, true}

var hostileFnNames = []interface{}{"ToUpper", "toupper", "abs", "sum", "count", "max", "min", "avg", "majority", "foo", ""}

var hostileNames = []string{"i1", "i2", "f1", "b1", "s1", "e1", "e2", "id", "nosuch", "", "'q'", "\"q\"", "$v", "$", "n1", "a b", "ä", "'q\nq'"}

func pickArg(t *rapid.T, label string) hostile {
	return hostileArgs[rapid.IntRange(0, len(hostileArgs)-1).Draw(t, label)]
}

func pickName(t *rapid.T, label string) string {
	return rapid.SampledFrom(hostileNames).Draw(t, label)
}

func validName(t *rapid.T, label string) string {
	return rapid.SampledFrom([]string{"i1", "i2", "f1", "b1", "s1", "e1", "e2"}).Draw(t, label)
}

type chainOp struct {
	desc    string
	mustErr bool // curated unambiguous misuse: an error is required when the frame was healthy
	run     func(qf qframe.QFrame) qframe.QFrame
	// filteredApply marks FilteredApply steps: they are not run on a frame that has rows but no column
	// (open known finding C10/filteredapply-on-columnless-frame)
	filteredApply bool
}

const sigColumnless = "C10/filteredapply-on-columnless-frame"

func uniqNames(in []string) []string {
	seen := map[string]bool{}
	out := in[:0:0]
	for _, s := range in {
		if !seen[s] {
			seen[s] = true
			out = append(out, s)
		}
	}
	return out
}

func callbacks() int64 { return atomic.LoadInt64(&hx.ApplyCalls) + atomic.LoadInt64(&hx.PredCalls) }

func genHostileFilterClause(t *rapid.T, depth int) (qframe.FilterClause, string) {
	switch k := rapid.IntRange(0, 9).Draw(t, "clausekind"); {
	case depth > 0 && k == 0:
		n := rapid.IntRange(0, 3).Draw(t, "nkids")
		kids := make([]qframe.FilterClause, n)
		ds := make([]string, n)
		for i := range kids {
			kids[i], ds[i] = genHostileFilterClause(t, depth-1)
		}
		return qframe.And(kids...), "And(" + strings.Join(ds, ",") + ")"
	case depth > 0 && k == 1:
		n := rapid.IntRange(0, 3).Draw(t, "nkids")
		kids := make([]qframe.FilterClause, n)
		ds := make([]string, n)
		for i := range kids {
			kids[i], ds[i] = genHostileFilterClause(t, depth-1)
		}
		return qframe.Or(kids...), "Or(" + strings.Join(ds, ",") + ")"
	case depth > 0 && k == 2:
		c, d := genHostileFilterClause(t, depth-1)
		return qframe.Not(c), "Not(" + d + ")"
	case k == 3:
		return qframe.Null(), "Null()"
	}
	col := pickName(t, "fcol")
	var comp interface{}
	var cdesc string
	if rapid.IntRange(0, 3).Draw(t, "compkind") == 0 {
		h := pickArg(t, "compfn")
		comp, cdesc = h.v, h.name
	} else {
		comp = hostileComparators[rapid.IntRange(0, len(hostileComparators)-1).Draw(t, "comp")]
		cdesc = fmt.Sprintf("%#v", comp)
	}
	arg := pickArg(t, "farg")
	inv := rapid.IntRange(0, 3).Draw(t, "inv") == 0
	return qframe.Filter{Column: col, Comparator: comp, Arg: arg.v, Inverse: inv},
		fmt.Sprintf("Filter{%q %s arg=%s inv=%v}", col, cdesc, arg.name, inv)
}

func genInstr(t *rapid.T) (qframe.Instruction, string) {
	var fn interface{}
	var fdesc string
	if rapid.IntRange(0, 3).Draw(t, "fnkind") == 0 {
		fn = hostileFnNames[rapid.IntRange(0, len(hostileFnNames)-1).Draw(t, "fnname")]
		fdesc = fmt.Sprintf("%#v", fn)
	} else {
		h := pickArg(t, "fn")
		fn, fdesc = h.v, h.name
	}
	in := qframe.Instruction{Fn: fn, DstCol: pickName(t, "dst")}
	switch rapid.IntRange(0, 2).Draw(t, "nsrc") {
	case 1:
		in.SrcCol1 = pickName(t, "src1")
	case 2:
		in.SrcCol1, in.SrcCol2 = pickName(t, "src1"), pickName(t, "src2")
	}
	return in, fmt.Sprintf("Instr{fn=%s dst=%q src=%q,%q}", fdesc, in.DstCol, in.SrcCol1, in.SrcCol2)
}

func genHostileExpr(t *rapid.T, depth int) (interface{}, string) {
	switch k := rapid.IntRange(0, 5).Draw(t, "exprkind"); {
	case depth > 0 && k <= 2:
		n := rapid.IntRange(0, 4).Draw(t, "nargs")
		var op interface{} = rapid.SampledFrom([]string{"+", "-", "*", "abs", "str", "upper", "len", "&", "!", "foo", ""}).Draw(t, "op")
		if rapid.IntRange(0, 9).Draw(t, "badop") == 0 {
			op = 7
		}
		l := []interface{}{op}
		ds := []string{fmt.Sprint(op)}
		for i := 0; i < n; i++ {
			a, d := genHostileExpr(t, depth-1)
			l = append(l, a)
			ds = append(ds, d)
		}
		return l, "[" + strings.Join(ds, " ") + "]"
	case k == 3:
		name := pickName(t, "ecol")
		return types.ColumnName(name), "$" + name
	}
	h := pickArg(t, "econst")
	// integer division by zero is a documented panic: keep 0 out of the constants
	return h.v, h.name
}

func genChainOp(t *rapid.T, healthyPossible bool) chainOp {
	switch rapid.IntRange(0, 33).Draw(t, "op") {
	case 33:
		// entry points with an error return of their own (typed views, eval.Context.SetFunc) and type mismatches of
		// two-argument functions on the column types that the other curated misuses do not reach
		k := rapid.IntRange(0, 3).Draw(t, "misc")
		temps := func(qf qframe.QFrame) qframe.QFrame {
			return qf.Apply(qframe.Instruction{Fn: 1, DstCol: "ti"}, qframe.Instruction{Fn: 1.5, DstCol: "tf"},
				qframe.Instruction{Fn: "x", DstCol: "ts"}, qframe.Instruction{Fn: true, DstCol: "tb"})
		}
		switch k {
		case 0:
			unknown := rapid.Bool().Draw(t, "viewunknown")
			return chainOp{desc: fmt.Sprintf("typed views of an unknown (%v) or differently typed column", unknown), run: func(qf qframe.QFrame) qframe.QFrame {
				tq := temps(qf)
				name := func(wrongTyped string) string {
					if unknown {
						return "never-created-col"
					}
					return wrongTyped
				}
				if _, err := tq.IntView(name("tf")); err == nil {
					panic("VIOLATION: IntView of an unknown/float column returned no error")
				}
				if _, err := tq.FloatView(name("ti")); err == nil {
					panic("VIOLATION: FloatView of an unknown/int column returned no error")
				}
				if _, err := tq.BoolView(name("ts")); err == nil {
					panic("VIOLATION: BoolView of an unknown/string column returned no error")
				}
				if _, err := tq.StringView(name("tb")); err == nil {
					panic("VIOLATION: StringView of an unknown/bool column returned no error")
				}
				if _, err := tq.EnumView(name("ts")); err == nil {
					panic("VIOLATION: EnumView of an unknown/string column returned no error")
				}
				return qf
			}}
		case 1:
			j := rapid.IntRange(0, 6).Draw(t, "setfunc")
			if j >= 5 {
				// a function registered in ONE context is unknown to every other one (the default context of an Eval
				// without options, a fresh context)
				fname := fmt.Sprintf("onlyinctx%d", j)
				return chainOp{desc: "Eval (default/fresh context) of a function that was registered in another context only", mustErr: true, run: func(qf qframe.QFrame) qframe.QFrame {
					ctx := eval.NewDefaultCtx()
					if err := ctx.SetFunc(fname, func(x int) int { return 3 * x }); err != nil {
						panic(err)
					}
					if err := ctx.SetFunc(fname, func(x, y int) int { return x + y }); err != nil {
						panic(err)
					}
					if j == 5 {
						return temps(qf).Eval("n1", qframe.Expr(fname, types.ColumnName("ti")))
					}
					return temps(qf).Eval("n1", qframe.Expr(fname, types.ColumnName("ti"), types.ColumnName("ti")), eval.EvalContext(eval.NewDefaultCtx()))
				}}
			}
			return chainOp{desc: fmt.Sprintf("eval.Context.SetFunc misuse %d, then Eval of the function that was not registered", j), mustErr: true, run: func(qf qframe.QFrame) qframe.QFrame {
				ctx := eval.NewDefaultCtx()
				var err error
				name := "notregistered"
				switch j {
				case 0:
					name = "'q'"
					err = ctx.SetFunc(name, func(x int) int { return x })
				case 1:
					err = ctx.SetFunc(name, func(s string) string { return s })
				case 2:
					err = ctx.SetFunc(name, 5)
				case 3:
					err = ctx.SetFunc(name, nil)
				default:
					err = ctx.SetFunc(name, func(x, y, z int) int { return x })
				}
				if err == nil {
					panic("VIOLATION: SetFunc accepted an illegal name or a function type it cannot call")
				}
				return temps(qf).Eval("n1", qframe.Expr(name, types.ColumnName("ti")), eval.EvalContext(ctx))
			}}
		case 2:
			j := rapid.IntRange(0, 4).Draw(t, "apply2mismatch")
			return chainOp{desc: fmt.Sprintf("Apply with a two-argument function of another column type (%d)", j), mustErr: true, run: func(qf qframe.QFrame) qframe.QFrame {
				tq := temps(qf)
				switch j {
				case 0:
					return tq.Apply(qframe.Instruction{Fn: hx.Int2, DstCol: "n1", SrcCol1: "tb", SrcCol2: "tb"})
				case 1:
					return tq.Apply(qframe.Instruction{Fn: hx.Str2, DstCol: "n1", SrcCol1: "tf", SrcCol2: "tf"})
				case 2:
					return tq.Apply(qframe.Instruction{Fn: hx.Int2, DstCol: "n1", SrcCol1: "ts", SrcCol2: "ts"})
				case 3:
					return tq.Apply(qframe.Instruction{Fn: "ToUpper", DstCol: "n1", SrcCol1: "ts", SrcCol2: "ts"})
				}
				return tq.Apply(qframe.Instruction{Fn: func(a, b bool) int { return 0 }, DstCol: "n1", SrcCol1: "tb", SrcCol2: "tb"})
			}}
		default:
			j := rapid.IntRange(0, 7).Draw(t, "enummisuse")
			if j == 7 {
				// an enum column compared with the column the ToUpper built-in made of it: two enums over different value
				// lists ("mismatched column types"), although they still share their cell storage
				enumColComp := rapid.SampledFrom([]string{"=", "<", "!="}).Draw(t, "enumcolcomp")
				return chainOp{desc: "enum column compared (" + enumColComp + ") with its ToUpper copy", mustErr: true, run: func(qf qframe.QFrame) qframe.QFrame {
					if qf.Err != nil {
						return qf.Filter(qframe.Filter{Column: "e1", Comparator: "=", Arg: types.ColumnName("e2")})
					}
					fresh := qframe.New(map[string]interface{}{"en": []string{"b", "a", "c", "a"}}, newqf.Enums(map[string][]string{"en": {"b", "a", "c"}}))
					up := fresh.Apply(qframe.Instruction{Fn: "ToUpper", DstCol: "up", SrcCol1: "en"})
					if up.Err != nil {
						panic(up.Err)
					}
					return up.Filter(qframe.Filter{Column: "en", Comparator: enumColComp, Arg: types.ColumnName("up")})
				}}
			}
			if j >= 5 {
				// a malformed like/ilike pattern is an invalid argument whatever the column holds: here an enum column
				// without any value (only nulls, or no row at all)
				badRe := rapid.SampledFrom([]string{"a(b", "[a-", "%*(", "a{2,1}"}).Draw(t, "badre2")
				comp := rapid.SampledFrom([]string{"like", "ilike"}).Draw(t, "badcomp2")
				rows := rapid.IntRange(0, 2).Draw(t, "emptyenumrows")
				return chainOp{desc: fmt.Sprintf("%s %q on an enum column without values (%d null rows)", comp, badRe, rows), mustErr: true, run: func(qf qframe.QFrame) qframe.QFrame {
					if qf.Err != nil {
						return qf.Filter(qframe.Filter{Column: "e1", Comparator: comp, Arg: badRe})
					}
					fresh := qframe.New(map[string]interface{}{"en": make([]*string, rows)}, newqf.Enums(map[string][]string{"en": nil}))
					if fresh.Err != nil {
						panic(fresh.Err)
					}
					if j == 5 {
						return fresh.Filter(qframe.Filter{Column: "en", Comparator: comp, Arg: badRe})
					}
					return fresh.Filter(qframe.Not(qframe.And(qframe.Filter{Column: "en", Comparator: comp, Arg: badRe})))
				}}
			}
			return chainOp{desc: fmt.Sprintf("enum column misuse %d (falls back to a string column when e1/e2 are gone)", j), mustErr: true, run: func(qf qframe.QFrame) qframe.QFrame {
				tq := temps(qf)
				a, b := "ts", "ts"
				if tq.Err == nil {
					tm := tq.ColumnTypeMap()
					if tm["e1"] == types.Enum && tm["e2"] == types.Enum {
						a, b = "e1", "e2"
					}
				}
				switch j {
				case 0:
					return tq.Filter(qframe.Filter{Column: a, Comparator: "nosuchcomparator", Arg: types.ColumnName(b)})
				case 1:
					return tq.Filter(qframe.Filter{Column: a, Comparator: "<", Arg: types.ColumnName("ti")})
				case 2:
					return tq.Apply(qframe.Instruction{Fn: hx.Int2, DstCol: "n1", SrcCol1: a, SrcCol2: b})
				case 3:
					return tq.Apply(qframe.Instruction{Fn: "ToUpper", DstCol: "n1", SrcCol1: a, SrcCol2: b})
				}
				return tq.Filter(qframe.Filter{Column: a, Comparator: "in", Arg: []int{1, 2}})
			}}
		}
	case 32:
		// constants of Go types the expression language does not have (only int, float64, bool, string/*string are
		// constants): an unsupported argument type wherever it stands, never a silently converted value
		k := rapid.IntRange(0, 11).Draw(t, "oddconst")
		odd := []interface{}{int64(7), int32(1), int16(2), int8(3), uint(3), uint64(math.MaxUint64), uint32(4), uint16(5), uint8(6), float32(1.5), int64(math.MinInt64), uintptr(9)}[k]
		form := rapid.IntRange(0, 3).Draw(t, "oddform")
		col := validName(t, "oddcol")
		return chainOp{desc: fmt.Sprintf("Eval with a %T constant (form %d, column %s)", odd, form, col), mustErr: true, run: func(qf qframe.QFrame) qframe.QFrame {
			switch form {
			case 0:
				return qf.Eval("n1", qframe.Val(odd))
			case 1:
				return qf.Eval("n1", qframe.Expr("+", types.ColumnName(col), odd))
			case 2:
				return qf.Eval("n1", qframe.Expr("+", odd, types.ColumnName(col)))
			}
			return qf.Eval("n1", qframe.Expr("abs", qframe.Expr("+", odd, odd)))
		}}
	case 31:
		// a constant as Fn fills a column and takes no source column: with one or two sources named (known or not) the
		// instruction is malformed - the constant is no function of one or two arguments
		k := rapid.IntRange(0, 4).Draw(t, "constfn")
		s := "x"
		fn := []interface{}{5, 1.5, true, &s, types.ColumnName("i1")}[k]
		src1 := rapid.SampledFrom([]string{"i1", "f1", "s1", "never-created-col"}).Draw(t, "constsrc1")
		src2 := rapid.SampledFrom([]string{"", "", "i2", "never-created-col"}).Draw(t, "constsrc2")
		filtered := rapid.IntRange(0, 3).Draw(t, "constfiltered") == 0
		return chainOp{desc: fmt.Sprintf("Apply(Instruction{Fn: %T constant, SrcCol1: %q, SrcCol2: %q}) filtered=%v", fn, src1, src2, filtered), mustErr: true, filteredApply: filtered,
			run: func(qf qframe.QFrame) qframe.QFrame {
				in := qframe.Instruction{Fn: fn, DstCol: "n1", SrcCol1: src1, SrcCol2: src2}
				if filtered {
					return qf.FilteredApply(qframe.Filter{Column: "i1", Comparator: ">", Arg: 0}, in)
				}
				return qf.Apply(in)
			}}
	case 30:
		// one Apply/FilteredApply call: after its first instruction failed, the later ones run no callback and the first
		// error is the one reported
		filtered := rapid.Bool().Draw(t, "failfiltered")
		second := rapid.IntRange(0, 1).Draw(t, "failsecond")
		return chainOp{desc: fmt.Sprintf("Apply(failing instruction, instruction with a callback) filtered=%v second=%d", filtered, second), mustErr: true, run: func(qf qframe.QFrame) qframe.QFrame {
			tq := qf.Apply(qframe.Instruction{Fn: 1, DstCol: "ti"})
			if tq.Err != nil {
				return tq
			}
			ins := []qframe.Instruction{{Fn: hx.IntToInt, DstCol: "n1", SrcCol1: "never-created-col"}, {Fn: hx.IntToInt, DstCol: "n2", SrcCol1: "ti"}}
			if second == 1 {
				ins[1] = qframe.Instruction{Fn: func() int { atomic.AddInt64(&hx.ApplyCalls, 1); return 1 }, DstCol: "n2"}
			}
			before := callbacks()
			var res qframe.QFrame
			if filtered {
				res = tq.FilteredApply(qframe.Filter{Column: "ti", Comparator: "=", Arg: 1}, ins...)
			} else {
				res = tq.Apply(ins...)
			}
			if tq.Len() > 0 && callbacks() != before {
				panic("VIOLATION: an instruction after a failed one still invoked its callback")
			}
			if res.Err != nil && !strings.Contains(res.Err.Error(), "never-created-col") {
				panic("VIOLATION: the error of the first failing instruction was replaced: " + res.Err.Error())
			}
			return res
		}}
	case 29:
		// ToCSV with a Columns list that does not fit the frame: an error return, for frames with and without rows
		k := rapid.IntRange(0, 4).Draw(t, "csvcolumns")
		return chainOp{desc: fmt.Sprintf("ToCSV with an invalid Columns list (%d)", k), run: func(qf qframe.QFrame) qframe.QFrame {
			if qf.Err != nil {
				return qf
			}
			names := qf.ColumnNames()
			var list []string
			switch {
			case k == 0 && len(names) > 0:
				list = names[:len(names)-1] // too short
			case k == 1:
				list = append(append([]string(nil), names...), "never-created-col") // too long
			case k == 2 && len(names) > 0:
				list = append([]string(nil), names...)
				list[0] = "never-created-col" // unknown name
			case k == 3 && len(names) > 0:
				list = []string{} // empty but not nil
			default:
				return qf
			}
			for _, f := range []qframe.QFrame{qf, qf.Slice(0, 0)} {
				if f.Err != nil {
					continue
				}
				if err := f.ToCSV(io.Discard, csv.Columns(list)); err == nil {
					panic(fmt.Sprintf("VIOLATION: ToCSV(Columns(%q)) of a frame with the columns %q and %d rows returned no error", list, names, f.Len()))
				}
			}
			return qf
		}}
	case 28:
		// argument values of the right Go type that still are no valid comparison values: NaN for a float column
		// (documented as an error under every comparator), and []interface{} in-lists whose elements are not all of the
		// column's type (wherever in the list the odd one stands)
		k := rapid.IntRange(0, 9).Draw(t, "badarg")
		comp := rapid.SampledFrom([]string{"=", "!=", "<", "<=", ">", ">="}).Draw(t, "nancomp")
		inv := rapid.Bool().Draw(t, "badarginv")
		var f qframe.Filter
		switch k {
		case 0, 1, 2:
			f = qframe.Filter{Column: "tf", Comparator: comp, Arg: math.NaN()}
		case 3:
			f = qframe.Filter{Column: "ts", Comparator: "in", Arg: []interface{}{"a", 1}}
		case 4:
			f = qframe.Filter{Column: "ts", Comparator: "in", Arg: []interface{}{"a", "b", nil, "c"}}
		case 5:
			f = qframe.Filter{Column: "ts", Comparator: "in", Arg: []interface{}{1, "a"}}
		case 6:
			f = qframe.Filter{Column: "ti", Comparator: "in", Arg: []interface{}{1, "a"}}
		case 7:
			f = qframe.Filter{Column: "ti", Comparator: "in", Arg: []interface{}{"a", 1}}
		case 8:
			f = qframe.Filter{Column: "ti", Comparator: "in", Arg: []interface{}{1, 2, true}}
		default:
			f = qframe.Filter{Column: "ts", Comparator: "in", Arg: []interface{}{"x", 2.5, "y"}}
		}
		f.Inverse = inv
		return chainOp{desc: fmt.Sprintf("filter with an invalid argument value: %s", f.String()), mustErr: true, run: func(qf qframe.QFrame) qframe.QFrame {
			tq := qf.Apply(qframe.Instruction{Fn: 1, DstCol: "ti"}, qframe.Instruction{Fn: 1.5, DstCol: "tf"}, qframe.Instruction{Fn: "x", DstCol: "ts"})
			if tq.Err != nil {
				return tq
			}
			return tq.Filter(f)
		}}
	case 27:
		// column against column with a comparator no column type has, or a two-argument predicate function whose
		// argument is not a column of the same type: an error for every column type
		col := rapid.SampledFrom([]string{"ti", "tf", "tb", "ts"}).Draw(t, "cccol")
		kind := rapid.IntRange(0, 3).Draw(t, "cckind")
		comp := rapid.SampledFrom([]string{"nosuchcomp", "like", "in", "isnull", "all_bits", "~", ""}).Draw(t, "cccomp")
		desc := fmt.Sprintf("column-column filter %s %q %s", col, comp, col)
		mk := func() qframe.FilterClause {
			return qframe.Filter{Column: col, Comparator: comp, Arg: types.ColumnName(col)}
		}
		if kind >= 2 {
			// a well-formed two-argument predicate for the column's type, handed an argument of another kind
			fn := map[string]interface{}{"ti": func(a, b int) bool { return a == b }, "tf": func(a, b float64) bool { return a == b },
				"tb": func(a, b bool) bool { return a == b }, "ts": func(a, b *string) bool { return a == b }}[col]
			other := map[string]string{"ti": "ts", "tf": "tb", "tb": "ti", "ts": "ti"}[col]
			var arg interface{} = types.ColumnName(other)
			if kind == 3 {
				arg = rapid.SampledFrom([]interface{}{1, "x", nil, 2.5, true}).Draw(t, "ccarg")
			}
			desc = fmt.Sprintf("two-argument predicate on %s with argument %#v", col, arg)
			mk = func() qframe.FilterClause { return qframe.Filter{Column: col, Comparator: fn, Arg: arg} }
		}
		return chainOp{desc: desc, mustErr: true, run: func(qf qframe.QFrame) qframe.QFrame {
			tq := qf.Apply(qframe.Instruction{Fn: 1, DstCol: "ti"}, qframe.Instruction{Fn: 1.5, DstCol: "tf"},
				qframe.Instruction{Fn: "x", DstCol: "ts"}, qframe.Instruction{Fn: true, DstCol: "tb"})
			if tq.Err != nil {
				return tq
			}
			return tq.Filter(mk())
		}}
	case 25:
		// invalid Rolling configurations, in either order of the options
		k := rapid.IntRange(0, 5).Draw(t, "rollcfg")
		intervalFn := func(a, b int) bool { return a == b }
		cfgs := [][]rolling.ConfigFunc{
			{rolling.WindowSize(3), rolling.IntervalFunction("ti", intervalFn)},
			{rolling.IntervalFunction("ti", intervalFn), rolling.WindowSize(3)},
			{rolling.WindowSize(0)},
			{rolling.WindowSize(-2), rolling.Position("start")},
			{rolling.Position("middle")},
			{rolling.WindowSize(2), rolling.Position("")},
		}
		return chainOp{desc: fmt.Sprintf("Rolling with invalid configuration %d", k), mustErr: true, run: func(qf qframe.QFrame) qframe.QFrame {
			tq := qf.Apply(qframe.Instruction{Fn: 1, DstCol: "ti"})
			if tq.Err != nil {
				return tq
			}
			return tq.Rolling(func(x []int) int { return len(x) }, "n1", "ti", cfgs[k]...)
		}}
	case 26:
		// a declared (strict) enum compared with a constant outside its value list: an error under every comparator,
		// also negated and wherever in a clause tree it stands
		comp := rapid.SampledFrom([]string{"=", "!=", "<", "<=", ">", ">="}).Draw(t, "strictcomp")
		inv := rapid.Bool().Draw(t, "strictinv")
		wrap := rapid.IntRange(0, 3).Draw(t, "strictwrap")
		return chainOp{desc: fmt.Sprintf("strict enum %s undeclared constant (inverse=%v, wrap %d)", comp, inv, wrap), run: func(qf qframe.QFrame) qframe.QFrame {
			fr := qframe.New(map[string]interface{}{"e": []string{"a", "b", "c", "a"}}, newqf.Enums(map[string][]string{"e": {"c", "a", "b"}}))
			if fr.Err != nil {
				panic("harness: " + fr.Err.Error())
			}
			var cl qframe.FilterClause = qframe.Filter{Column: "e", Comparator: comp, Arg: "zz", Inverse: inv}
			switch wrap {
			case 1:
				cl = qframe.Not(cl)
			case 2:
				cl = qframe.Or(qframe.Filter{Column: "e", Comparator: "=", Arg: "a"}, cl)
			case 3:
				cl = qframe.And(qframe.Null(), cl)
			}
			if res := fr.Filter(cl); res.Err == nil {
				panic(fmt.Sprintf("VIOLATION: declared enum filtered against the undeclared constant \"zz\" (%s) gave %d rows and no error", cl, res.Len()))
			}
			return qf
		}}
	case 24:
		// two enum columns whose value lists hold the same values in another order are not of the same type:
		// comparing them cell by cell is either refused (Err) or done by value - never silently by internal code
		rot := rapid.IntRange(1, 2).Draw(t, "enumrot")
		comp := rapid.SampledFrom([]string{"=", "!="}).Draw(t, "enumcomp")
		return chainOp{desc: fmt.Sprintf("column-column filter %s on enum columns with rotated value lists (%d)", comp, rot), run: func(qf qframe.QFrame) qframe.QFrame {
			if qf.Err != nil {
				return qf.Filter(qframe.Filter{Column: "ea", Comparator: comp, Arg: types.ColumnName("eb")})
			}
			vals := []string{"a", "b", "c"}
			rotated := append(append([]string(nil), vals[rot:]...), vals[:rot]...)
			ea := []string{"a", "b", "c", "a", "c", "b"}
			eb := []string{"a", "c", "c", "b", "a", "b"}
			fr := qframe.New(map[string]interface{}{"ea": ea, "eb": eb, "id": hx.Iota(len(ea))},
				newqf.Enums(map[string][]string{"ea": vals, "eb": rotated}))
			if fr.Err != nil {
				panic("harness: " + fr.Err.Error())
			}
			res := fr.Filter(qframe.Filter{Column: "ea", Comparator: comp, Arg: types.ColumnName("eb")})
			if res.Err != nil {
				return qf // refused: fine, the chain goes on with its own frame
			}
			if comp == "=" || comp == "!=" {
				var want []int
				for i := range ea {
					if (ea[i] == eb[i]) == (comp == "=") {
						want = append(want, i)
					}
				}
				if got := res.MustIntView("id").Slice(); fmt.Sprint(got) != fmt.Sprint(want) {
					panic(fmt.Sprintf("VIOLATION: %s between enum columns with value lists %q and %q returned rows %v without an error (equal by value: %v)", comp, vals, rotated, got, want))
				}
			}
			return qf
		}}
	case 0, 1, 2:
		cl, d := genHostileFilterClause(t, 2)
		return chainOp{desc: d, run: func(qf qframe.QFrame) qframe.QFrame { return qf.Filter(cl) }}
	case 3:
		n := rapid.IntRange(0, 3).Draw(t, "norders")
		os := make([]qframe.Order, n)
		for i := range os {
			os[i] = qframe.Order{Column: pickName(t, "ocol"), Reverse: rapid.Bool().Draw(t, "rev"), NullLast: rapid.Bool().Draw(t, "nl")}
		}
		return chainOp{desc: fmt.Sprintf("Sort(%v)", os), run: func(qf qframe.QFrame) qframe.QFrame { return qf.Sort(os...) }}
	case 4:
		a := rapid.SampledFrom([]int{-1, 0, 1, 2, 5, 1 << 40, math.MinInt64, math.MaxInt64}).Draw(t, "a")
		b := rapid.SampledFrom([]int{-1, 0, 1, 2, 5, 1 << 40, math.MinInt64, math.MaxInt64}).Draw(t, "b")
		return chainOp{desc: fmt.Sprintf("Slice(%d,%d)", a, b), run: func(qf qframe.QFrame) qframe.QFrame { return qf.Slice(a, b) }}
	case 5:
		n := rapid.IntRange(0, 3).Draw(t, "nsel")
		cols := make([]string, n)
		for i := range cols {
			cols[i] = pickName(t, "selcol")
		}
		cols = uniqNames(cols) // duplicate names in a projection are outside the domain
		if rapid.Bool().Draw(t, "drop") {
			return chainOp{desc: fmt.Sprintf("Drop(%q)", cols), run: func(qf qframe.QFrame) qframe.QFrame { return qf.Drop(cols...) }}
		}
		return chainOp{desc: fmt.Sprintf("Select(%q)", cols), run: func(qf qframe.QFrame) qframe.QFrame { return qf.Select(cols...) }}
	case 6:
		dst, src := pickName(t, "cdst"), pickName(t, "csrc")
		return chainOp{desc: fmt.Sprintf("Copy(%q,%q)", dst, src), run: func(qf qframe.QFrame) qframe.QFrame { return qf.Copy(dst, src) }}
	case 7, 8, 9:
		n := rapid.IntRange(1, 3).Draw(t, "ninstr")
		ins := make([]qframe.Instruction, n)
		ds := make([]string, n)
		for i := range ins {
			ins[i], ds[i] = genInstr(t)
		}
		if rapid.IntRange(0, 2).Draw(t, "filtered") == 0 {
			cl, cd := genHostileFilterClause(t, 1)
			return chainOp{desc: "FilteredApply(" + cd + "; " + strings.Join(ds, "; ") + ")", filteredApply: true,
				run: func(qf qframe.QFrame) qframe.QFrame { return qf.FilteredApply(cl, ins...) }}
		}
		return chainOp{desc: "Apply(" + strings.Join(ds, "; ") + ")", run: func(qf qframe.QFrame) qframe.QFrame { return qf.Apply(ins...) }}
	case 10, 11:
		dst := pickName(t, "edst")
		raw, d := genHostileExpr(t, 2)
		viaExpr := rapid.Bool().Draw(t, "viaexpr")
		return chainOp{desc: fmt.Sprintf("Eval(%q, %s, viaExpr=%v)", dst, d, viaExpr), run: func(qf qframe.QFrame) qframe.QFrame {
			if l, ok := raw.([]interface{}); ok && viaExpr && len(l) > 0 {
				if op, ok := l[0].(string); ok {
					return qf.Eval(dst, qframe.Expr(op, l[1:]...))
				}
			}
			return qf.Eval(dst, qframe.Val(raw))
		}}
	case 12:
		name := pickName(t, "rnname")
		return chainOp{desc: fmt.Sprintf("WithRowNums(%q)", name), run: func(qf qframe.QFrame) qframe.QFrame { return qf.WithRowNums(name) }}
	case 13:
		n := rapid.IntRange(0, 2).Draw(t, "ndist")
		cols := make([]string, n)
		for i := range cols {
			cols[i] = pickName(t, "dcol")
		}
		cols = uniqNames(cols)
		null := rapid.Bool().Draw(t, "null")
		return chainOp{desc: fmt.Sprintf("Distinct(%q,null=%v)", cols, null), run: func(qf qframe.QFrame) qframe.QFrame {
			return qf.Distinct(groupby.Columns(cols...), groupby.Null(null))
		}}
	case 14, 15:
		n := rapid.IntRange(0, 2).Draw(t, "ngrp")
		cols := make([]string, n)
		for i := range cols {
			cols[i] = pickName(t, "gcol")
		}
		cols = uniqNames(cols)
		na := rapid.IntRange(0, 2).Draw(t, "naggs")
		aggs := make([]qframe.Aggregation, na)
		ds := make([]string, na)
		for i := range aggs {
			var fn interface{}
			var fd string
			if rapid.Bool().Draw(t, "aggname") {
				fn = hostileFnNames[rapid.IntRange(0, len(hostileFnNames)-1).Draw(t, "aggfnname")]
				fd = fmt.Sprintf("%#v", fn)
			} else {
				h := pickArg(t, "aggfn")
				fn, fd = h.v, h.name
			}
			aggs[i] = qframe.Aggregation{Fn: fn, Column: pickName(t, "aggcol"), As: rapid.SampledFrom([]string{"", "x", "i1", "'q'"}).Draw(t, "as")}
			ds[i] = fmt.Sprintf("{%s %q as %q}", fd, aggs[i].Column, aggs[i].As)
		}
		return chainOp{desc: fmt.Sprintf("GroupBy(%q).Aggregate(%s)", cols, strings.Join(ds, ",")), run: func(qf qframe.QFrame) qframe.QFrame {
			g := qf.GroupBy(groupby.Columns(cols...))
			if qf.Err != nil && g.Err == nil {
				panic("VIOLATION: GroupBy on a failed frame returned a Grouper without Err")
			}
			if g.Err != nil {
				if fs, err := g.QFrames(); err == nil || fs != nil {
					panic("VIOLATION: QFrames of a failed Grouper returned no error")
				}
			}
			return g.Aggregate(aggs...)
		}}
	case 16:
		h := pickArg(t, "rollfn")
		dst, src := pickName(t, "rdst"), pickName(t, "rsrc")
		ws := rapid.SampledFrom([]int{-1, 0, 1, 3, 1 << 40}).Draw(t, "ws")
		return chainOp{desc: fmt.Sprintf("Rolling(%s,%q,%q,window=%d)", h.name, dst, src, ws), run: func(qf qframe.QFrame) qframe.QFrame {
			return qf.Rolling(h.v, dst, src, rolling.WindowSize(ws))
		}}
	// curated unambiguous misuses: an error is required
	case 17:
		col := "never-created-col"
		k := rapid.IntRange(0, 12).Draw(t, "unknowncol")
		ops := []chainOp{
			{desc: "Filter on unknown column", run: func(qf qframe.QFrame) qframe.QFrame {
				return qf.Filter(qframe.Filter{Column: col, Comparator: "=", Arg: 1})
			}},
			{desc: "Sort on unknown column", run: func(qf qframe.QFrame) qframe.QFrame { return qf.Sort(qframe.Order{Column: col}) }},
			{desc: "Select unknown column", run: func(qf qframe.QFrame) qframe.QFrame { return qf.Select("i1", col) }},
			{desc: "Copy from unknown column", run: func(qf qframe.QFrame) qframe.QFrame { return qf.Copy("n1", col) }},
			{desc: "Apply with unknown source", run: func(qf qframe.QFrame) qframe.QFrame {
				return qf.Apply(qframe.Instruction{Fn: hx.IntToInt, DstCol: "n1", SrcCol1: col})
			}},
			{desc: "GroupBy unknown column", run: func(qf qframe.QFrame) qframe.QFrame {
				return qf.GroupBy(groupby.Columns(col)).Aggregate()
			}},
			{desc: "Aggregate unknown column", run: func(qf qframe.QFrame) qframe.QFrame {
				return qf.GroupBy(groupby.Columns("i1")).Aggregate(qframe.Aggregation{Fn: "sum", Column: col})
			}},
			{desc: "Aggregate count of an unknown column", run: func(qf qframe.QFrame) qframe.QFrame {
				return qf.GroupBy().Aggregate(qframe.Aggregation{Fn: "count", Column: col, As: "n"})
			}},
			{desc: "Aggregate user function on an unknown column", run: func(qf qframe.QFrame) qframe.QFrame {
				return qf.GroupBy().Aggregate(qframe.Aggregation{Fn: func(x []int) int { return len(x) }, Column: col})
			}},
			{desc: "Distinct on unknown column", run: func(qf qframe.QFrame) qframe.QFrame { return qf.Distinct(groupby.Columns(col)) }},
			{desc: "Eval with unknown column", run: func(qf qframe.QFrame) qframe.QFrame {
				return qf.Eval("n1", qframe.Expr("abs", types.ColumnName(col)))
			}},
			{desc: "Eval of a bare reference to an unknown column into a destination of the same name", run: func(qf qframe.QFrame) qframe.QFrame {
				return qf.Eval(col, qframe.Val(types.ColumnName(col)))
			}},
			{desc: "Eval of a bare reference to an unknown column", run: func(qf qframe.QFrame) qframe.QFrame {
				return qf.Eval("n1", qframe.Val(types.ColumnName(col)))
			}},
		}
		o := ops[k]
		o.mustErr = true
		return o
	case 18:
		k := rapid.IntRange(0, 9).Draw(t, "unknownname")
		vc := validName(t, "vc")
		badRe := rapid.SampledFrom([]string{"a(b", "[a", "a**", "%a(b%", "a{2,1}", "%a)", "(", "a(b%"}).Draw(t, "badregexp")
		likeComp := rapid.SampledFrom([]string{"like", "ilike"}).Draw(t, "badlikecomp")
		ops := []chainOp{
			{desc: fmt.Sprintf("%s with the invalid regular expression %q on a string column", likeComp, badRe), run: func(qf qframe.QFrame) qframe.QFrame {
				return qf.Apply(qframe.Instruction{Fn: "x(y", DstCol: "ts"}).Filter(qframe.Filter{Column: "ts", Comparator: likeComp, Arg: badRe})
			}},
			{desc: fmt.Sprintf("%s with the invalid regular expression %q inside Not(Or(...))", likeComp, badRe), run: func(qf qframe.QFrame) qframe.QFrame {
				return qf.Apply(qframe.Instruction{Fn: "x(y", DstCol: "ts"}).Filter(qframe.Not(qframe.Or(
					qframe.Filter{Column: "ts", Comparator: "=", Arg: "q"}, qframe.Filter{Column: "ts", Comparator: likeComp, Arg: badRe, Inverse: true})))
			}},
			{desc: "unknown comparator", run: func(qf qframe.QFrame) qframe.QFrame {
				return qf.Filter(qframe.Filter{Column: vc, Comparator: "foo", Arg: 1})
			}},
			{desc: "unknown aggregation", run: func(qf qframe.QFrame) qframe.QFrame {
				return qf.GroupBy(groupby.Columns("b1")).Aggregate(qframe.Aggregation{Fn: "foo", Column: "i1"})
			}},
			{desc: "unknown Eval function", run: func(qf qframe.QFrame) qframe.QFrame {
				// (a name nobody registered, or a built-in's name in another letter case: function names are exact)
				name := []string{"foo", "ABS", "Abs", "STR", "abs "}[len(vc)%5]
				return qf.Apply(qframe.Instruction{Fn: 1, DstCol: "ti"}).Eval("n1", qframe.Expr(name, types.ColumnName("ti")), eval.EvalContext(eval.NewDefaultCtx()))
			}},
			{desc: "unknown built-in apply function", run: func(qf qframe.QFrame) qframe.QFrame {
				return qf.Apply(qframe.Instruction{Fn: "foo", DstCol: "n1", SrcCol1: "s1"})
			}},
			{desc: "unsupported filter argument type (map)", run: func(qf qframe.QFrame) qframe.QFrame {
				return qf.Filter(qframe.Filter{Column: vc, Comparator: "=", Arg: map[string]int{}})
			}},
			{desc: "unsupported comparator type (int)", run: func(qf qframe.QFrame) qframe.QFrame {
				return qf.Filter(qframe.Filter{Column: vc, Comparator: 5, Arg: 1})
			}},
			{desc: "unsupported apply function type", run: func(qf qframe.QFrame) qframe.QFrame {
				return qf.Apply(qframe.Instruction{Fn: func(string) bool { return true }, DstCol: "n1", SrcCol1: "s1"})
			}},
			{desc: "unsupported aggregation function type", run: func(qf qframe.QFrame) qframe.QFrame {
				return qf.GroupBy(groupby.Columns("b1")).Aggregate(qframe.Aggregation{Fn: func(int) int { return 0 }, Column: "i1"})
			}},
		}
		o := ops[k]
		o.mustErr = true
		return o
	case 19:
		k := rapid.IntRange(0, 8).Draw(t, "shape")
		bad := rapid.SampledFrom([]string{"", "'q'", "\"q\"", "$v", "$", "'q\nq'", "\"\n\""}).Draw(t, "badname")
		ops := []chainOp{
			{desc: "illegal destination in Copy " + bad, run: func(qf qframe.QFrame) qframe.QFrame { return qf.Copy(bad, "i1") }},
			{desc: "illegal destination in Apply " + bad, run: func(qf qframe.QFrame) qframe.QFrame {
				return qf.Apply(qframe.Instruction{Fn: 1, DstCol: bad})
			}},
			{desc: "illegal destination in Eval " + bad, run: func(qf qframe.QFrame) qframe.QFrame { return qf.Eval(bad, qframe.Val(1)) }},
			{desc: "Slice(-1,1)", run: func(qf qframe.QFrame) qframe.QFrame { return qf.Slice(-1, 1) }},
			{desc: "Slice(1,0)", run: func(qf qframe.QFrame) qframe.QFrame { return qf.Slice(1, 0) }},
			{desc: "Slice(0,len+1)", run: func(qf qframe.QFrame) qframe.QFrame { return qf.Slice(0, qf.Len()+1) }},
			{desc: "empty And", run: func(qf qframe.QFrame) qframe.QFrame { return qf.Filter(qframe.And()) }},
			{desc: "empty Or nested", run: func(qf qframe.QFrame) qframe.QFrame {
				return qf.Filter(qframe.And(qframe.Filter{Column: "i1", Comparator: ">", Arg: 0}, qframe.Not(qframe.Or())))
			}},
			{desc: "malformed expression", run: func(qf qframe.QFrame) qframe.QFrame {
				return qf.Eval("n1", qframe.Val([]interface{}{"+", types.ColumnName("i1"), 1, 2}))
			}},
		}
		o := ops[k]
		o.mustErr = true
		return o
	case 20:
		k := rapid.IntRange(0, 5).Draw(t, "mismatch")
		// typed temporary columns make the mismatch independent of what earlier steps did to the frame
		temps := func(qf qframe.QFrame) qframe.QFrame {
			return qf.Apply(qframe.Instruction{Fn: 1, DstCol: "ti"}, qframe.Instruction{Fn: 1.5, DstCol: "tf"},
				qframe.Instruction{Fn: "x", DstCol: "ts"}, qframe.Instruction{Fn: true, DstCol: "tb"})
		}
		ops := []chainOp{
			{desc: "Apply2 int/float", run: func(qf qframe.QFrame) qframe.QFrame {
				return temps(qf).Apply(qframe.Instruction{Fn: hx.Int2, DstCol: "n1", SrcCol1: "ti", SrcCol2: "tf"})
			}},
			{desc: "Apply2 string/bool", run: func(qf qframe.QFrame) qframe.QFrame {
				return temps(qf).Apply(qframe.Instruction{Fn: hx.Str2, DstCol: "n1", SrcCol1: "ts", SrcCol2: "tb"})
			}},
			{desc: "Apply1 function of another column type", run: func(qf qframe.QFrame) qframe.QFrame {
				return temps(qf).Apply(qframe.Instruction{Fn: hx.FloatToInt, DstCol: "n1", SrcCol1: "ti"})
			}},
			{desc: "column-column filter int/string", run: func(qf qframe.QFrame) qframe.QFrame {
				return temps(qf).Filter(qframe.Filter{Column: "ti", Comparator: "<", Arg: types.ColumnName("ts")})
			}},
			{desc: "column-column filter bool/float", run: func(qf qframe.QFrame) qframe.QFrame {
				return temps(qf).Filter(qframe.Filter{Column: "tb", Comparator: "=", Arg: types.ColumnName("tf")})
			}},
			{desc: "Eval operands of different types", run: func(qf qframe.QFrame) qframe.QFrame {
				return temps(qf).Eval("n1", qframe.Expr("+", types.ColumnName("ti"), types.ColumnName("tf")))
			}},
		}
		o := ops[k]
		o.mustErr = true
		return o
	case 22:
		// an invalid leaf anywhere in an Or (also before/between composite sub-clauses) must surface as Err
		k := rapid.IntRange(0, 12).Draw(t, "orprobe")
		bad := qframe.Filter{Column: "never-created-col", Comparator: "=", Arg: 1}
		ok1 := qframe.And(qframe.Filter{Column: "ti", Comparator: ">=", Arg: 0})
		ok2 := qframe.Not(qframe.Filter{Column: "ti", Comparator: "<", Arg: 0})
		okLeaf := qframe.Filter{Column: "ti", Comparator: "=", Arg: 1}
		var clause qframe.FilterClause
		switch k {
		case 0:
			clause = qframe.Or(bad, ok1)
		case 1:
			clause = qframe.Or(ok1, bad, ok2)
		case 2:
			clause = qframe.Or(okLeaf, bad, ok1, okLeaf)
		case 3:
			clause = qframe.And(okLeaf, qframe.Or(bad, ok2))
		case 4:
			clause = qframe.Not(qframe.Or(qframe.Or(bad, ok1), okLeaf))
		// the invalid leaf sits inside a composite sub-clause that follows sub-clauses which already hold every row
		// (ti is 1 in every row), or none (And): nothing it could add or remove, but the misuse must still be reported
		case 5:
			clause = qframe.Or(ok1, qframe.And(bad))
		case 6:
			clause = qframe.Or(okLeaf, qframe.Not(bad))
		case 7:
			clause = qframe.Or(qframe.Null(), qframe.Or(bad, okLeaf))
		case 8:
			clause = qframe.Or(ok2, ok1, qframe.And(okLeaf, qframe.Not(bad)))
		case 9:
			clause = qframe.And(qframe.Not(ok1), qframe.Not(bad))
		case 10:
			clause = qframe.And(qframe.Filter{Column: "ti", Comparator: "<", Arg: 0}, qframe.Or(okLeaf, bad))
		case 11:
			clause = qframe.Or(qframe.Not(qframe.Filter{Column: "ti", Comparator: "<", Arg: 0}), qframe.And(okLeaf, qframe.Filter{Column: "ti", Comparator: "nosuchcomparator", Arg: 1}))
		default:
			clause = qframe.Not(qframe.And(qframe.Not(qframe.Null()), qframe.And(bad, okLeaf)))
		}
		return chainOp{desc: fmt.Sprintf("Or(invalid leaf, composite) probe %d", k), mustErr: true, run: func(qf qframe.QFrame) qframe.QFrame {
			tq := qf.Apply(qframe.Instruction{Fn: 1, DstCol: "ti"})
			if tq.Err != nil {
				return tq
			}
			return tq.Filter(clause)
		}}
	case 21:
		// the sub-clauses of And form a chain of their own: after the first one failed none of
		// the later ones may run a callback, and the first error is the one reported
		k := rapid.IntRange(0, 2).Draw(t, "andprobe")
		fn := hx.PredFns[rapid.IntRange(0, len(hx.PredFns)-1).Draw(t, "andfn")].I1
		bad := qframe.Filter{Column: "never-created-col", Comparator: "=", Arg: 1}
		cb := qframe.Filter{Column: "ti", Comparator: fn}
		var clause qframe.FilterClause
		switch k {
		case 0:
			clause = qframe.And(bad, cb)
		case 1:
			clause = qframe.And(qframe.Filter{Column: "ti", Comparator: ">=", Arg: 0}, bad, cb, cb)
		default:
			clause = qframe.Not(qframe.And(bad, qframe.Filter{Column: "also-never-created", Comparator: "=", Arg: 1}, cb))
		}
		return chainOp{desc: fmt.Sprintf("And(unknown column, callback filter) probe %d", k), mustErr: true, run: func(qf qframe.QFrame) qframe.QFrame {
			tq := qf.Apply(qframe.Instruction{Fn: 1, DstCol: "ti"})
			if tq.Err != nil {
				return tq
			}
			before := callbacks()
			res := tq.Filter(clause)
			if res.Err != nil && callbacks() != before {
				panic("VIOLATION: a callback of a later And sub-clause ran after an earlier sub-clause had failed")
			}
			if res.Err != nil && !strings.Contains(res.Err.Error(), "never-created-col") {
				panic("VIOLATION: the error of the first failing And sub-clause was replaced: " + res.Err.Error())
			}
			return res
		}}
	default:
		// a perfectly valid step that would invoke callbacks: makes stickiness observable
		return chainOp{desc: "valid Apply+Filter with callbacks", run: func(qf qframe.QFrame) qframe.QFrame {
			return qf.Apply(qframe.Instruction{Fn: hx.IntToInt, DstCol: "n2", SrcCol1: "i1"}).
				Filter(qframe.Filter{Column: "i1", Comparator: hx.PredFns[2].I1})
		}}
	}
}

// c10ReadSQL reads a served result set through the in-memory driver.
func c10ReadSQL(cols []string, rows [][]driver.Value, fns ...qsql.ConfigFunc) qframe.QFrame {
	m, db := faults.New()
	defer m.Release(db)
	m.Cols, m.Rows = cols, rows
	tx, err := db.Begin()
	if err != nil {
		panic(err)
	}
	defer tx.Rollback()
	return qframe.ReadSQL(tx, append([]qsql.ConfigFunc{qsql.Query("select * from t")}, fns...)...)
}

// c10Base: two int, a float, a bool, a string, two declared enum columns and an id.
func c10Base(t *rapid.T) hx.Table {
	n := rapid.IntRange(0, 12).Draw(t, "n")
	decl := []string{"b", "a", "c"}
	tab := hx.Table{}
	mk := func(name string, k hx.Kind) {
		c := hx.Col{Name: name, Kind: k}
		for r := 0; r < n; r++ {
			switch k {
			case hx.KInt:
				c.I = append(c.I, rapid.IntRange(-3, 3).Draw(t, "i"))
			case hx.KFloat:
				c.F = append(c.F, hx.GenFloat(t, false))
			case hx.KBool:
				c.B = append(c.B, rapid.Bool().Draw(t, "b"))
			case hx.KString:
				c.S = append(c.S, hx.GenStrPtr(t, false, false))
			case hx.KEnum:
				c.Enum = decl
				if rapid.IntRange(0, 3).Draw(t, "en") == 0 {
					c.S = append(c.S, nil)
				} else {
					c.S = append(c.S, hx.Sp(rapid.SampledFrom(decl).Draw(t, "ev")))
				}
			}
		}
		if k == hx.KEnum {
			c.Enum = decl
		}
		tab.Cols = append(tab.Cols, c)
	}
	mk("i1", hx.KInt)
	mk("i2", hx.KInt)
	mk("f1", hx.KFloat)
	mk("b1", hx.KBool)
	mk("s1", hx.KString)
	mk("e1", hx.KEnum)
	mk("e2", hx.KEnum)
	return tab
}

func TestC10(t *testing.T) {
	rapid.Check(t, func(t *rapid.T) {
		base := c10Base(t)
		var qf qframe.QFrame
		start := rapid.IntRange(0, 18).Draw(t, "start")
		startDesc := "derived frame"
		switch start {
		case 0:
			qf = qframe.New(map[string]interface{}{"i1": []int{1}, "f1": []float64{1, 2}})
			startDesc = "New with unequal lengths"
		case 1:
			qf = qframe.ReadCSV(strings.NewReader("a,b\n1,2\n3\n"))
			startDesc = "ReadCSV with a short row"
		case 2:
			qf = qframe.ReadCSV(strings.NewReader("a,b\n1,2\n"), csv.Types(map[string]string{"a": "nosuchtype"}))
			startDesc = "ReadCSV with unknown type"
		case 3:
			qf = qframe.ReadJSON(strings.NewReader(`[{"a": 1}, {"b": 2}`), newqf.Enums(map[string][]string{"zz": nil}))
			startDesc = "ReadJSON of broken JSON"
		case 4:
			// a coercion for a column the result set does not have (the reader's own comment: "ensure any column in the
			// coercion map exists in the resulting columns or return an error explicitly")
			qf = c10ReadSQL([]string{"a", "b"}, [][]driver.Value{{int64(1), "x"}, {int64(0), "y"}},
				qsql.Coerce(qsql.CoercePair{Column: rapid.SampledFrom([]string{"never-created-col", "A", "a ", "ab", ""}).Draw(t, "coercecol"), Type: qsql.Int64ToBool}))
			startDesc = "ReadSQL with a coercion for a column that is not in the result set"
		case 5:
			k := rapid.IntRange(0, 2).Draw(t, "sqlmisuse")
			switch k {
			case 0:
				qf = c10ReadSQL([]string{"a"}, [][]driver.Value{{"x"}}, qsql.Coerce(qsql.CoercePair{Column: "a", Type: qsql.Int64ToBool}))
				startDesc = "ReadSQL coercing a text column with Int64ToBool"
			case 1:
				qf = c10ReadSQL([]string{"a"}, [][]driver.Value{{"1.5"}, {"x"}}, qsql.Coerce(qsql.CoercePair{Column: "a", Type: qsql.StringToFloat}))
				startDesc = "ReadSQL coercing a text that is no number with StringToFloat"
			default:
				qf = c10ReadSQL([]string{"a"}, [][]driver.Value{{int64(1)}}, qsql.Coerce(qsql.CoercePair{Column: "a", Type: qsql.StringToFloat}))
				startDesc = "ReadSQL coercing an int column with StringToFloat"
			}
		case 6:
			qf = qframe.ReadCSV(strings.NewReader("a,b\n1,2\n"), csv.Types(map[string]string{"a": "int"}), csv.EnumValues(map[string][]string{"a": {"1"}}))
			startDesc = "ReadCSV with enum values for a column declared int"
		case 8:
			// option values that served a successful read before: the declared enum values still hold for the next read
			typs := csv.Types(map[string]string{"a": "enum"})
			vals := csv.EnumValues(map[string][]string{"a": {"x", "y"}})
			if first := qframe.ReadCSV(strings.NewReader("a\nx\ny\n"), typs, vals); first.Err != nil {
				t.Fatalf("ReadCSV with declared enum values failed: %v", first.Err)
			}
			qf = qframe.ReadCSV(strings.NewReader("a\nx\nhuge\n"), typs, vals)
			startDesc = "second ReadCSV with the same Types/EnumValues option values, now with an undeclared value"
		case 7:
			doc := rapid.SampledFrom([]string{`[{"a":1},{"a":"x"}]`, `[{"a":1,"b":true},{"a":1}]`, `[{"a":[1]}]`, `[{"a":{"b":1}}]`, `[1,2]`, `{"a":1}`, `[{"a":true},{"a":1}]`,
				`[{"a":"x"},{"a":null},{"a":3}]`, `[{"a":null},{"a":1}]`, `[{"a":"x"},{"a":true}]`}).Draw(t, "jsondoc")
			qf = qframe.ReadJSON(strings.NewReader(doc))
			startDesc = "ReadJSON of records whose values do not form typed columns: " + doc
		default:
			d := hx.GenDerived(t, base, 3)
			qf = d.QF
		}
		if start <= 8 && qf.Err == nil {
			t.Fatalf("%s did not report an error", startDesc)
		}
		nops := rapid.IntRange(1, 8).Draw(t, "nops")
		ops := make([]chainOp, nops)
		for i := range ops {
			ops[i] = genChainOp(t, true)
		}
		desc := func() string {
			var sb strings.Builder
			sb.WriteString("start: " + startDesc + "\n" + base.String())
			for i, o := range ops {
				fmt.Fprintf(&sb, "  step %d: %s (mustErr=%v)\n", i, o.desc, o.mustErr)
			}
			return sb.String()
		}
		firstErrStep := -1
		var firstErr error
		if qf.Err != nil {
			firstErrStep, firstErr = -1, qf.Err
		}
		curated := false
		for i, o := range ops {
			before := callbacks()
			prev := qf
			if o.filteredApply && prev.Err == nil && len(prev.ColumnNames()) == 0 && prev.Len() > 0 {
				// exactly the call shape of the open finding: excluded by construction, counted
				evC10.Known(sigColumnless)
				continue
			}
			var res qframe.QFrame
			if perr := hx.Safely(func() { res = o.run(prev) }); perr != nil {
				t.Fatalf("step %d (%s) panicked: %v\n%s", i, o.desc, perr, desc())
			}
			if o.mustErr {
				curated = true
			}
			if firstErr != nil {
				// sticky: still reports the first error, no callback ran
				if res.Err == nil {
					t.Fatalf("step %d (%s) on a failed frame returned a frame without Err (first error: %v)\n%s", i, o.desc, firstErr, desc())
				}
				if !strings.Contains(res.Err.Error(), firstErr.Error()) {
					t.Fatalf("step %d (%s): the failed frame no longer reports the first error: %q vs first %q\n%s", i, o.desc, res.Err, firstErr, desc())
				}
				if callbacks() != before {
					t.Fatalf("step %d (%s) invoked a user callback although the frame had failed before\n%s", i, o.desc, desc())
				}
			} else if o.mustErr && res.Err == nil {
				t.Fatalf("step %d (%s): misuse was accepted without an error\n%s", i, o.desc, desc())
			}
			if res.Err != nil {
				if res.Len() != -1 {
					t.Fatalf("step %d (%s): frame has Err %v but Len()=%d\n%s", i, o.desc, res.Err, res.Len(), desc())
				}
				if firstErr == nil {
					firstErr, firstErrStep = res.Err, i
				}
				// observers of a failed frame: errors, never panics
				if perr := hx.Safely(func() {
					var buf bytes.Buffer
					if res.ToCSV(&buf) == nil {
						panic("VIOLATION: ToCSV of a failed frame returned nil")
					}
					if res.ToJSON(&buf) == nil {
						panic("VIOLATION: ToJSON of a failed frame returned nil")
					}
					if res.ToSQL(nil) == nil {
						panic("VIOLATION: ToSQL of a failed frame returned nil")
					}
					_ = res.String()
					_ = res.ColumnNames()
					_ = res.ColumnTypes()
					_ = res.ByteSize()
					_, _ = res.IntView("i1")
					_, _ = res.StringView("nosuch")
					_, _ = res.Equals(prev)
					_, _ = prev.Equals(res)
					if g := res.GroupBy(); g.Err == nil {
						panic("VIOLATION: GroupBy of a failed frame has no Err")
					}
				}); perr != nil {
					t.Fatalf("observing the failed frame after step %d (%s): %v\n%s", i, o.desc, perr, desc())
				}
			} else {
				// a healthy result must be observable without panic
				if perr := hx.Safely(func() {
					if _, err := hx.Observe(res); err != nil {
						panic(err)
					}
					_ = res.String()
					var buf bytes.Buffer
					_ = res.ToCSV(&buf)
				}); perr != nil {
					t.Fatalf("result of step %d (%s) has no Err but cannot be observed: %v\n%s", i, o.desc, perr, desc())
				}
			}
			qf = res
		}
		classes := []string{}
		if firstErr != nil {
			classes = append(classes, "chain-with-error")
		} else {
			classes = append(classes, "chain-without-error")
		}
		if curated {
			classes = append(classes, "curated-misuse")
		}
		nontrivial := (firstErr != nil && firstErrStep < nops-1) || curated
		evC10.Case(nontrivial, desc, classes...)
	})
}
