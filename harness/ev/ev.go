// Package ev records what a check actually explored: executed cases, distinct
// non-trivial cases (64-bit FNV hashes of a canonical rendering), class histograms,
// samples and known-finding hits. One Recorder per property; the state is written to
// the file named by VERIF_STATS (JSON) plus VERIF_STATS+".hashes" (binary, 8 bytes
// little endian per hash) when the test binary exits.
package ev

import (
	"encoding/binary"
	"encoding/json"
	"hash/fnv"
	"os"
	"sort"
	"sync"
)

// MaxHashes bounds the per-process hash set; beyond it distinct counting stops
// (conservative: later distinct cases are not counted).
const MaxHashes = 3_000_000

type Recorder struct {
	mu         sync.Mutex
	Property   string
	Rule       string
	evals      int64
	nontrivial int64
	hashes     map[uint64]struct{}
	saturated  bool
	classes    map[string]int64
	samples    []string
	ntSamples  []string
	known      map[string]int64
	extra      map[string]interface{}
}

var (
	regMu sync.Mutex
	reg   []*Recorder
)

// New creates and registers a recorder.
func New(property, rule string) *Recorder {
	r := &Recorder{Property: property, Rule: rule, hashes: map[uint64]struct{}{}, classes: map[string]int64{},
		known: map[string]int64{}, extra: map[string]interface{}{}}
	regMu.Lock()
	reg = append(reg, r)
	regMu.Unlock()
	return r
}

func Hash(s string) uint64 {
	h := fnv.New64a()
	h.Write([]byte(s))
	return h.Sum64()
}

// Case records one executed case. desc is only evaluated when needed (non-trivial
// cases and the first few samples) and must render the case canonically.
func (r *Recorder) Case(nontrivial bool, desc func() string, classes ...string) {
	r.mu.Lock()
	defer r.mu.Unlock()
	r.evals++
	for _, c := range classes {
		r.classes[c]++
	}
	if !nontrivial {
		if len(r.samples) < 2 {
			r.samples = append(r.samples, clip(desc()))
		}
		return
	}
	r.nontrivial++
	if r.saturated {
		return
	}
	d := desc()
	r.hashes[Hash(d)] = struct{}{}
	if len(r.hashes) >= MaxHashes {
		r.saturated = true
	}
	// keep a few samples spread over the run: the 1st, 10th, 100th, ... non-trivial case
	if n := r.nontrivial; n == 1 || n == 10 || n == 100 || n == 1000 || n == 10000 {
		r.ntSamples = append(r.ntSamples, clip(d))
	}
}

// CaseHash is Case for callers that hash themselves (cheap high volume checks).
func (r *Recorder) CaseHash(nontrivial bool, h uint64, sample func() string, classes ...string) {
	r.mu.Lock()
	defer r.mu.Unlock()
	r.evals++
	for _, c := range classes {
		r.classes[c]++
	}
	if !nontrivial {
		return
	}
	r.nontrivial++
	if !r.saturated {
		r.hashes[h] = struct{}{}
		if len(r.hashes) >= MaxHashes {
			r.saturated = true
		}
	}
	if n := r.nontrivial; n == 1 || n == 10 || n == 100 || n == 1000 || n == 10000 {
		r.ntSamples = append(r.ntSamples, clip(sample()))
	}
}

// Class bumps class counters without counting a case.
func (r *Recorder) Class(classes ...string) {
	r.mu.Lock()
	for _, c := range classes {
		r.classes[c]++
	}
	r.mu.Unlock()
}

// ClassN adds n to a class counter.
func (r *Recorder) ClassN(class string, n int64) {
	r.mu.Lock()
	r.classes[class] += n
	r.mu.Unlock()
}

// AddEvals adds executions that are not cases of their own (e.g. fault positions).
func (r *Recorder) AddEvals(n int64) {
	r.mu.Lock()
	r.evals += n
	r.mu.Unlock()
}

// Known counts a hit of an open known finding (by signature).
func (r *Recorder) Known(signature string) {
	r.mu.Lock()
	r.known[signature]++
	r.mu.Unlock()
}

// Extra stores an additional evidence value (last write wins).
func (r *Recorder) Extra(key string, v interface{}) {
	r.mu.Lock()
	r.extra[key] = v
	r.mu.Unlock()
}

func clip(s string) string {
	const max = 700
	if len(s) > max {
		return s[:max] + "…(clipped)"
	}
	return s
}

// Stats is the on-disk form of one process's recorders.
type Stats struct {
	Property   string                 `json:"property"`
	Rule       string                 `json:"rule"`
	Evals      int64                  `json:"evaluations"`
	Nontrivial int64                  `json:"nontrivial_cases"`
	Distinct   int                    `json:"distinct_nontrivial"`
	Saturated  bool                   `json:"hash_set_saturated"`
	Classes    map[string]int64       `json:"classes"`
	Samples    []string               `json:"samples"`
	Known      map[string]int64       `json:"known_findings"`
	Extra      map[string]interface{} `json:"extra"`
}

// Flush writes all recorders that saw at least one case. Called from TestMain.
func Flush() {
	path := os.Getenv("VERIF_STATS")
	if path == "" {
		return
	}
	regMu.Lock()
	defer regMu.Unlock()
	var all []Stats
	var hashes []uint64
	for _, r := range reg {
		r.mu.Lock()
		if r.evals == 0 {
			r.mu.Unlock()
			continue
		}
		s := Stats{Property: r.Property, Rule: r.Rule, Evals: r.evals, Nontrivial: r.nontrivial, Distinct: len(r.hashes),
			Saturated: r.saturated, Classes: r.classes, Known: r.known, Extra: r.extra}
		s.Samples = append(append([]string(nil), r.ntSamples...), r.samples...)
		for h := range r.hashes {
			// mix the rule into the hash so that sub-checks of one property do not collide
			hashes = append(hashes, h^Hash(r.Rule))
		}
		all = append(all, s)
		r.mu.Unlock()
	}
	sort.Slice(hashes, func(i, j int) bool { return hashes[i] < hashes[j] })
	buf := make([]byte, 8*len(hashes))
	for i, h := range hashes {
		binary.LittleEndian.PutUint64(buf[8*i:], h)
	}
	_ = os.WriteFile(path+".hashes", buf, 0o644)
	b, _ := json.Marshal(all)
	_ = os.WriteFile(path, b, 0o644)
}
