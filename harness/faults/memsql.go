// Package faults holds the I/O doubles of the harness: an in-memory database/sql driver
// that records every statement and argument list, serves generated result sets and can
// fail at a chosen point; failing writers.
package faults

import (
	"database/sql"
	"database/sql/driver"
	"errors"
	"fmt"
	"io"
	"sync"
	"sync/atomic"
)

// ErrInjected is the error every injected fault reports.
var ErrInjected = errors.New("injected fault")

// eofNamed is a failure whose text is "EOF" but which is not io.EOF.
type eofNamed struct{}

func (eofNamed) Error() string { return "EOF" }

// ReadErrors are the failures a reader is made to report: by the io.Reader contract only the value io.EOF
// itself means a clean end of the stream; an error that merely wraps it, is named like it or is
// io.ErrUnexpectedEOF is a failure.
var ReadErrors = []error{ErrInjected, ErrInjected, io.ErrUnexpectedEOF, fmt.Errorf("connection lost: %w", io.EOF), eofNamed{}}

// Call is one recorded Exec.
type Call struct {
	Query string
	Args  []driver.Value
}

// MemDB is the state behind one DSN.
type MemDB struct {
	mu       sync.Mutex
	Prepared []string
	Execs    []Call
	Queries  []Call

	// result set served for every Query
	Cols []string
	Rows [][]driver.Value

	// fault plan (-1 = never)
	FailPrepareAt int // the n-th Prepare (0 based) fails
	FailExecAt    int // the n-th Exec fails
	FailQuery     bool
	FailNextAt    int // Next fails instead of delivering row k (k == len(Rows): fails instead of EOF)
	Commits       int
	Rollbacks     int
	// ReuseBuffers makes the driver hand out []byte values from one scratch buffer per column that is
	// overwritten by the next row (allowed by database/sql: the memory is owned by the driver)
	ReuseBuffers bool
	// Err is the error the faults report (nil = ErrInjected)
	Err error
	// Delivered counts the faults the driver actually returned (a planned fault that the code under test
	// never reaches - e.g. the 3rd Prepare when the statement is prepared once - is not a fault)
	Delivered int
}

var (
	regMu    sync.Mutex
	registry = map[string]*MemDB{}
	dsnSeq   int64
	once     sync.Once
)

func (m *MemDB) fault() error {
	if m.Err != nil {
		return m.Err
	}
	return ErrInjected
}

// SQLErrors are the failures a driver is made to report: database/sql gives some error values a meaning of its own
// for *its* callers (sql.ErrNoRows from QueryRow.Scan) - coming from a driver's Prepare, Query or Next they are failures.
var SQLErrors = []error{nil, nil, sql.ErrNoRows, io.ErrUnexpectedEOF, fmt.Errorf("driver: %w", io.EOF)}

// New creates a fresh database and returns it together with an open *sql.DB.
func New() (*MemDB, *sql.DB) {
	once.Do(func() { sql.Register("verifmem", memDriver{}) })
	m := &MemDB{FailPrepareAt: -1, FailExecAt: -1, FailNextAt: -1}
	name := fmt.Sprintf("db%d", atomic.AddInt64(&dsnSeq, 1))
	regMu.Lock()
	registry[name] = m
	regMu.Unlock()
	db, err := sql.Open("verifmem", name)
	if err != nil {
		panic(err)
	}
	db.SetMaxOpenConns(1)
	return m, db
}

// Release forgets the database (the registry would otherwise grow with every case).
func (m *MemDB) Release(db *sql.DB) {
	db.Close()
	regMu.Lock()
	for k, v := range registry {
		if v == m {
			delete(registry, k)
		}
	}
	regMu.Unlock()
}

type memDriver struct{}

func (memDriver) Open(name string) (driver.Conn, error) {
	regMu.Lock()
	m := registry[name]
	regMu.Unlock()
	if m == nil {
		return nil, fmt.Errorf("no such mem db %q", name)
	}
	return &memConn{m}, nil
}

type memConn struct{ m *MemDB }

func (c *memConn) Prepare(query string) (driver.Stmt, error) {
	c.m.mu.Lock()
	defer c.m.mu.Unlock()
	n := len(c.m.Prepared)
	c.m.Prepared = append(c.m.Prepared, query)
	if c.m.FailPrepareAt == n {
		c.m.Delivered++
		return nil, c.m.fault()
	}
	return &memStmt{m: c.m, query: query}, nil
}
func (c *memConn) Close() error { return nil }
func (c *memConn) Begin() (driver.Tx, error) {
	return &memTx{c.m}, nil
}

type memTx struct{ m *MemDB }

func (t *memTx) Commit() error   { t.m.mu.Lock(); t.m.Commits++; t.m.mu.Unlock(); return nil }
func (t *memTx) Rollback() error { t.m.mu.Lock(); t.m.Rollbacks++; t.m.mu.Unlock(); return nil }

type memStmt struct {
	m     *MemDB
	query string
}

func (s *memStmt) Close() error  { return nil }
func (s *memStmt) NumInput() int { return -1 }
func (s *memStmt) Exec(args []driver.Value) (driver.Result, error) {
	s.m.mu.Lock()
	defer s.m.mu.Unlock()
	n := len(s.m.Execs)
	s.m.Execs = append(s.m.Execs, Call{Query: s.query, Args: append([]driver.Value(nil), args...)})
	if s.m.FailExecAt == n {
		s.m.Delivered++
		return nil, s.m.fault()
	}
	return driver.RowsAffected(1), nil
}
func (s *memStmt) Query(args []driver.Value) (driver.Rows, error) {
	s.m.mu.Lock()
	defer s.m.mu.Unlock()
	s.m.Queries = append(s.m.Queries, Call{Query: s.query, Args: append([]driver.Value(nil), args...)})
	if s.m.FailQuery {
		s.m.Delivered++
		return nil, s.m.fault()
	}
	return &memRows{m: s.m}, nil
}

type memRows struct {
	m       *MemDB
	pos     int
	scratch [][]byte
}

func (r *memRows) Columns() []string { return r.m.Cols }
func (r *memRows) Close() error      { return nil }
func (r *memRows) Next(dest []driver.Value) error {
	if r.m.FailNextAt == r.pos {
		r.m.Delivered++
		return r.m.fault()
	}
	if r.pos >= len(r.m.Rows) {
		return io.EOF
	}
	copy(dest, r.m.Rows[r.pos])
	if r.m.ReuseBuffers {
		if r.scratch == nil {
			r.scratch = make([][]byte, len(dest))
		}
		for i, v := range dest {
			if b, ok := v.([]byte); ok {
				// poison what the previous row was given, then reuse the buffer
				for j := range r.scratch[i] {
					r.scratch[i][j] = '#'
				}
				r.scratch[i] = append(r.scratch[i][:0], b...)
				dest[i] = r.scratch[i]
			}
		}
	}
	r.pos++
	return nil
}

// FailWriter accepts Limit bytes and then fails every write (a write crossing the limit
// accepts the part that fits and reports the error).
type FailWriter struct {
	Limit    int // -1 = never fail
	Accepted []byte
	Failed   bool
	Err      error // the error reported (nil = ErrInjected)
	// FailCall >= 1: another fault plan - exactly the FailCall-th Write call is refused (nothing of it accepted) and every
	// other call is accepted, also the later ones (a transient fault). Limit is ignored then.
	FailCall int
	Calls    int
}

// WriteErrors are the failures a writer is made to report: whatever its value - also one that the buffering layers of the
// standard library use themselves (io.ErrShortWrite), io.EOF or a closed pipe - the bytes were not written.
var WriteErrors = []error{nil, nil, io.ErrShortWrite, io.ErrClosedPipe, io.EOF, fmt.Errorf("disk full: %w", io.ErrShortWrite)}

func (w *FailWriter) Write(p []byte) (int, error) {
	w.Calls++
	if w.FailCall >= 1 {
		if w.Calls == w.FailCall {
			w.Failed = true
			if w.Err != nil {
				return 0, w.Err
			}
			return 0, ErrInjected
		}
		w.Accepted = append(w.Accepted, p...)
		return len(p), nil
	}
	if w.Limit < 0 {
		w.Accepted = append(w.Accepted, p...)
		return len(p), nil
	}
	room := w.Limit - len(w.Accepted)
	if room >= len(p) {
		w.Accepted = append(w.Accepted, p...)
		return len(p), nil
	}
	if room < 0 {
		room = 0
	}
	w.Accepted = append(w.Accepted, p[:room]...)
	w.Failed = true
	if w.Err != nil {
		return room, w.Err
	}
	return room, ErrInjected
}

// RichFailWriter is a FailWriter that also offers the optional writer interfaces (io.ByteWriter, io.StringWriter), as
// bufio.Writer, bytes.Buffer or strings.Builder do: code that prefers them meets the same fault plan through them.
type RichFailWriter struct{ FailWriter }

func (w *RichFailWriter) WriteByte(c byte) error {
	_, err := w.Write([]byte{c})
	return err
}

func (w *RichFailWriter) WriteString(s string) (int, error) { return w.Write([]byte(s)) }
