package hx

import (
	"fmt"
	"math"
	"strconv"
	"strings"
	"sync/atomic"
	"unicode/utf8"

	"github.com/tobgu/qframe"
	"github.com/tobgu/qframe/types"
	"pgregory.net/rapid"
)

// Instr is a data-only Apply instruction.
type Instr struct {
	Op   string // "const", "copy", "fn0", "fn1", "fn2", "upper" (the ToUpper built-in)
	Dst  string
	Src1 string
	Src2 string
	// const / fn0: the value kind and value
	CK    Kind
	CI    int
	CF    float64
	CB    bool
	CS    *string
	AsPtr bool // string constant handed over as *string instead of string
	// fn1: result kind
	Res Kind
}

func (in Instr) String() string {
	switch in.Op {
	case "const", "fn0":
		var v string
		switch in.CK {
		case KInt:
			v = strconv.Itoa(in.CI)
		case KFloat:
			v = fmt.Sprintf("%v", in.CF)
		case KBool:
			v = strconv.FormatBool(in.CB)
		default:
			if in.CS == nil {
				v = "nil"
			} else {
				v = strconv.Quote(*in.CS)
			}
			if in.AsPtr {
				v = "&" + v
			}
		}
		return fmt.Sprintf("%s=%s(%s %s)", in.Dst, in.Op, in.CK, v)
	case "copy":
		return fmt.Sprintf("%s=copy(%s)", in.Dst, in.Src1)
	case "id1":
		return fmt.Sprintf("%s=identityfn(%s)", in.Dst, in.Src1)
	case "fn1":
		return fmt.Sprintf("%s=fn1->%s(%s)", in.Dst, in.Res, in.Src1)
	case "fn2":
		return fmt.Sprintf("%s=fn2(%s,%s)", in.Dst, in.Src1, in.Src2)
	case "upper":
		return fmt.Sprintf("%s=ToUpper(%s)", in.Dst, in.Src1)
	}
	return "?"
}

func InstrsString(is []Instr) string {
	p := make([]string, len(is))
	for i, x := range is {
		p[i] = x.String()
	}
	return strings.Join(p, "; ")
}

// ApplyCalls counts invocations of the function library (C10: no callback after an error).
var ApplyCalls int64

func called() { atomic.AddInt64(&ApplyCalls, 1) }

// --- the pure function library (one function per supported signature) ---

func clampInt(x float64) int {
	switch {
	case x != x:
		return -1
	case x > 1000:
		return 1000
	case x < -1000:
		return -1000
	}
	return int(x)
}

func IntToInt(x int) int       { called(); return x*2 + 1 }
func IntToFloat(x int) float64 { called(); return float64(x) / 2 }
func IntToBool(x int) bool     { called(); return x > 0 }
func IntToStr(x int) *string {
	called()
	if x == 0 {
		return nil
	}
	s := strconv.Itoa(x)
	return &s
}
func FloatToInt(x float64) int { called(); return clampInt(x) }

// the float and string functions do NOT propagate NaN/null: an implementation that skips the call for such
// operands (as the library's own functions would allow) is visible
func FloatToFloat(x float64) float64 {
	called()
	if x != x {
		return 42.25
	}
	return x + 0.5
}
func FloatToBool(x float64) bool { called(); return x > 0 || x != x }
func FloatToStr(x float64) *string {
	called()
	if math.IsNaN(x) {
		return nil
	}
	s := strconv.FormatFloat(x, 'g', -1, 64)
	return &s
}
func BoolToInt(x bool) int {
	called()
	if x {
		return 1
	}
	return 0
}
func BoolToFloat(x bool) float64 {
	called()
	if x {
		return 1.5
	}
	return -0.5
}
func BoolToBool(x bool) bool { called(); return !x }
func BoolToStr(x bool) *string {
	called()
	s := "F"
	if x {
		s = "T"
	}
	return &s
}
func StrToInt(x *string) int {
	called()
	if x == nil {
		return -1
	}
	return len(*x)
}
func StrToFloat(x *string) float64 {
	called()
	if x == nil {
		return math.NaN()
	}
	return float64(len(*x)) / 4
}
func StrToBool(x *string) bool { called(); return x != nil && len(*x)%2 == 1 }
func StrToStr(x *string) *string {
	called()
	if x == nil {
		s := "nil!"
		return &s
	}
	if *x == "" {
		return nil
	}
	if len(*x) == 2 {
		return x // the very pointer that was passed in: it must not be reused for the next row
	}
	s := *x + "!"
	return &s
}

func Int2(x, y int) int { called(); return x - 2*y }
func Float2(x, y float64) float64 {
	called()
	switch {
	case x != x && y != y:
		return 7
	case x != x:
		return y + 11
	case y != y:
		return x - 13
	}
	return x - 2*y
}
func Bool2(x, y bool) bool { called(); return x && !y }
func Str2(x, y *string) *string {
	called()
	// (two nulls give a value, not null: a function is asked about every row, also about rows that hold nothing)
	if x != nil && y != nil && *x == *y {
		return y // the very pointer that was passed in
	}
	s := ""
	if x != nil {
		s = *x
	}
	s += "-"
	if y != nil {
		s += *y
	}
	return &s
}

func srcKindNorm(k Kind) Kind {
	if k == KEnum {
		return KString
	}
	return k
}

func fn1For(src, res Kind) interface{} {
	switch srcKindNorm(src) {
	case KInt:
		return map[Kind]interface{}{KInt: IntToInt, KFloat: IntToFloat, KBool: IntToBool, KString: IntToStr}[res]
	case KFloat:
		return map[Kind]interface{}{KInt: FloatToInt, KFloat: FloatToFloat, KBool: FloatToBool, KString: FloatToStr}[res]
	case KBool:
		return map[Kind]interface{}{KInt: BoolToInt, KFloat: BoolToFloat, KBool: BoolToBool, KString: BoolToStr}[res]
	default:
		return map[Kind]interface{}{KInt: StrToInt, KFloat: StrToFloat, KBool: StrToBool, KString: StrToStr}[res]
	}
}

// Build returns the real instruction. kinds gives the kinds of the columns at the time
// the instruction executes.
func (in Instr) Build(kinds map[string]Kind) qframe.Instruction {
	r := qframe.Instruction{DstCol: in.Dst, SrcCol1: in.Src1, SrcCol2: in.Src2}
	switch in.Op {
	case "const":
		switch in.CK {
		case KInt:
			r.Fn = in.CI
		case KFloat:
			r.Fn = in.CF
		case KBool:
			r.Fn = in.CB
		default:
			if in.AsPtr || in.CS == nil {
				r.Fn = in.CS
			} else {
				r.Fn = *in.CS
			}
		}
	case "fn0":
		switch in.CK {
		case KInt:
			v := in.CI
			r.Fn = func() int { called(); return v }
		case KFloat:
			v := in.CF
			r.Fn = func() float64 { called(); return v }
		case KBool:
			v := in.CB
			r.Fn = func() bool { called(); return v }
		default:
			v := in.CS
			r.Fn = func() *string { called(); return v }
		}
	case "copy":
		r.Fn = types.ColumnName(in.Src1)
		r.SrcCol1 = ""
	case "id1":
		// a user function that returns its argument (an implementation may be tempted to recognise it)
		switch srcKindNorm(kinds[in.Src1]) {
		case KInt:
			r.Fn = func(x int) int { called(); return x }
		case KFloat:
			r.Fn = func(x float64) float64 { called(); return x }
		case KBool:
			r.Fn = func(x bool) bool { called(); return x }
		default:
			r.Fn = func(x *string) *string { called(); return x }
		}
	case "fn1":
		r.Fn = fn1For(kinds[in.Src1], in.Res)
	case "fn2":
		switch srcKindNorm(kinds[in.Src1]) {
		case KInt:
			r.Fn = Int2
		case KFloat:
			r.Fn = Float2
		case KBool:
			r.Fn = Bool2
		default:
			r.Fn = Str2
		}
	case "upper":
		r.Fn = "ToUpper"
	}
	return r
}

// Exec executes the instruction on the model table for the rows in `rows` (all rows
// for a plain Apply); the other rows of the destination get the zero value (strings:
// null). It returns the new table.
func (in Instr) Exec(t Table, rows []int) Table {
	n := t.N()
	var dst Col
	switch in.Op {
	case "const", "fn0":
		dst = Col{Name: in.Dst, Kind: in.CK}
		switch in.CK {
		case KInt:
			dst.I = make([]int, n)
			for _, r := range rows {
				dst.I[r] = in.CI
			}
		case KFloat:
			dst.F = make([]float64, n)
			for _, r := range rows {
				dst.F[r] = in.CF
			}
		case KBool:
			dst.B = make([]bool, n)
			for _, r := range rows {
				dst.B[r] = in.CB
			}
		default:
			dst.Kind = KString
			dst.S = make([]*string, n)
			for _, r := range rows {
				dst.S[r] = in.CS
			}
		}
	case "copy":
		src := t.MustCol(in.Src1)
		dst = zeroLike(src, n)
		dst.Name = in.Dst
		for _, r := range rows {
			copyCell(&dst, src, r)
		}
	case "id1":
		src := t.MustCol(in.Src1)
		dst = zeroLike(src, n)
		dst.Name = in.Dst
		if dst.Kind == KEnum {
			dst.Kind, dst.Enum = KString, nil // a func(*string) *string result is a string column
		}
		for _, r := range rows {
			copyCell(&dst, src, r)
		}
	case "upper":
		src := t.MustCol(in.Src1)
		dst = Col{Name: in.Dst, Kind: src.Kind, S: make([]*string, n)}
		if src.Kind == KEnum && src.Enum != nil {
			dst.Enum = make([]string, len(src.Enum))
			for i, v := range src.Enum {
				dst.Enum[i] = strings.ToUpper(v)
			}
		}
		for _, r := range rows {
			if src.S[r] != nil {
				dst.S[r] = Sp(strings.ToUpper(*src.S[r]))
			}
		}
	case "fn1":
		src := t.MustCol(in.Src1)
		dst = Col{Name: in.Dst, Kind: in.Res}
		switch in.Res {
		case KInt:
			dst.I = make([]int, n)
		case KFloat:
			dst.F = make([]float64, n)
		case KBool:
			dst.B = make([]bool, n)
		default:
			dst.S = make([]*string, n)
		}
		for _, r := range rows {
			switch srcKindNorm(src.Kind) {
			case KInt:
				x := src.I[r]
				switch in.Res {
				case KInt:
					dst.I[r] = IntToInt(x)
				case KFloat:
					dst.F[r] = IntToFloat(x)
				case KBool:
					dst.B[r] = IntToBool(x)
				default:
					dst.S[r] = IntToStr(x)
				}
			case KFloat:
				x := src.F[r]
				switch in.Res {
				case KInt:
					dst.I[r] = FloatToInt(x)
				case KFloat:
					dst.F[r] = FloatToFloat(x)
				case KBool:
					dst.B[r] = FloatToBool(x)
				default:
					dst.S[r] = FloatToStr(x)
				}
			case KBool:
				x := src.B[r]
				switch in.Res {
				case KInt:
					dst.I[r] = BoolToInt(x)
				case KFloat:
					dst.F[r] = BoolToFloat(x)
				case KBool:
					dst.B[r] = BoolToBool(x)
				default:
					dst.S[r] = BoolToStr(x)
				}
			default:
				x := src.S[r]
				switch in.Res {
				case KInt:
					dst.I[r] = StrToInt(x)
				case KFloat:
					dst.F[r] = StrToFloat(x)
				case KBool:
					dst.B[r] = StrToBool(x)
				default:
					dst.S[r] = StrToStr(x)
				}
			}
		}
	case "fn2":
		a, b := t.MustCol(in.Src1), t.MustCol(in.Src2)
		k := srcKindNorm(a.Kind)
		dst = Col{Name: in.Dst, Kind: k}
		switch k {
		case KInt:
			dst.I = make([]int, n)
			for _, r := range rows {
				dst.I[r] = Int2(a.I[r], b.I[r])
			}
		case KFloat:
			dst.F = make([]float64, n)
			for _, r := range rows {
				dst.F[r] = Float2(a.F[r], b.F[r])
			}
		case KBool:
			dst.B = make([]bool, n)
			for _, r := range rows {
				dst.B[r] = Bool2(a.B[r], b.B[r])
			}
		default:
			dst.S = make([]*string, n)
			for _, r := range rows {
				dst.S[r] = Str2(a.S[r], b.S[r])
			}
		}
	}
	return t.With(dst)
}

func zeroLike(src Col, n int) Col {
	c := Col{Kind: src.Kind, Enum: src.Enum}
	switch src.Kind {
	case KInt:
		c.I = make([]int, n)
	case KFloat:
		c.F = make([]float64, n)
	case KBool:
		c.B = make([]bool, n)
	default:
		c.S = make([]*string, n)
	}
	return c
}

func copyCell(dst *Col, src Col, r int) {
	switch src.Kind {
	case KInt:
		dst.I[r] = src.I[r]
	case KFloat:
		dst.F[r] = src.F[r]
	case KBool:
		dst.B[r] = src.B[r]
	default:
		dst.S[r] = src.S[r]
	}
}

// GenInstrs draws 1..max instructions that are well typed when executed in order on
// tab: destinations new or existing, sources that may be earlier destinations,
// destination = source.
func GenInstrs(t *rapid.T, tab Table, max int) []Instr {
	n := rapid.IntRange(1, max).Draw(t, "ninstr")
	cur := tab
	var out []Instr
	newNames := []string{"n1", "n2", "n3", "n4", "n5"}
	for i := 0; i < n; i++ {
		var in Instr
		// destination
		if rapid.IntRange(0, 2).Draw(t, "dstexisting") == 0 {
			in.Dst = cur.Cols[rapid.IntRange(0, len(cur.Cols)-1).Draw(t, "dstcol")].Name
		} else {
			in.Dst = rapid.SampledFrom(newNames).Draw(t, "dstnew")
		}
		src := cur.Cols[rapid.IntRange(0, len(cur.Cols)-1).Draw(t, "src1")]
		switch rapid.IntRange(0, 7).Draw(t, "dsteqsrc") {
		case 0, 1:
			in.Dst = src.Name
		case 2:
			// a destination that differs from the source in letter case only is another column
			if up := strings.ToUpper(src.Name); up != src.Name && utf8.ValidString(up) && legalName(up) {
				in.Dst = up
			} else if lo := strings.ToLower(src.Name); lo != src.Name && utf8.ValidString(lo) && legalName(lo) {
				in.Dst = lo
			}
		}
		switch rapid.IntRange(0, 10).Draw(t, "instrkind") {
		case 10:
			in.Op = "id1"
			in.Src1 = src.Name
		case 0:
			in.Op = "const"
			genConst(t, &in)
		case 1:
			in.Op = "fn0"
			genConst(t, &in)
		case 2:
			in.Op = "copy"
			in.Src1 = src.Name
		case 3, 4, 5, 6:
			in.Op = "fn1"
			in.Src1 = src.Name
			in.Res = rapid.SampledFrom([]Kind{KInt, KFloat, KBool, KString}).Draw(t, "res")
		case 7:
			if src.Kind == KString || src.Kind == KEnum {
				in.Op = "upper"
				in.Src1 = src.Name
			} else {
				in.Op = "fn1"
				in.Src1 = src.Name
				in.Res = rapid.SampledFrom([]Kind{KInt, KFloat, KBool, KString}).Draw(t, "res")
			}
		default:
			in.Op = "fn2"
			in.Src1 = src.Name
			others := colsOfKind(cur, src.Kind)
			in.Src2 = others[rapid.IntRange(0, len(others)-1).Draw(t, "src2")].Name
		}
		out = append(out, in)
		cur = in.Exec(cur, nil) // only the column layout matters for generation
	}
	return out
}

func genConst(t *rapid.T, in *Instr) {
	in.CK = rapid.SampledFrom([]Kind{KInt, KFloat, KBool, KString}).Draw(t, "constkind")
	switch in.CK {
	case KInt:
		in.CI = GenInt(t)
	case KFloat:
		in.CF = GenFloat(t, false) // (-0.0 included: a constant is the value written, D24)
	case KBool:
		in.CB = rapid.Bool().Draw(t, "constb")
	default:
		in.CS = GenStrPtr(t, false, false)
		if in.CS != nil && rapid.IntRange(0, 9).Draw(t, "constlikebuiltin") == 0 {
			// a constant whose text happens to be the name of a built-in function: without a source column it is a constant
			in.CS = Sp(rapid.SampledFrom([]string{"ToUpper", "abs", "+"}).Draw(t, "builtinname"))
		}
		in.AsPtr = rapid.Bool().Draw(t, "asptr")
	}
}

// ZeroArgInt is a zero-argument function for instructions that fill a column.
func ZeroArgInt() int { return 11 }
