package hx

import (
	"fmt"

	"github.com/tobgu/qframe"
	"github.com/tobgu/qframe/config/newqf"
)

// Build creates a real frame from the table using qframe.New with an explicit column
// order and the enum declarations of the table. Strings are handed over as []*string.
func Build(t Table) qframe.QFrame {
	data := map[string]interface{}{}
	enums := map[string][]string{}
	for _, c := range t.Cols {
		switch c.Kind {
		// (the slices have spare capacity, as slices that were filled by append do: it is not the frame's to use)
		case KInt:
			data[c.Name] = append(make([]int, 0, 2*len(c.I)+8), c.I...)
		case KFloat:
			data[c.Name] = append(make([]float64, 0, 2*len(c.F)+8), c.F...)
		case KBool:
			data[c.Name] = append(make([]bool, 0, 2*len(c.B)+8), c.B...)
		case KString:
			data[c.Name] = copyPtrs(c.S)
		case KEnum:
			data[c.Name] = copyPtrs(c.S)
			if c.Enum == nil {
				enums[c.Name] = nil
			} else {
				enums[c.Name] = append([]string(nil), c.Enum...)
			}
		default:
			panic("harness: cannot build column of kind " + c.Kind.String())
		}
	}
	if len(t.Cols) == 0 {
		return qframe.New(data)
	}
	fns := []newqf.ConfigFunc{newqf.ColumnOrder(t.Names()...)}
	if len(enums) > 0 {
		fns = append(fns, newqf.Enums(enums))
	}
	return qframe.New(data, fns...)
}

// copyPtrs makes a deep copy so that no string storage is shared between the model
// and the frame under test.
func copyPtrs(in []*string) []*string {
	out := make([]*string, len(in))
	for i, p := range in {
		if p != nil {
			s := string(append([]byte(nil), *p...))
			out[i] = &s
		}
	}
	return out
}

// Observe reads a frame through the public, non-panicking observers: Err, Len,
// ColumnNames, ColumnTypes and every cell through the typed view of its column.
// The strings are copied out of the frame.
func Observe(qf qframe.QFrame) (Table, error) {
	if qf.Err != nil {
		return Table{}, fmt.Errorf("frame has Err: %v", qf.Err)
	}
	n := qf.Len()
	names := qf.ColumnNames()
	typs := qf.ColumnTypes()
	if len(names) != len(typs) {
		return Table{}, fmt.Errorf("ColumnNames has %d entries, ColumnTypes %d", len(names), len(typs))
	}
	// the by-name observers agree with the positional ones: exactly the listed columns are reachable by name
	tm := qf.ColumnTypeMap()
	if len(tm) != len(names) {
		return Table{}, fmt.Errorf("ColumnNames lists %q but ColumnTypeMap has %d entries: %v", names, len(tm), tm)
	}
	for ci, name := range names {
		if ty, ok := tm[name]; !ok || ty != typs[ci] || !qf.Contains(name) {
			return Table{}, fmt.Errorf("column %q (%s) of ColumnNames/ColumnTypes: ColumnTypeMap has %v (%v), Contains %v", name, typs[ci], ty, ok, qf.Contains(name))
		}
	}
	t := Table{Cols: make([]Col, len(names))}
	for ci, name := range names {
		c := Col{Name: name, Kind: KindOf(string(typs[ci]))}
		switch c.Kind {
		case KInt:
			v, err := qf.IntView(name)
			if err != nil {
				return Table{}, fmt.Errorf("IntView(%q): %v", name, err)
			}
			if v.Len() != n {
				return Table{}, fmt.Errorf("IntView(%q).Len()=%d, frame Len()=%d", name, v.Len(), n)
			}
			c.I = make([]int, n)
			for r := 0; r < n; r++ {
				c.I[r] = v.ItemAt(r)
			}
		case KFloat:
			v, err := qf.FloatView(name)
			if err != nil {
				return Table{}, fmt.Errorf("FloatView(%q): %v", name, err)
			}
			if v.Len() != n {
				return Table{}, fmt.Errorf("FloatView(%q).Len()=%d, frame Len()=%d", name, v.Len(), n)
			}
			c.F = make([]float64, n)
			for r := 0; r < n; r++ {
				c.F[r] = v.ItemAt(r)
			}
		case KBool:
			v, err := qf.BoolView(name)
			if err != nil {
				return Table{}, fmt.Errorf("BoolView(%q): %v", name, err)
			}
			if v.Len() != n {
				return Table{}, fmt.Errorf("BoolView(%q).Len()=%d, frame Len()=%d", name, v.Len(), n)
			}
			c.B = make([]bool, n)
			for r := 0; r < n; r++ {
				c.B[r] = v.ItemAt(r)
			}
		case KString:
			v, err := qf.StringView(name)
			if err != nil {
				return Table{}, fmt.Errorf("StringView(%q): %v", name, err)
			}
			if v.Len() != n {
				return Table{}, fmt.Errorf("StringView(%q).Len()=%d, frame Len()=%d", name, v.Len(), n)
			}
			c.S = make([]*string, n)
			for r := 0; r < n; r++ {
				c.S[r] = cloneStr(v.ItemAt(r))
			}
		case KEnum:
			v, err := qf.EnumView(name)
			if err != nil {
				return Table{}, fmt.Errorf("EnumView(%q): %v", name, err)
			}
			if v.Len() != n {
				return Table{}, fmt.Errorf("EnumView(%q).Len()=%d, frame Len()=%d", name, v.Len(), n)
			}
			c.S = make([]*string, n)
			for r := 0; r < n; r++ {
				c.S[r] = cloneStr(v.ItemAt(r))
			}
		default:
			// Undefined type (zero row CSV without types): nothing to read.
		}
		t.Cols[ci] = c
	}
	return t, nil
}

func cloneStr(p *string) *string {
	if p == nil {
		return nil
	}
	s := string(append([]byte(nil), *p...))
	return &s
}

// MustObserve is Observe for frames the caller knows to be error free.
func MustObserve(qf qframe.QFrame) Table {
	t, err := Observe(qf)
	if err != nil {
		panic(err)
	}
	return t
}

// WithEnumDecl copies the enum declarations of the columns of src onto the equally
// named enum columns of t (observation cannot recover them).
func WithEnumDecl(t Table, src Table) Table {
	r := Table{Cols: append([]Col(nil), t.Cols...)}
	for i, c := range r.Cols {
		if c.Kind != KEnum {
			continue
		}
		if j := src.Find(c.Name); j >= 0 && src.Cols[j].Kind == KEnum {
			r.Cols[i].Enum = src.Cols[j].Enum
		}
	}
	return r
}

// Safely runs f and converts a panic into an error carrying the panic value.
func Safely(f func()) (err error) {
	defer func() {
		if r := recover(); r != nil {
			err = fmt.Errorf("panic: %v", r)
		}
	}()
	f()
	return nil
}
