package hx

import (
	"fmt"
	"unicode/utf8"
)

// ParseCSV is a small independent RFC 4180 reader: fields separated by delim, rows
// ended by LF (a CR directly before the LF belongs to the row end), fields optionally
// quoted with doubled quotes inside; quoted fields may contain delimiters and line
// breaks. A final line break is optional. It returns one []string per row; a blank
// line yields a row with one empty field.
func ParseCSV(data []byte, delim byte) ([][]string, error) {
	var rows [][]string
	var row []string
	i := 0
	n := len(data)
	for i < n {
		// parse one field
		var field []byte
		if data[i] == '"' {
			i++
			for {
				if i >= n {
					return nil, fmt.Errorf("unterminated quoted field")
				}
				if data[i] == '"' {
					if i+1 < n && data[i+1] == '"' {
						field = append(field, '"')
						i += 2
						continue
					}
					i++
					break
				}
				field = append(field, data[i])
				i++
			}
		} else {
			for i < n && data[i] != delim && data[i] != '\n' {
				field = append(field, data[i])
				i++
			}
			// CR before the row end belongs to the row end
			if (i >= n || data[i] == '\n') && len(field) > 0 && field[len(field)-1] == '\r' {
				field = field[:len(field)-1]
			}
		}
		row = append(row, string(field))
		switch {
		case i >= n:
			rows = append(rows, row)
			row = nil
		case data[i] == delim:
			i++
			if i >= n {
				// trailing delimiter at the very end: one more empty field
				row = append(row, "")
				rows = append(rows, row)
				row = nil
			}
		case data[i] == '\r' && i+1 < n && data[i+1] == '\n':
			i += 2
			rows = append(rows, row)
			row = nil
		case data[i] == '\n':
			i++
			rows = append(rows, row)
			row = nil
		default:
			return nil, fmt.Errorf("garbage after quoted field at offset %d", i)
		}
	}
	return rows, nil
}

// JSONText is what a JSON document can carry of a byte string: every invalid UTF-8
// byte replaced by U+FFFD.
func JSONText(s string) string {
	if utf8.ValidString(s) {
		return s
	}
	var out []byte
	for i := 0; i < len(s); {
		r, w := utf8.DecodeRuneInString(s[i:])
		if r == utf8.RuneError && w == 1 {
			out = append(out, "�"...)
			i++
			continue
		}
		out = append(out, s[i:i+w]...)
		i += w
	}
	return string(out)
}
