package hx

import (
	"fmt"
	"math"
	"strings"

	"github.com/tobgu/qframe"
)

// Order mirrors qframe.Order.
type Order struct {
	Col      string
	Reverse  bool
	NullLast bool
}

func (o Order) String() string {
	return fmt.Sprintf("{%s rev=%v nullLast=%v}", o.Col, o.Reverse, o.NullLast)
}

func OrdersString(os []Order) string {
	p := make([]string, len(os))
	for i, o := range os {
		p[i] = o.String()
	}
	return strings.Join(p, ",")
}

func BuildOrders(os []Order) []qframe.Order {
	r := make([]qframe.Order, len(os))
	for i, o := range os {
		r[i] = qframe.Order{Column: o.Col, Reverse: o.Reverse, NullLast: o.NullLast}
	}
	return r
}

// cmpKey compares rows a and b of column c under the order of the property statement:
// natural order of the type, null smaller than every value (larger with NullLast),
// Reverse inverts the complete order including the null placement. Two nulls tie.
func cmpKey(c Col, o Order, a, b int) int {
	r := 0
	an, bn := c.IsNull(a), c.IsNull(b)
	switch {
	case an && bn:
		r = 0
	case an:
		r = -1
		if o.NullLast {
			r = 1
		}
	case bn:
		r = 1
		if o.NullLast {
			r = -1
		}
	default:
		switch c.Kind {
		case KInt:
			r = cmp3(c.I[a] < c.I[b], c.I[a] > c.I[b])
		case KFloat:
			r = cmp3(c.F[a] < c.F[b], c.F[a] > c.F[b])
		case KBool:
			r = cmp3(!c.B[a] && c.B[b], c.B[a] && !c.B[b])
		case KString:
			r = cmp3(*c.S[a] < *c.S[b], *c.S[a] > *c.S[b])
		case KEnum:
			x, y := enumRank(c.Enum, *c.S[a]), enumRank(c.Enum, *c.S[b])
			r = cmp3(x < y, x > y)
		}
	}
	if o.Reverse {
		r = -r
	}
	return r
}

func cmp3(lt, gt bool) int {
	if lt {
		return -1
	}
	if gt {
		return 1
	}
	return 0
}

// CmpRows is the lexicographic comparison of rows a and b under the orders.
func CmpRows(t Table, orders []Order, a, b int) int {
	for _, o := range orders {
		if r := cmpKey(t.MustCol(o.Col), o, a, b); r != 0 {
			return r
		}
	}
	return 0
}

// SplitMix is a tiny deterministic generator used to fill large tables from one
// rapid-drawn seed (drawing 10^5 cells one by one through rapid would dominate the
// run time). A case stays a pure function of the values drawn from rapid.
type SplitMix uint64

func (s *SplitMix) Next() uint64 {
	*s += 0x9E3779B97F4A7C15
	z := uint64(*s)
	z = (z ^ (z >> 30)) * 0xBF58476D1CE4E5B9
	z = (z ^ (z >> 27)) * 0x94D049BB133111EB
	return z ^ (z >> 31)
}

func (s *SplitMix) Intn(n int) int { return int(s.Next() % uint64(n)) }

// FillCol produces a column of n cells over a domain of about card distinct values
// with nulls (where the kind has them).
func FillCol(rng *SplitMix, name string, k Kind, n, card int, decl []string) Col {
	c := Col{Name: name, Kind: k}
	if card < 1 {
		card = 1
	}
	switch k {
	case KInt:
		c.I = make([]int, n)
		for i := range c.I {
			c.I[i] = rng.Intn(card) - card/2
			if rng.Intn(32) == 0 {
				c.I[i] = []int{1 << 53, 1<<53 + 1, 1 << 60, 1<<60 + 1, math.MaxInt64, math.MaxInt64 - 1, math.MinInt64, math.MinInt64 + 1}[rng.Intn(8)]
			}
		}
	case KFloat:
		c.F = make([]float64, n)
		for i := range c.F {
			v := rng.Intn(card + 2)
			switch v {
			case card:
				c.F[i] = []float64{math.NaN(), math.NaN(), NaNS, NaNNeg}[rng.Intn(4)]
			case card + 1:
				c.F[i] = math.Copysign(0, -1)
			default:
				c.F[i] = float64(v-card/2) / 2
				// now and then a value whose sums round (so that the order of summation shows)
				if rng.Intn(16) == 0 {
					c.F[i] = []float64{0.1, 0.2, 0.3, 1e100, -1e100, 1.0 / 3, 1e16, 1}[rng.Intn(8)]
				}
			}
		}
	case KBool:
		c.B = make([]bool, n)
		for i := range c.B {
			c.B[i] = rng.Intn(2) == 1
		}
	case KString:
		c.S = make([]*string, n)
		for i := range c.S {
			v := rng.Intn(card + 1)
			if v == card {
				continue
			}
			c.S[i] = Sp(fmt.Sprintf("s%d", v))
		}
	case KEnum:
		c.Enum = decl
		c.S = make([]*string, n)
		for i := range c.S {
			v := rng.Intn(len(decl) + 1)
			if v == len(decl) {
				continue
			}
			c.S[i] = Sp(decl[v])
		}
	}
	return c
}
