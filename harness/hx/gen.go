package hx

import (
	"fmt"
	"math"
	"os"
	"strconv"
	"strings"
	"unicode/utf8"

	"pgregory.net/rapid"
)

// Small value domains: ties, duplicates, nulls and collisions are the norm.
var (
	IntDomain = []int{-3, -2, -1, 0, 1, 2, 3, 4, 5, 7, 8, 64, math.MinInt64, math.MaxInt64,
		// neighbours that no float64 can tell apart
		math.MaxInt64 - 1, math.MinInt64 + 1, 1 << 53, 1<<53 + 1, 1 << 60, 1<<60 + 1, -(1 << 60), -(1 << 60) - 1,
		// around the 32-bit limits (signed and unsigned)
		1<<31 - 1, 1 << 31, 1<<31 + 5, 1<<32 - 1, 1 << 32, -(1 << 31), -(1 << 31) - 1, 3000000000}
	NaN2        = math.Float64frombits(0x7ff8000000000001 | 0xdead<<8) // NaN with another payload
	NaNS        = math.Float64frombits(0x7ff0000000000001)             // NaN with the quiet bit clear
	NaNNeg      = math.Float64frombits(0xfff8000000000000)             // NaN with the sign bit set
	FloatDomain = []float64{math.NaN(), NaN2, NaNS, NaNNeg, 0, math.Copysign(0, -1), 0.5, -0.5, 1, -1, 2, 2.5, -2.5, 3,
		math.Inf(1), math.Inf(-1), 5e-324, math.MaxFloat64, 1e21, 1e22, 0.1, 100,
		// exactly representable as float32 but not short in decimal
		float64(float32(0.1)), float64(float32(1) / 3), math.MaxFloat32, float64(float32(16777217.5))}
	StrDomain = []string{"", "a", "b", "ab", "A", "B", "aB", "abc", "ä", "\x00", "a b", "b%", "Ab", "c", "ba", "ıx", "ɐb", "aſ", "a\ufffdb", "a\xffb", "a~b", "A^B", "x{y}|", "null", "\ufeffx", " ",
		// strings of 8 bytes and more that differ at several of their first positions
		"2021-01-15", "2020-12-24", "2021-10-05x", "abcdefgh", "abcdefgi", "bacdefgh", "abcdefg", "hgfedcba",
		// longer than 64 bytes, equal on their first 64
		"kkkkkkkkkkkkkkkkkkkkkkkkkkkkkkkkkkkkkkkkkkkkkkkkkkkkkkkkkkkkkkkk1", "kkkkkkkkkkkkkkkkkkkkkkkkkkkkkkkkkkkkkkkkkkkkkkkkkkkkkkkkkkkkkkkk2"}
)

// RowsSmall is the default row count distribution: size classes rather than uniform.
func RowsSmall() *rapid.Generator[int] {
	return rapid.OneOf(rapid.IntRange(0, 2), rapid.IntRange(3, 12), rapid.IntRange(3, 12), rapid.IntRange(13, 40), rapid.SampledFrom(thresholdRows[:6]))
}

// row counts right at the thresholds of the library (insertion sort <= 12, ninther > 40, String() shows 50 rows)
var thresholdRows = []int{11, 12, 13, 39, 40, 1, 41, 42, 49, 50, 51, 52, 64, 65}

// RowsUpTo returns size classes up to max (max >= 41).
func RowsUpTo(max int) *rapid.Generator[int] {
	return rapid.OneOf(rapid.IntRange(0, 2), rapid.IntRange(3, 12), rapid.IntRange(13, 40), rapid.IntRange(41, max), rapid.SampledFrom(thresholdRows))
}

func GenInt(t *rapid.T) int {
	switch rapid.IntRange(0, 9).Draw(t, "ik") {
	case 0:
		return rapid.SampledFrom(IntDomain).Draw(t, "i")
	case 1:
		return rapid.IntRange(-1000, 1000).Draw(t, "i")
	default:
		return rapid.IntRange(-3, 3).Draw(t, "i")
	}
}

// GenFloat draws from the special-value domain, with wide=true sometimes a raw bit
// pattern.
func GenFloat(t *rapid.T, wide bool) float64 {
	if wide && rapid.IntRange(0, 4).Draw(t, "fw") == 0 {
		if rapid.Bool().Draw(t, "structured") {
			return GenFloatStructured(t)
		}
		f := math.Float64frombits(rapid.Uint64().Draw(t, "fbits"))
		if rapid.IntRange(0, 3).Draw(t, "f32") == 0 && !math.IsNaN(f) && math.Abs(f) < math.MaxFloat32 {
			f = float64(float32(f)) // a float64 that came from a float32
		}
		return f
	}
	if rapid.IntRange(0, 2).Draw(t, "fk") == 0 {
		return rapid.SampledFrom(FloatDomain).Draw(t, "f")
	}
	return rapid.SampledFrom([]float64{math.NaN(), 0, 0.5, 1, -1, 2}).Draw(t, "f")
}

// GenFloatStructured draws a finite float64 from the classes where decimal conversion code has its special
// cases: powers of two and of ten and their neighbours, short decimal literals m*10^k over a wide range of
// k (so that few digits meet many decimals), whole numbers up to and beyond 2^63, subnormals.
func GenFloatStructured(t *rapid.T) float64 {
	var f float64
	switch rapid.IntRange(0, 4).Draw(t, "fclass") {
	case 0: // power of two
		f = math.Ldexp(1, rapid.IntRange(-1074, 1023).Draw(t, "pow2"))
	case 1: // power of ten
		f, _ = strconv.ParseFloat("1e"+strconv.Itoa(rapid.IntRange(-323, 308).Draw(t, "pow10")), 64)
	case 2: // short decimal literal
		digits := rapid.IntRange(1, 17).Draw(t, "digits")
		m := rapid.Int64Range(1, 9).Draw(t, "lead")
		for i := 1; i < digits; i++ {
			m = m*10 + rapid.Int64Range(0, 9).Draw(t, "digit")
		}
		f, _ = strconv.ParseFloat(strconv.FormatInt(m, 10)+"e"+strconv.Itoa(rapid.IntRange(-45, 25).Draw(t, "dexp")), 64)
	case 3: // whole numbers
		f = float64(rapid.Int64().Draw(t, "whole"))
		if rapid.Bool().Draw(t, "bigger") {
			f *= float64(rapid.SampledFrom([]int{2, 3, 10, 1000, 1 << 20}).Draw(t, "scale"))
		}
	default: // subnormals
		f = math.Float64frombits(rapid.Uint64Range(1, 1<<52-1).Draw(t, "subnormal"))
	}
	switch rapid.IntRange(0, 5).Draw(t, "neighbour") {
	case 0:
		f = math.Nextafter(f, math.Inf(1))
	case 1:
		f = math.Nextafter(f, math.Inf(-1))
	}
	if rapid.IntRange(0, 3).Draw(t, "neg") == 0 {
		f = -f
	}
	if math.IsInf(f, 0) || math.IsNaN(f) {
		f = math.MaxFloat64
	}
	return f
}

// GenStr draws a string from the small domain, with wide=true sometimes raw bytes.
func GenStr(t *rapid.T, wide bool) string {
	if wide && rapid.IntRange(0, 4).Draw(t, "sw") == 0 {
		return string(rapid.SliceOfN(rapid.Byte(), 0, 12).Draw(t, "sbytes"))
	}
	if rapid.IntRange(0, 2).Draw(t, "sk") == 0 {
		return rapid.SampledFrom(StrDomain).Draw(t, "s")
	}
	return rapid.SampledFrom(StrDomain[:4]).Draw(t, "s")
}

// GenStrPtr draws a nullable string; null with probability 1/5 unless noNull.
func GenStrPtr(t *rapid.T, wide, noNull bool) *string {
	if !noNull && rapid.IntRange(0, 4).Draw(t, "snull") == 0 {
		return nil
	}
	s := GenStr(t, wide)
	return &s
}

// GenEnumDecl draws a declared enum value list: unique values in random order.
func GenEnumDecl(t *rapid.T, min, max int) []string {
	perm := rapid.Permutation(StrDomain).Draw(t, "enumperm")
	n := rapid.IntRange(min, max).Draw(t, "enumn")
	if n > len(perm) {
		n = len(perm)
	}
	decl := append([]string(nil), perm[:n]...)
	// now and then the values in use come after ~200 unused declared values: their internal codes are then high
	// (enum filters work on a 256-bit set of value codes, sorting on the code order)
	switch hc := rapid.IntRange(0, 9).Draw(t, "highcodes"); {
	case hc == 1 && n < 60:
		// a value list of exactly 63/64/65, 127/128/129 or 191/192/193 entries (the word boundaries of the 256-bit
		// code set), the values in use at its end: the last code of a word is then a value that filters match
		total := rapid.SampledFrom([]int{63, 64, 65, 64, 127, 128, 129, 191, 192, 193}).Draw(t, "enumtotal")
		high := make([]string, 0, total)
		for i := 0; i < total-n; i++ {
			high = append(high, fmt.Sprintf("%s%03d", unusedPrefix, i))
		}
		decl = append(high, decl...)
	case hc == 0:
		fill := rapid.IntRange(185, 248-n).Draw(t, "fillers") // room left for values a check adds itself (C13 declares "")
		high := make([]string, 0, fill+n)
		for i := 0; i < fill; i++ {
			high = append(high, fmt.Sprintf("%s%03d", unusedPrefix, i))
		}
		decl = append(high, decl...)
	}
	return decl
}

const unusedPrefix = "\x02unused-"

// usedValues returns the declared values that cells are drawn from (all but the unused fillers).
func usedValues(decl []string) []string {
	for i, v := range decl {
		if !strings.HasPrefix(v, unusedPrefix) {
			return decl[i:]
		}
	}
	return decl
}

// TableOpt configures GenTable.
type TableOpt struct {
	Kinds        []Kind // kinds to choose from, default all five
	MinCols      int    // default 1
	MaxCols      int    // default 5
	PerKind      int    // when > 0: exactly PerKind columns of every kind in Kinds
	Rows         *rapid.Generator[int]
	NoNull       bool
	Wide         bool // raw byte strings / raw float patterns now and then
	SharedEnum   bool // all enum columns share one declared value list
	AllowDerived bool // enum columns may have derived values
	MinEnum      int  // minimum length of declared enum lists (default 1)
}

var allKinds = []Kind{KInt, KFloat, KBool, KString, KEnum}

func kindPrefix(k Kind) string {
	return map[Kind]string{KInt: "i", KFloat: "f", KBool: "b", KString: "s", KEnum: "e"}[k]
}

// GenTable draws a table. Column names are <kind letter><n>: i1 f1 b1 s1 e1 i2 ...
func GenTable(t *rapid.T, o TableOpt) Table {
	kinds := o.Kinds
	if kinds == nil {
		kinds = allKinds
	}
	rowsGen := o.Rows
	if rowsGen == nil {
		rowsGen = RowsSmall()
	}
	n := rowsGen.Draw(t, "rows")
	var colKinds []Kind
	if o.PerKind > 0 {
		for k := 0; k < o.PerKind; k++ {
			colKinds = append(colKinds, kinds...)
		}
	} else {
		minC, maxC := o.MinCols, o.MaxCols
		if minC == 0 {
			minC = 1
		}
		if maxC == 0 {
			maxC = 5
		}
		nc := rapid.IntRange(minC, maxC).Draw(t, "ncols")
		for k := 0; k < nc; k++ {
			colKinds = append(colKinds, rapid.SampledFrom(kinds).Draw(t, "kind"))
		}
	}
	minEnum := o.MinEnum
	if minEnum == 0 {
		minEnum = 1
	}
	var shared []string
	allDerived := false
	if o.SharedEnum {
		allDerived = o.AllowDerived && rapid.IntRange(0, 3).Draw(t, "allderived") == 0
		if !allDerived {
			shared = GenEnumDecl(t, minEnum, 6)
		}
	}
	count := map[Kind]int{}
	tab := Table{}
	for _, k := range colKinds {
		count[k]++
		c := Col{Name: fmt.Sprintf("%s%d", kindPrefix(k), count[k]), Kind: k}
		switch k {
		case KInt:
			c.I = make([]int, n)
			for r := range c.I {
				c.I[r] = GenInt(t)
			}
		case KFloat:
			c.F = make([]float64, n)
			for r := range c.F {
				f := GenFloat(t, o.Wide)
				if o.NoNull && math.IsNaN(f) {
					f = 0.25
				}
				c.F[r] = f
			}
		case KBool:
			c.B = make([]bool, n)
			for r := range c.B {
				c.B[r] = rapid.Bool().Draw(t, "b")
			}
		case KString:
			c.S = make([]*string, n)
			allEmpty := rapid.IntRange(0, 11).Draw(t, "allemptystrings") == 0 // a column of "" (and nulls) only: no byte of content
			emptyNoNull := allEmpty && rapid.Bool().Draw(t, "allemptynonull")
			for r := range c.S {
				if allEmpty {
					if o.NoNull || emptyNoNull || rapid.IntRange(0, 2).Draw(t, "emptyornull") > 0 {
						c.S[r] = Sp("")
					}
					continue
				}
				c.S[r] = GenStrPtr(t, o.Wide, o.NoNull)
			}
		case KEnum:
			c.S = make([]*string, n)
			derived := allDerived || (o.AllowDerived && !o.SharedEnum && rapid.IntRange(0, 3).Draw(t, "derived") == 0)
			if derived {
				for r := range c.S {
					c.S[r] = GenStrPtr(t, false, o.NoNull)
				}
			} else {
				decl := shared
				if decl == nil {
					decl = GenEnumDecl(t, minEnum, 6)
				}
				c.Enum = decl
				for r := range c.S {
					if !o.NoNull && rapid.IntRange(0, 4).Draw(t, "enull") == 0 {
						continue
					}
					c.S[r] = Sp(rapid.SampledFrom(usedValues(decl)).Draw(t, "ev"))
				}
			}
		}
		// now and then a string or declared enum column holds upper-case forms only (such a column can be the output of the
		// ToUpper built-in: BuildVia and the derivation routes then produce it that way)
		if (c.Kind == KString || (c.Kind == KEnum && c.Enum != nil)) && rapid.IntRange(0, 7).Draw(t, "uppercaseonly") == 0 {
			up := c
			up.S = make([]*string, len(c.S))
			okAll := true
			for i, p := range c.S {
				if p != nil {
					u := strings.ToUpper(*p)
					up.S[i] = &u
					okAll = okAll && utf8.ValidString(*p)
				}
			}
			if c.Enum != nil {
				seen := map[string]bool{}
				up.Enum = make([]string, len(c.Enum))
				for i, v := range c.Enum {
					u := strings.ToUpper(v)
					if seen[u] || !utf8.ValidString(v) {
						okAll = false
					}
					seen[u] = true
					up.Enum[i] = u
				}
			}
			if okAll {
				c = up
			}
		}
		tab.Cols = append(tab.Cols, c)
	}
	return tab
}

// BlockSizes are row counts around the sizes at which code tends to switch to blocked, unrolled or parallel
// processing (powers of two and their neighbours, and counts that leave a remainder under 4, 8 and 1024).
var BlockSizes = []int{1023, 1024, 1025, 2047, 2048, 2049, 3001, 4097, 8191, 16383, 16384, 16385, 16391, 20003, 32769, 65537}

// GenBlockTable draws a table with one of the BlockSizes as row count, filled from one drawn seed: two int, two
// float, a bool, a string and a declared enum column (names as GenTable gives them).
func GenBlockTable(t *rapid.T) Table {
	n := rapid.SampledFrom(BlockSizes[:8]).Draw(t, "blockrows")
	if rapid.IntRange(0, 4).Draw(t, "bigblock") == 0 {
		big := BlockSizes[8:13] // the costly ones less often; the largest only in the thorough tier
		if os.Getenv("VERIF_TIER") == "thorough" {
			big = BlockSizes[8:]
		}
		n = rapid.SampledFrom(big).Draw(t, "bigblockrows")
	}
	seed := SplitMix(rapid.Uint64().Draw(t, "blockfill"))
	card := rapid.SampledFrom([]int{2, 5, 100, 100000}).Draw(t, "blockcard")
	return Table{Cols: []Col{
		FillCol(&seed, "i1", KInt, n, card, nil),
		FillCol(&seed, "f1", KFloat, n, card, nil),
		FillCol(&seed, "b1", KBool, n, card, nil),
		FillCol(&seed, "s1", KString, n, card, nil),
		FillCol(&seed, "e1", KEnum, n, card, []string{"c", "a", "b", "", "B"}),
		FillCol(&seed, "i2", KInt, n, 7, nil),
		FillCol(&seed, "f2", KFloat, n, 7, nil),
	}}
}

// Rarely is true in about one of n cases. rapid's integer generators favour small values on purpose, so
// "IntRange(0, n-1) == 0" is true far more often than 1/n; the drawn word is mixed first.
func Rarely(t *rapid.T, n int, label string) bool {
	s := SplitMix(rapid.Uint64().Draw(t, label))
	return s.Next()%uint64(n) == 0
}
