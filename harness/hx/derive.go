package hx

import (
	"fmt"
	"sort"
	"strings"

	"github.com/tobgu/qframe"
	"github.com/tobgu/qframe/config/groupby"
	"pgregory.net/rapid"
)

// Helper column names used while deriving frames. Table generators never use them.
const (
	HelperRank = "zzr" // unique int per physical row: a random permutation of 0..n-1
	HelperMask = "zzm" // small int 0..3 per physical row
	HelperPos  = "zzp" // the number of the physical row
)

// Derived is a real frame reached through a chain of index- and column-changing
// operations, together with what the chain must have produced according to the model.
type Derived struct {
	QF   qframe.QFrame // the derived frame, helper columns removed
	Base Table         // the table the chain started from (physical rows)
	Sel  []int         // physical rows of Base expected in QF, in logical order
	Exp  Table         // Base.Rows(Sel): expected content of QF
	// Siblings are the intermediate frames of the chain (helper columns included).
	// They stay alive and share index and column storage with QF.
	Siblings []qframe.QFrame
	Route    []string
}

// NonIdentity reports if the logical order differs from 0..n-1 of the base table.
func (d Derived) NonIdentity() bool {
	if len(d.Sel) != d.Base.N() {
		return true
	}
	for i, s := range d.Sel {
		if i != s {
			return true
		}
	}
	return false
}

func (d Derived) String() string {
	return fmt.Sprintf("base %sroute %s\nsel %v\n", d.Base.String(), strings.Join(d.Route, " > "), d.Sel)
}

// GenDerived builds a real frame from base through a drawn chain of Filter, Sort,
// Slice, Distinct, GroupBy/QFrames and Copy steps over helper columns, so that the
// result has an arbitrary subset+permutation index, shares storage with live
// siblings and may have spare index capacity. maxSteps 0 yields the plain frame.
// The frame the chain starts from is built through a drawn origin (see BuildVia).
// It fails the test (t.Fatalf) only if the chain itself reports Err, which is
// attributed to the caller's property by convention (C02/C03/C08 own these steps).
func GenDerived(t *rapid.T, base Table, maxSteps int) Derived {
	n := base.N()
	var rank []int
	mask := make([]int, n)
	if n <= 600 {
		rank = rapid.Permutation(Iota(n)).Draw(t, "rank")
		if n >= 3 && rapid.IntRange(0, 7).Draw(t, "endsfixed") == 0 {
			// a permutation that leaves the first and the last row where they are: an index that starts with row 0,
			// ends with row n-1 and holds n rows is still not the identity
			for i, v := range rank {
				switch v {
				case 0:
					rank[i], rank[0] = rank[0], 0
				}
			}
			for i, v := range rank {
				if v == n-1 {
					rank[i], rank[n-1] = rank[n-1], n-1
				}
			}
		}
		for i := range mask {
			mask[i] = rapid.IntRange(0, 3).Draw(t, "mask")
		}
	} else {
		// big tables: the helper columns come from one drawn seed (a draw per row would dominate the run time)
		rng := SplitMix(rapid.Uint64().Draw(t, "helperseed"))
		rank = Iota(n)
		for i := n - 1; i > 0; i-- {
			j := rng.Intn(i + 1)
			rank[i], rank[j] = rank[j], rank[i]
		}
		for i := range mask {
			mask[i] = rng.Intn(4)
		}
	}
	full := Table{Cols: append(append([]Col(nil), base.Cols...),
		Col{Name: HelperRank, Kind: KInt, I: rank},
		Col{Name: HelperMask, Kind: KInt, I: mask},
		Col{Name: HelperPos, Kind: KInt, I: Iota(n)})}
	qf, origin := BuildVia(t, full)
	if qf.Err != nil {
		t.Fatalf("building base frame failed: %v\n%s", qf.Err, full.String())
	}
	d := Derived{Base: base, Sel: Iota(n), Route: []string{origin}}
	steps := 0
	if maxSteps > 0 {
		steps = rapid.IntRange(0, maxSteps).Draw(t, "steps")
	}
	sortSel := func(reverse bool) {
		// ranks are unique so the order is total
		sel := append([]int(nil), d.Sel...)
		sort.Slice(sel, func(i, j int) bool {
			if reverse {
				return rank[sel[i]] > rank[sel[j]]
			}
			return rank[sel[i]] < rank[sel[j]]
		})
		d.Sel = sel
	}
	for s := 0; s < steps; s++ {
		d.Siblings = append(d.Siblings, qf)
		switch rapid.IntRange(0, 8).Draw(t, "step") {
		case 7: // a data column rebuilt by an identity function through Apply (same cells, storage assembled by Apply)
			if len(base.Cols) == 0 {
				continue
			}
			c := base.Cols[rapid.IntRange(0, len(base.Cols)-1).Draw(t, "rebuildcol")]
			var fn interface{}
			switch c.Kind {
			case KInt:
				fn = func(x int) int { return x }
			case KFloat:
				fn = func(x float64) float64 { return x }
			case KBool:
				fn = func(x bool) bool { return x }
			case KString:
				fn = func(x *string) *string { return x }
				if Lowerable(c) && rapid.Bool().Draw(t, "rebuildbytoupper") {
					// the column is written anew by the ToUpper built-in, on the frame as it is now (sorted, filtered): its
					// storage is then laid out in the order of the index
					tmp := "zz-lower-tmp"
					qf = qf.Apply(qframe.Instruction{Fn: func(x *string) *string {
						if x == nil {
							return nil
						}
						l := strings.ToLower(*x)
						return &l
					}, DstCol: tmp, SrcCol1: c.Name}, qframe.Instruction{Fn: "ToUpper", DstCol: c.Name, SrcCol1: tmp}).Drop(tmp)
					d.Route = append(d.Route, "rebuild-by-ToUpper("+c.Name+")")
					continue
				}
			default:
				continue // an enum column would come back as a string column
			}
			// (rows the index no longer holds get the zero value in the rebuilt column; they never come back)
			qf = qf.Apply(qframe.Instruction{Fn: fn, DstCol: c.Name, SrcCol1: c.Name})
			d.Route = append(d.Route, "rebuild("+c.Name+")")
		case 8: // a data column moved to the end by Copy/Drop (the final Select restores the order)
			if len(base.Cols) == 0 {
				continue
			}
			c := base.Cols[rapid.IntRange(0, len(base.Cols)-1).Draw(t, "movecol")]
			qf = qf.Copy("zzmove", c.Name).Drop(c.Name).Copy(c.Name, "zzmove").Drop("zzmove")
			d.Route = append(d.Route, "move("+c.Name+")")
		case 0, 1: // Sort on the unique rank
			rev := rapid.Bool().Draw(t, "rev")
			if s > 0 && rapid.IntRange(0, 3).Draw(t, "backtostorageorder") == 0 {
				// back into storage order: the rows the frame still holds, ascending by their physical number
				qf = qf.Sort(qframe.Order{Column: HelperPos})
				sort.Ints(d.Sel)
				d.Route = append(d.Route, "sort(storage order)")
				continue
			}
			qf = qf.Sort(qframe.Order{Column: HelperRank, Reverse: rev})
			sortSel(rev)
			d.Route = append(d.Route, fmt.Sprintf("sort(rev=%v)", rev))
		case 2: // Filter on the mask
			k := rapid.IntRange(0, 3).Draw(t, "k")
			qf = qf.Filter(qframe.Filter{Column: HelperMask, Comparator: "!=", Arg: k})
			var sel []int
			for _, p := range d.Sel {
				if mask[p] != k {
					sel = append(sel, p)
				}
			}
			d.Sel = sel
			d.Route = append(d.Route, fmt.Sprintf("filter(mask!=%d)", k))
		case 3: // Slice, leaves spare capacity behind the index
			a := rapid.IntRange(0, len(d.Sel)).Draw(t, "a")
			b := rapid.IntRange(a, len(d.Sel)).Draw(t, "b")
			qf = qf.Slice(a, b)
			d.Sel = append([]int(nil), d.Sel[a:b]...)
			d.Route = append(d.Route, fmt.Sprintf("slice(%d,%d)", a, b))
		case 4: // Distinct on the unique rank keeps every row, order unspecified => sort
			qf = qf.Distinct(groupby.Columns(HelperRank)).Sort(qframe.Order{Column: HelperRank})
			sortSel(false)
			d.Route = append(d.Route, "distinct+sort")
		case 5: // one group of GroupBy(mask), order inside unspecified => sort
			if len(d.Sel) == 0 {
				continue
			}
			frames, err := qf.GroupBy(groupby.Columns(HelperMask)).QFrames()
			if err != nil || len(frames) == 0 {
				t.Fatalf("GroupBy(mask).QFrames while deriving: %v (%d frames)", err, len(frames))
			}
			g := frames[rapid.IntRange(0, len(frames)-1).Draw(t, "g")]
			v, err := g.IntView(HelperMask)
			if err != nil || v.Len() == 0 {
				t.Fatalf("group frame unusable while deriving: %v", err)
			}
			k := v.ItemAt(0)
			qf = g.Sort(qframe.Order{Column: HelperRank})
			var sel []int
			for _, p := range d.Sel {
				if mask[p] == k {
					sel = append(sel, p)
				}
			}
			d.Sel = sel
			sortSel(false)
			d.Route = append(d.Route, fmt.Sprintf("group(mask=%d)+sort", k))
		case 6: // column-changing step: a copy sharing storage, dropped again by the final Select
			qf = qf.Copy("zzc", HelperRank)
			d.Route = append(d.Route, "copy")
		}
		if qf.Err != nil {
			t.Fatalf("deriving frame failed at %v: %v", d.Route, qf.Err)
		}
	}
	d.Siblings = append(d.Siblings, qf)
	if len(base.Cols) > 0 {
		qf = qf.Select(base.Names()...)
	}
	if qf.Err != nil {
		t.Fatalf("final Select while deriving failed: %v", qf.Err)
	}
	d.QF = qf
	d.Exp = base.Rows(d.Sel)
	return d
}

// Input returns the observed content of the derived frame, carrying the enum
// declarations of the base table. Properties that do not own the derivation steps
// take this as their precondition (attribution rule).
func (d Derived) Input(t *rapid.T) Table {
	obs, err := Observe(d.QF)
	if err != nil {
		t.Fatalf("cannot observe derived frame: %v", err)
	}
	return WithEnumDecl(obs, d.Base)
}
