package hx

import (
	"bytes"
	"encoding/json"
	"fmt"
	"io"
	"math"
	"strconv"
	"unicode/utf8"
)

// CheckJSONDenotes verifies that data is a syntactically valid JSON array with one
// object per row of tab, in row order, keys in column order, whose decoded values equal
// the cells: ints textually exact, floats as a number that parses back to the identical
// float64, NaN and null strings as null, strings equal to the cell with every invalid
// UTF-8 byte replaced by U+FFFD. It returns "" when everything agrees.
func CheckJSONDenotes(data []byte, tab Table) string {
	if !utf8.Valid(data) {
		// invalid bytes of cells and names are to be escaped (encoding/json itself would read them leniently)
		return fmt.Sprintf("ToJSON output is not valid UTF-8: %q", clip(string(data), 400))
	}
	if !json.Valid(data) {
		return fmt.Sprintf("ToJSON output is not valid JSON: %q", clip(string(data), 400))
	}
	dec := json.NewDecoder(bytes.NewReader(data))
	dec.UseNumber()
	tok, err := dec.Token()
	if err != nil || tok != json.Delim('[') {
		return fmt.Sprintf("ToJSON output does not start an array: %v %v", tok, err)
	}
	for r := 0; r < tab.N() || (len(tab.Cols) == 0 && dec.More()); r++ {
		tok, err = dec.Token()
		if err != nil || tok != json.Delim('{') {
			return fmt.Sprintf("record %d: expected an object, got %v %v (frame has %d rows)", r, tok, err, tab.N())
		}
		for ci, c := range tab.Cols {
			tok, err = dec.Token()
			key, ok := tok.(string)
			if err != nil || !ok {
				return fmt.Sprintf("record %d: expected key %d %q, got %v %v", r, ci, c.Name, tok, err)
			}
			if key != JSONText(c.Name) {
				return fmt.Sprintf("record %d: key %d is %q, want %q", r, ci, key, JSONText(c.Name))
			}
			tok, err = dec.Token()
			if err != nil {
				return fmt.Sprintf("record %d key %q: %v", r, key, err)
			}
			if msg := jsonCellMatches(c, r, tok); msg != "" {
				return fmt.Sprintf("record %d key %q: %s", r, key, msg)
			}
		}
		tok, err = dec.Token()
		if err != nil || tok != json.Delim('}') {
			return fmt.Sprintf("record %d: expected end of object after %d keys, got %v %v", r, len(tab.Cols), tok, err)
		}
		if len(tab.Cols) == 0 {
			break
		}
	}
	tok, err = dec.Token()
	if err != nil || tok != json.Delim(']') {
		return fmt.Sprintf("expected end of array after %d records, got %v %v", tab.N(), tok, err)
	}
	if _, err = dec.Token(); err != io.EOF {
		return fmt.Sprintf("trailing data after the array: %v", err)
	}
	return ""
}

func jsonCellMatches(c Col, r int, tok json.Token) string {
	switch c.Kind {
	case KInt:
		n, ok := tok.(json.Number)
		if !ok || string(n) != strconv.Itoa(c.I[r]) {
			return fmt.Sprintf("value %v (%T), frame holds int %d", tok, tok, c.I[r])
		}
	case KFloat:
		if math.IsNaN(c.F[r]) {
			if tok != nil {
				return fmt.Sprintf("value %v, frame holds NaN (want null)", tok)
			}
			return ""
		}
		n, ok := tok.(json.Number)
		if !ok {
			return fmt.Sprintf("value %v (%T), frame holds float %v", tok, tok, c.F[r])
		}
		f, err := strconv.ParseFloat(string(n), 64)
		if err != nil || math.Float64bits(f) != math.Float64bits(c.F[r]) {
			return fmt.Sprintf("number %s parses to %v (%x), frame holds %v (%x)", n, f, math.Float64bits(f), c.F[r], math.Float64bits(c.F[r]))
		}
	case KBool:
		b, ok := tok.(bool)
		if !ok || b != c.B[r] {
			return fmt.Sprintf("value %v (%T), frame holds bool %v", tok, tok, c.B[r])
		}
	default:
		if c.S[r] == nil {
			if tok != nil {
				return fmt.Sprintf("value %v, frame holds null", tok)
			}
			return ""
		}
		s, ok := tok.(string)
		if !ok || s != JSONText(*c.S[r]) {
			return fmt.Sprintf("value %q (%T), frame holds %q", tok, tok, *c.S[r])
		}
	}
	return ""
}

func clip(s string, n int) string {
	if len(s) > n {
		return s[:n] + "…"
	}
	return s
}
