package hx

import (
	"math"
	"strconv"
	"strings"
)

// KeyClass returns the class key of row r over the key columns under the key equality
// of GroupBy/Distinct: ints, bools, strings by ==, floats by == (0.0 equals -0.0),
// enum by string value; null/NaN equal each other only when groupNull is set,
// otherwise a row with a null key cell is alone (unique=true).
func KeyClass(t Table, keyCols []string, r int, groupNull bool) (key string, unique bool) {
	var sb strings.Builder
	for _, name := range keyCols {
		c := t.MustCol(name)
		if c.IsNull(r) {
			if !groupNull {
				return "", true
			}
			sb.WriteString("N|")
			continue
		}
		switch c.Kind {
		case KInt:
			sb.WriteString(strconv.Itoa(c.I[r]))
		case KFloat:
			f := c.F[r]
			if f == 0 {
				f = 0 // collapses -0.0
			}
			sb.WriteString(strconv.FormatUint(math.Float64bits(f), 16))
		case KBool:
			sb.WriteString(strconv.FormatBool(c.B[r]))
		case KString, KEnum:
			sb.WriteString(strconv.Quote(*c.S[r]))
		}
		sb.WriteByte('|')
	}
	return sb.String(), false
}

// Partition returns the groups (row lists in frame order) of the model, in order of
// first appearance.
func Partition(t Table, keyCols []string, groupNull bool) [][]int {
	var groups [][]int
	byKey := map[string]int{}
	for r := 0; r < t.N(); r++ {
		k, unique := KeyClass(t, keyCols, r, groupNull)
		if unique {
			groups = append(groups, []int{r})
			continue
		}
		if g, ok := byKey[k]; ok {
			groups[g] = append(groups[g], r)
		} else {
			byKey[k] = len(groups)
			groups = append(groups, []int{r})
		}
	}
	return groups
}

// KeyCellEq compares two key cells under key equality (used for the key columns of
// an Aggregate result, where any representative of the class may be shown).
func KeyCellEq(c Col, r int, d Col, q int) bool {
	if c.IsNull(r) || d.IsNull(q) {
		return c.IsNull(r) && d.IsNull(q)
	}
	if c.Kind == KFloat {
		return c.F[r] == d.F[q]
	}
	return CellEq(c, r, d, q)
}
