package hx

// A replica of the sorting algorithm used by qframe (the pre-pdqsort quicksort of the
// Go standard library: insertion sort <= 12, median of three, ninther > 40, heapsort
// fallback). The harness uses it for two things only:
//   - classifying which regime of the algorithm a generated case reaches (evidence), and
//   - running McIlroy's "killer adversary" against it to construct inputs that force
//     the heapsort fallback in any deterministic implementation of the same algorithm.
// It never serves as an oracle.

type SortRegimes struct {
	Insertion, MedianOf3, Ninther, Protect, DupsProbe, Heapsort int
}

type lessSwap interface {
	Len() int
	Less(i, j int) bool
	Swap(i, j int)
}

type replica struct {
	d lessSwap
	r *SortRegimes
	// skipHeap makes heapSort a no-op (used by the adversary: the elements of the range
	// handed to heapsort stay undecided and get random values afterwards)
	skipHeap bool
}

func ReplicaSort(d lessSwap) SortRegimes {
	var r SortRegimes
	n := d.Len()
	depth := 0
	for i := n; i > 0; i >>= 1 {
		depth++
	}
	replica{d: d, r: &r}.quickSort(0, n, depth*2)
	return r
}

func replicaSortSkipHeap(d lessSwap) SortRegimes {
	var r SortRegimes
	n := d.Len()
	depth := 0
	for i := n; i > 0; i >>= 1 {
		depth++
	}
	replica{d: d, r: &r, skipHeap: true}.quickSort(0, n, depth*2)
	return r
}

func (s replica) insertionSort(a, b int) {
	s.r.Insertion++
	for i := a + 1; i < b; i++ {
		for j := i; j > a && s.d.Less(j, j-1); j-- {
			s.d.Swap(j, j-1)
		}
	}
}

func (s replica) siftDown(lo, hi, first int) {
	root := lo
	for {
		child := 2*root + 1
		if child >= hi {
			break
		}
		if child+1 < hi && s.d.Less(first+child, first+child+1) {
			child++
		}
		if !s.d.Less(first+root, first+child) {
			return
		}
		s.d.Swap(first+root, first+child)
		root = child
	}
}

func (s replica) heapSort(a, b int) {
	s.r.Heapsort++
	if s.skipHeap {
		return
	}
	first, lo, hi := a, 0, b-a
	for i := (hi - 1) / 2; i >= 0; i-- {
		s.siftDown(i, hi, first)
	}
	for i := hi - 1; i >= 0; i-- {
		s.d.Swap(first, first+i)
		s.siftDown(lo, i, first)
	}
}

func (s replica) medianOfThree(m1, m0, m2 int) {
	if s.d.Less(m1, m0) {
		s.d.Swap(m1, m0)
	}
	if s.d.Less(m2, m1) {
		s.d.Swap(m2, m1)
		if s.d.Less(m1, m0) {
			s.d.Swap(m1, m0)
		}
	}
}

func (s replica) doPivot(lo, hi int) (midlo, midhi int) {
	m := int(uint(lo+hi) >> 1)
	if hi-lo > 40 {
		s.r.Ninther++
		q := (hi - lo) / 8
		s.medianOfThree(lo, lo+q, lo+2*q)
		s.medianOfThree(m, m-q, m+q)
		s.medianOfThree(hi-1, hi-1-q, hi-1-2*q)
	} else {
		s.r.MedianOf3++
	}
	s.medianOfThree(lo, m, hi-1)
	pivot := lo
	a, c := lo+1, hi-1
	for ; a < c && s.d.Less(a, pivot); a++ {
	}
	b := a
	for {
		for ; b < c && !s.d.Less(pivot, b); b++ {
		}
		for ; b < c && s.d.Less(pivot, c-1); c-- {
		}
		if b >= c {
			break
		}
		s.d.Swap(b, c-1)
		b++
		c--
	}
	protect := hi-c < 5
	if !protect && hi-c < (hi-lo)/4 {
		s.r.DupsProbe++
		dups := 0
		if !s.d.Less(pivot, hi-1) {
			s.d.Swap(c, hi-1)
			c++
			dups++
		}
		if !s.d.Less(b-1, pivot) {
			b--
			dups++
		}
		if !s.d.Less(m, pivot) {
			s.d.Swap(m, b-1)
			b--
			dups++
		}
		protect = dups > 1
	}
	if protect {
		s.r.Protect++
		for {
			for ; a < b && !s.d.Less(b-1, pivot); b-- {
			}
			for ; a < b && s.d.Less(a, pivot); a++ {
			}
			if a >= b {
				break
			}
			s.d.Swap(a, b-1)
			a++
			b--
		}
	}
	s.d.Swap(pivot, b-1)
	return b - 1, c
}

func (s replica) quickSort(a, b, maxDepth int) {
	for b-a > 12 {
		if maxDepth == 0 {
			s.heapSort(a, b)
			return
		}
		maxDepth--
		mlo, mhi := s.doPivot(a, b)
		if mlo-a < b-mhi {
			s.quickSort(a, mlo, maxDepth)
			a = mhi
		} else {
			s.quickSort(mhi, b, maxDepth)
			b = mlo
		}
	}
	if b-a > 1 {
		for i := a + 6; i < b; i++ {
			if s.d.Less(i, i-6) {
				s.d.Swap(i, i-6)
			}
		}
		s.insertionSort(a, b)
	}
}

// adversary implements McIlroy's "A Killer Adversary for Quicksort": values are
// decided lazily ("gas") so that every pivot ends up among the smallest elements.
type adversary struct {
	ptr       []int // position -> item
	val       []int // item -> value (gas until solidified)
	gas       int
	nsolid    int
	candidate int // item
}

func (a *adversary) Len() int { return len(a.ptr) }
func (a *adversary) Swap(i, j int) {
	a.ptr[i], a.ptr[j] = a.ptr[j], a.ptr[i]
}
func (a *adversary) Less(i, j int) bool {
	x, y := a.ptr[i], a.ptr[j]
	if a.val[x] == a.gas && a.val[y] == a.gas {
		if x == a.candidate {
			a.val[x] = a.nsolid
		} else {
			a.val[y] = a.nsolid
		}
		a.nsolid++
	}
	if a.val[x] == a.gas {
		a.candidate = x
	} else if a.val[y] == a.gas {
		a.candidate = y
	}
	return a.val[x] < a.val[y]
}

// KillerSequence returns n ints (a permutation-like sequence with possible equal
// gas values) on which the replicated quicksort degenerates, and the regimes the
// replica went through while the adversary answered its comparisons.
func KillerSequence(n int) ([]int, SortRegimes) {
	a := &adversary{ptr: Iota(n), val: make([]int, n), gas: n - 1}
	for i := range a.val {
		a.val[i] = a.gas
	}
	r := ReplicaSort(a)
	return a.val, r
}

// KillerSequenceOpen runs the adversary through the quicksort phase only: the elements
// that the algorithm hands to its heapsort fallback stay undecided ("gas") and are then
// given distinct values in an order drawn from rng. Every such assignment is consistent
// with the answers the adversary gave (gas is larger than every decided value), so a
// deterministic implementation of the same algorithm takes the same path and then has to
// heapsort a range of distinct, shuffled keys.
func KillerSequenceOpen(n int, rng *SplitMix) ([]int, SortRegimes) {
	a := &adversary{ptr: Iota(n), val: make([]int, n), gas: 1 << 40}
	for i := range a.val {
		a.val[i] = a.gas
	}
	r := replicaSortSkipHeap(a)
	var open []int
	for item, v := range a.val {
		if v == a.gas {
			open = append(open, item)
		}
	}
	for i := len(open) - 1; i > 0; i-- {
		j := rng.Intn(i + 1)
		open[i], open[j] = open[j], open[i]
	}
	for k, item := range open {
		a.val[item] = a.nsolid + k
	}
	return a.val, r
}

// IntsLess adapts a value slice addressed through an index to lessSwap (ascending).
type IndexedLess struct {
	Index []int
	LessF func(p, q int) bool // compares physical rows
}

func (x IndexedLess) Len() int           { return len(x.Index) }
func (x IndexedLess) Less(i, j int) bool { return x.LessF(x.Index[i], x.Index[j]) }
func (x IndexedLess) Swap(i, j int)      { x.Index[i], x.Index[j] = x.Index[j], x.Index[i] }
