package hx

import (
	"fmt"
	"math"

	"github.com/tobgu/qframe"
	"github.com/tobgu/qframe/config/groupby"
	"pgregory.net/rapid"
)

// History is what GenHistory did to a frame, with hints for the generator of the operation under test: a frame may
// remember facts about its own columns (this column holds no null, these rows are ordered on that column, this column
// numbers the rows, all rows share that key) and an operation that trusts such a memory goes wrong exactly when the
// operation under test names the same column after the fact has stopped being true - so the next generator is told
// which column that would be.
type History struct {
	Route []string
	Focus string   // the data column the steps were about ("" = none)
	Keys  []string // the columns of the last ordering/grouping/de-duplication step
}

func (h History) String() string {
	return fmt.Sprintf("history %v focus %q keys %q", h.Route, h.Focus, h.Keys)
}

// histNullifyF etc. are the functions a history step overwrites a column with: they bring back nulls and repeats.
func histNullifyF(x float64) float64 {
	if x != x || math.IsInf(x, 0) || math.Mod(math.Abs(math.Trunc(x)), 2) == 0 {
		return math.NaN()
	}
	return math.Trunc(x / 4)
}
func histFoldI(x int) int { return ((x % 3) + 3) % 3 }
func histNullifyS(x *string) *string {
	if x == nil || len(*x)%2 == 0 {
		return nil
	}
	return x // (no string the table did not hold: some checks restrict what cells may contain)
}
func histConstB(x bool) bool { return true }

// GenHistory gives qf an earlier life that touched its data columns: a drawn sequence of steps that establish a fact
// about a column (filtered on isnotnull / on Not(isnull), ordered on it, grouped or de-duplicated on it, numbered by
// WithRowNums, aggregated by it) and steps that overwrite that column afterwards with other content (a Copy of another
// column of the same type, an Apply that brings back nulls and repeated values). The steps are not modelled: what
// the frame holds afterwards is observed (attribution rule: the steps belong to the properties of their own
// operations), in carries the enum declarations. protect names columns that are never overwritten or dropped.
// allowShape permits an Aggregate step (the frame then has the key columns and one aggregated column per int/float column).
func GenHistory(t *rapid.T, qf qframe.QFrame, in Table, allowShape bool, protect ...string) (qframe.QFrame, Table, History) {
	h := History{}
	prot := map[string]bool{}
	for _, p := range protect {
		prot[p] = true
	}
	var free []Col
	for _, c := range in.Cols {
		if !prot[c.Name] {
			free = append(free, c)
		}
	}
	if len(free) == 0 || in.N() == 0 {
		return qf, in, h
	}
	focus := free[rapid.IntRange(0, len(free)-1).Draw(t, "histfocus")]
	h.Focus = focus.Name
	kindOf := map[string]Kind{}
	decl := map[string][]string{}
	for _, c := range in.Cols {
		kindOf[c.Name] = c.Kind
		decl[c.Name] = c.Enum
	}
	other := func() string { // another free column (or the focus again)
		return free[rapid.IntRange(0, len(free)-1).Draw(t, "histother")].Name
	}
	overwrite := func(name string) {
		k := kindOf[name]
		// a Copy of another column of the same type (enums: the same declaration, so that the declaration stays what in says)
		var same []string
		for _, c := range in.Cols {
			if ck, present := kindOf[c.Name]; present && c.Name != name && ck == k && (k != KEnum || sameDecl(decl[c.Name], decl[name])) {
				same = append(same, c.Name)
			}
		}
		if len(same) > 0 && (k == KEnum || rapid.Bool().Draw(t, "histcopy")) {
			src := same[rapid.IntRange(0, len(same)-1).Draw(t, "histsrc")]
			qf = qf.Copy(name, src)
			h.Route = append(h.Route, fmt.Sprintf("copy(%s<-%s)", name, src))
			return
		}
		var fn interface{}
		switch k {
		case KInt:
			fn = histFoldI
		case KFloat:
			fn = histNullifyF
		case KString:
			fn = histNullifyS
		case KBool:
			fn = histConstB
		default:
			return
		}
		qf = qf.Apply(qframe.Instruction{Fn: fn, DstCol: name, SrcCol1: name})
		h.Route = append(h.Route, fmt.Sprintf("overwrite(%s)", name))
	}
	steps := rapid.IntRange(1, 4).Draw(t, "histsteps")
	for s := 0; s < steps && qf.Err == nil && qf.Len() > 0; s++ {
		f := h.Focus
		kind := rapid.IntRange(0, 7).Draw(t, "histstep")
		if kind == 7 && !allowShape || kind == 0 && kindOf[f] == KBool { // (bool columns have no null test)
			kind = 1
		}
		switch kind {
		case 0: // the column holds no null in these rows ...
			if rapid.Bool().Draw(t, "histinv") {
				qf = qf.Filter(qframe.Filter{Column: f, Comparator: "isnull", Inverse: true})
				h.Route = append(h.Route, "filter(!isnull "+f+")")
			} else {
				qf = qf.Filter(qframe.Filter{Column: f, Comparator: "isnotnull"})
				h.Route = append(h.Route, "filter(isnotnull "+f+")")
			}
		case 1, 2: // ... until it is overwritten
			overwrite(f)
		case 3: // ordered on the column (and perhaps a second one)
			os := []qframe.Order{{Column: f, Reverse: rapid.Bool().Draw(t, "histrev"), NullLast: rapid.Bool().Draw(t, "histnl")}}
			h.Keys = []string{f}
			if rapid.Bool().Draw(t, "histsort2") {
				if o := other(); o != f {
					os = append(os, qframe.Order{Column: o, Reverse: rapid.Bool().Draw(t, "histrev2")})
					h.Keys = append(h.Keys, o)
				}
			}
			qf = qf.Sort(os...)
			h.Route = append(h.Route, fmt.Sprintf("sort%v", os))
		case 4: // numbered rows; the numbering column becomes the focus (and is soon overwritten with repeats)
			if _, taken := kindOf["zzn"]; taken {
				continue
			}
			qf = qf.WithRowNums("zzn")
			kindOf["zzn"] = KInt
			free = append(free, Col{Name: "zzn", Kind: KInt})
			in.Cols = append(append([]Col(nil), in.Cols...), Col{Name: "zzn", Kind: KInt})
			h.Focus = "zzn"
			h.Route = append(h.Route, "rownums")
		case 5: // one group of a grouping on the column: the group of the null keys when there is one (half of the time)
			keys := []string{f}
			if rapid.IntRange(0, 2).Draw(t, "histgroup2") == 0 {
				if o := other(); o != f {
					keys = append(keys, o)
				}
			}
			null := rapid.Bool().Draw(t, "histgroupnull")
			frames, err := qf.GroupBy(groupby.Columns(keys...), groupby.Null(null)).QFrames()
			if err != nil || len(frames) == 0 {
				continue
			}
			pick := rapid.IntRange(0, len(frames)-1).Draw(t, "histgroup")
			if rapid.Bool().Draw(t, "histnullgroup") {
				for i, g := range frames {
					if g.Len() >= 2 && g.Filter(qframe.Filter{Column: f, Comparator: "isnull"}).Len() == g.Len() {
						pick = i
						break
					}
				}
			}
			qf = frames[pick]
			h.Keys = keys
			h.Route = append(h.Route, fmt.Sprintf("group(%q,null=%v)[%d]", keys, null, pick))
		case 6: // de-duplicated on the column
			null := rapid.Bool().Draw(t, "histdistinctnull")
			qf = qf.Distinct(groupby.Columns(f), groupby.Null(null))
			h.Keys = []string{f}
			h.Route = append(h.Route, fmt.Sprintf("distinct(%s,null=%v)", f, null))
		case 7: // aggregated by the column: one row per key (null keys each their own row unless grouped)
			null := rapid.Bool().Draw(t, "histaggnull")
			var aggs []qframe.Aggregation
			for _, c := range in.Cols {
				if k, ok := kindOf[c.Name]; ok && c.Name != f && (k == KInt || k == KFloat) {
					aggs = append(aggs, qframe.Aggregation{Fn: rapid.SampledFrom([]string{"min", "max"}).Draw(t, "histaggfn"), Column: c.Name})
				}
			}
			qf = qf.GroupBy(groupby.Columns(f), groupby.Null(null)).Aggregate(aggs...)
			for _, c := range in.Cols {
				if k := kindOf[c.Name]; c.Name != f && k != KInt && k != KFloat {
					delete(kindOf, c.Name)
				}
			}
			var still []Col
			for _, c := range free {
				if _, ok := kindOf[c.Name]; ok {
					still = append(still, c)
				}
			}
			free = still
			h.Keys = []string{f}
			h.Route = append(h.Route, fmt.Sprintf("aggregate(by %s,null=%v)", f, null))
		}
	}
	if qf.Err != nil {
		t.Fatalf("history steps failed: %v (%v)", qf.Err, h.Route)
	}
	obs, err := Observe(qf)
	if err != nil {
		t.Fatalf("cannot observe the frame after its history %v: %v", h.Route, err)
	}
	for i := range obs.Cols {
		if obs.Cols[i].Kind == KEnum {
			obs.Cols[i].Enum = decl[obs.Cols[i].Name]
		}
	}
	if obs.Find(h.Focus) < 0 {
		h.Focus = ""
	}
	return qf, obs, h
}
