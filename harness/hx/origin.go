package hx

import (
	"fmt"
	"strconv"
	"strings"
	"unicode/utf8"

	"github.com/tobgu/qframe"
	"github.com/tobgu/qframe/config/csv"
	"github.com/tobgu/qframe/config/newqf"
	"pgregory.net/rapid"
)

// BuildVia creates the real frame for a table through a drawn *origin*: qframe.New (as Build does), a CSV text read
// with ReadCSV and the table's types, or columns produced one by one by Apply over a row-number column. Frames of
// another origin hold the same cells but their columns were assembled by other code (enum factories, string blobs
// filled from byte fields, Apply's typed slices). The origin routes are owned by C06/C12/C13: whenever the frame of
// an alternative origin does not read back as the table, the plain New frame is used instead (attribution rule), so
// the property under test only ever sees a frame that is what the model says.
func BuildVia(t *rapid.T, tab Table) (qframe.QFrame, string) {
	// columns written by built-ins (added in round 22): string and enum columns whose cells are the upper-case form of
	// something are, now and then, built from the lower-case cells and run through the ToUpper built-in; columns that hold
	// one value in every row are written as a constant by Apply. Same cells, storage assembled by other code again
	// (value tables mapped, blobs appended to, constant columns).
	var upCols, constCols []string
	src := tab
	if rapid.IntRange(0, 3).Draw(t, "builtinorigin") == 0 {
		src = Table{Cols: append([]Col(nil), tab.Cols...)}
		for i, c := range src.Cols {
			switch {
			case Lowerable(c):
				src.Cols[i] = Lowered(c)
				upCols = append(upCols, c.Name)
			case c.Kind != KEnum && c.Len() > 0 && !c.HasNull() && allCellsEqual(c):
				constCols = append(constCols, c.Name)
			}
		}
	}
	qf, origin := buildVia(t, src)
	if len(upCols)+len(constCols) == 0 {
		return qf, origin
	}
	_ = Safely(func() {
		for _, name := range upCols {
			qf = qf.Apply(qframe.Instruction{Fn: "ToUpper", DstCol: name, SrcCol1: name})
		}
		for _, name := range constCols {
			c := tab.MustCol(name)
			var v interface{}
			switch c.Kind {
			case KInt:
				v = c.I[0]
			case KFloat:
				v = c.F[0]
			case KBool:
				v = c.B[0]
			default:
				v = c.S[0]
			}
			qf = qf.Apply(qframe.Instruction{Fn: v, DstCol: name})
		}
	})
	if readsBackAs(qf, tab) {
		return qf, fmt.Sprintf("%s+ToUpper%q+const%q", origin, upCols, constCols)
	}
	return Build(tab), "origin:new(builtin-fallback)"
}

func allCellsEqual(c Col) bool {
	for r := 1; r < c.Len(); r++ {
		if !CellEq(c, 0, c, r) {
			return false
		}
	}
	return true
}

// Lowerable: a string or enum column all of whose cells (and declared values) are the upper-case form of their own
// lower-case form, at least one of them changing - so that the column can be produced by the ToUpper built-in.
func Lowerable(c Col) bool {
	if c.Kind != KString && c.Kind != KEnum {
		return false
	}
	ok := func(s string) bool { return utf8.ValidString(s) && strings.ToUpper(strings.ToLower(s)) == s }
	changes := false
	for _, p := range c.S {
		if p == nil {
			continue
		}
		if !ok(*p) {
			return false
		}
		if strings.ToLower(*p) != *p {
			changes = true
		}
	}
	if c.Kind == KEnum {
		if c.Enum == nil {
			return false // a derived enum would list its values in another order
		}
		seen := map[string]bool{}
		for _, v := range c.Enum {
			l := strings.ToLower(v)
			if !ok(v) || seen[l] {
				return false
			}
			seen[l] = true
		}
	}
	return changes
}

// Lowered returns the column with every cell (and declared value) in lower case.
func Lowered(c Col) Col {
	out := c
	out.S = make([]*string, len(c.S))
	for i, p := range c.S {
		if p != nil {
			out.S[i] = Sp(strings.ToLower(*p))
		}
	}
	if c.Enum != nil {
		out.Enum = make([]string, len(c.Enum))
		for i, v := range c.Enum {
			out.Enum[i] = strings.ToLower(v)
		}
	}
	return out
}

func buildVia(t *rapid.T, tab Table) (qframe.QFrame, string) {
	switch rapid.SampledFrom([]string{"new", "new", "csv", "apply"}).Draw(t, "origin") {
	case "csv":
		// (fields quoted throughout, or only where the text needs it: a document without any quote is a history too)
		minimal := rapid.Bool().Draw(t, "csvminimalquotes")
		if qf, ok := buildFromCSV(tab, minimal); ok && readsBackAs(qf, tab) {
			return qf, fmt.Sprintf("origin:csv(minimal quoting=%v)", minimal)
		}
		return Build(tab), "origin:new(csv-fallback)"
	case "apply":
		if qf, ok := buildByApply(tab); ok && readsBackAs(qf, tab) {
			return qf, "origin:apply"
		}
		return Build(tab), "origin:new(apply-fallback)"
	}
	return Build(tab), "origin:new"
}

// FromCSV returns the frame ReadCSV makes of a CSV rendering of tab (fields quoted only where needed when minimal is
// set), if the table can be told in CSV and reads back as itself.
func FromCSV(tab Table, minimal bool) (qframe.QFrame, bool) {
	qf, ok := buildFromCSV(tab, minimal)
	if !ok || !readsBackAs(qf, tab) {
		return qframe.QFrame{}, false
	}
	return qf, true
}

func readsBackAs(qf qframe.QFrame, tab Table) bool {
	if qf.Err != nil {
		return false
	}
	ok := false
	_ = Safely(func() {
		obs, err := Observe(qf)
		ok = err == nil && Diff(tab, obs) == ""
	})
	return ok
}

func csvField(sb *strings.Builder, s string) {
	sb.WriteByte('"')
	sb.WriteString(strings.ReplaceAll(s, `"`, `""`))
	sb.WriteByte('"')
}

// buildFromCSV: not every table can be told in CSV (null and "" cannot both be told, CR cannot be told).
func buildFromCSV(tab Table, minimal bool) (qframe.QFrame, bool) {
	csvField := func(sb *strings.Builder, s string) {
		if minimal && !strings.ContainsAny(s, "\",\n") {
			sb.WriteString(s)
			return
		}
		csvField(sb, s)
	}
	if len(tab.Cols) == 0 {
		return qframe.QFrame{}, false
	}
	typs := map[string]string{}
	enumVals := map[string][]string{}
	seen := map[string]bool{}
	// an empty field is a null string (EmptyNull) or an empty string: a table that holds both cannot be told
	hasNullStr, hasEmptyStr := false, false
	for _, c := range tab.Cols {
		if c.Name == "" || strings.ContainsAny(c.Name, "\r") || seen[c.Name] {
			return qframe.QFrame{}, false
		}
		seen[c.Name] = true
		switch c.Kind {
		case KInt:
			typs[c.Name] = "int"
		case KFloat:
			typs[c.Name] = "float"
		case KBool:
			typs[c.Name] = "bool"
		case KString, KEnum:
			typs[c.Name] = "string"
			if c.Kind == KEnum {
				typs[c.Name] = "enum"
				if c.Enum != nil {
					enumVals[c.Name] = append([]string(nil), c.Enum...)
				}
			}
			for _, p := range c.S {
				switch {
				case p == nil:
					hasNullStr = true
				case *p == "":
					hasEmptyStr = true
				case strings.ContainsAny(*p, "\r"):
					return qframe.QFrame{}, false
				}
			}
		default:
			return qframe.QFrame{}, false
		}
	}
	var sb strings.Builder
	for i, c := range tab.Cols {
		if i > 0 {
			sb.WriteByte(',')
		}
		csvField(&sb, c.Name)
	}
	sb.WriteByte('\n')
	for r := 0; r < tab.N(); r++ {
		for i, c := range tab.Cols {
			if i > 0 {
				sb.WriteByte(',')
			}
			switch c.Kind {
			case KInt:
				sb.WriteString(strconv.Itoa(c.I[r]))
			case KFloat:
				sb.WriteString(strconv.FormatFloat(c.F[r], 'g', -1, 64))
			case KBool:
				sb.WriteString(strconv.FormatBool(c.B[r]))
			default:
				if c.S[r] != nil {
					csvField(&sb, *c.S[r])
				}
			}
		}
		sb.WriteByte('\n')
	}
	if hasNullStr && hasEmptyStr {
		return qframe.QFrame{}, false
	}
	fns := []csv.ConfigFunc{csv.Types(typs), csv.EmptyNull(!hasEmptyStr)}
	if len(enumVals) > 0 {
		fns = append(fns, csv.EnumValues(enumVals))
	}
	var qf qframe.QFrame
	if perr := Safely(func() { qf = qframe.ReadCSV(strings.NewReader(sb.String()), fns...) }); perr != nil {
		return qframe.QFrame{}, false
	}
	return qf, true
}

const originID = "zz-origin-id"

// buildByApply: enum columns come from New (Apply cannot make them), every other column is computed by Apply from
// a row-number column, finally the columns are put into the table's order.
func buildByApply(tab Table) (qframe.QFrame, bool) {
	if len(tab.Cols) == 0 {
		return qframe.QFrame{}, false
	}
	n := tab.N()
	data := map[string]interface{}{originID: Iota(n)}
	enums := map[string][]string{}
	for _, c := range tab.Cols {
		if c.Kind == KEnum {
			data[c.Name] = copyPtrs(c.S)
			if c.Enum == nil {
				enums[c.Name] = nil
			} else {
				enums[c.Name] = append([]string(nil), c.Enum...)
			}
		}
	}
	var fns []newqf.ConfigFunc
	if len(enums) > 0 {
		fns = append(fns, newqf.Enums(enums))
	}
	var qf qframe.QFrame
	perr := Safely(func() {
		qf = qframe.New(data, fns...)
		for _, c := range tab.Cols {
			c := c
			var fn interface{}
			switch c.Kind {
			case KInt:
				vals := append([]int(nil), c.I...)
				fn = func(i int) int { return vals[i] }
			case KFloat:
				vals := append([]float64(nil), c.F...)
				fn = func(i int) float64 { return vals[i] }
			case KBool:
				vals := append([]bool(nil), c.B...)
				fn = func(i int) bool { return vals[i] }
			case KString:
				vals := copyPtrs(c.S)
				fn = func(i int) *string { return vals[i] }
			default:
				continue
			}
			qf = qf.Apply(qframe.Instruction{Fn: fn, DstCol: c.Name, SrcCol1: originID})
		}
		qf = qf.Select(tab.Names()...)
	})
	if perr != nil {
		return qframe.QFrame{}, false
	}
	return qf, true
}
