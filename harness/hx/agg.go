package hx

import (
	"fmt"
	"math"
	"strings"

	"github.com/tobgu/qframe"
	"github.com/tobgu/qframe/aggregation"
)

// Agg is a data-only aggregation: built-in name or a user function from the library.
type Agg struct {
	Fn  string // count,sum,min,max,avg,majority or user: wsum,first,last,concat
	Col string
	As  string
}

func (a Agg) String() string { return fmt.Sprintf("%s(%s)as%q", a.Fn, a.Col, a.As) }

// Out is the name of the result column.
func (a Agg) Out() string {
	if a.As != "" {
		return a.As
	}
	return a.Col
}

// user aggregation functions: order sensitive on purpose.
func wsumI(v []int) int {
	r := 0
	for k, x := range v {
		r += (k + 1) * x
	}
	return r
}
func wsumF(v []float64) float64 {
	r := 0.0
	for k, x := range v {
		r += float64(k+1) * x
	}
	return r
}
func firstI(v []int) int         { return v[0] }
func lastI(v []int) int          { return v[len(v)-1] }
func firstF(v []float64) float64 { return v[0] }
func lastF(v []float64) float64  { return v[len(v)-1] }
func firstB(v []bool) bool       { return v[0] }
func lastB(v []bool) bool        { return v[len(v)-1] }
func xorChainB(v []bool) bool {
	r := false
	for k, x := range v {
		if k%2 == 0 {
			r = r != x
		} else {
			r = r && !x || x && !r
		}
	}
	return r
}
func concatS(v []*string) *string {
	s := ""
	for _, p := range v {
		if p == nil {
			s += "<nil>;"
		} else {
			s += *p + ";"
		}
	}
	return &s
}

// the string aggregations hand back the very pointer they were given (as a "first", "min" or "mode" naturally does):
// what it points to must still be the group's value when the result column is built
func firstS(v []*string) *string { return v[0] }
func lastS(v []*string) *string  { return v[len(v)-1] }

// AggLastI is a user aggregation that depends on the order of the values it is given.
func AggLastI(v []int) int { return v[len(v)-1] }

func nthPos(n, l int) int {
	if n >= l {
		return l - 1
	}
	return n
}
func nthI(n int) func([]int) int { return func(v []int) int { return v[nthPos(n, len(v))] } }
func nthF(n int) func([]float64) float64 {
	return func(v []float64) float64 { return v[nthPos(n, len(v))] }
}
func nthB(n int) func([]bool) bool { return func(v []bool) bool { return v[nthPos(n, len(v))] } }
func nthS(n int) func([]*string) *string {
	return func(v []*string) *string { return v[nthPos(n, len(v))] }
}

// AggsFor lists the aggregation functions applicable to a column kind.
func AggsFor(k Kind) []string {
	switch k {
	case KInt:
		return []string{"count", "sum", "min", "max", "wsum", "first", "last", "nth0", "nth1", "nth2"}
	case KFloat:
		return []string{"count", "sum", "min", "max", "avg", "wsum", "first", "last", "nth0", "nth1", "nth2"}
	case KBool:
		return []string{"count", "majority", "first", "last", "xorchain", "nth0", "nth1", "nth2"}
	default:
		return []string{"count", "concat", "first", "last", "strjoin", "strjoin,", "nth0", "nth1", "nth2"}
	}
}

// Build returns the real aggregation.
func (a Agg) Build(k Kind) qframe.Aggregation {
	var fn interface{} = a.Fn
	switch a.Fn {
	case "wsum":
		if k == KInt {
			fn = wsumI
		} else {
			fn = wsumF
		}
	case "first":
		fn = map[Kind]interface{}{KInt: firstI, KFloat: firstF, KBool: firstB, KString: firstS, KEnum: firstS}[k]
	case "last":
		fn = map[Kind]interface{}{KInt: lastI, KFloat: lastF, KBool: lastB, KString: lastS, KEnum: lastS}[k]
	case "concat":
		fn = concatS
	case "strjoin":
		fn = aggregation.StrJoin("|") // the library's own example aggregation
	case "strjoin,":
		fn = aggregation.StrJoin(",") // a second function value made by the same constructor
	case "nth0", "nth1", "nth2":
		// function values that differ only in what they captured (one function literal per type)
		n := int(a.Fn[3] - '0')
		fn = map[Kind]interface{}{KInt: nthI(n), KFloat: nthF(n), KBool: nthB(n), KString: nthS(n), KEnum: nthS(n)}[k]
	case "xorchain":
		fn = xorChainB
	}
	return qframe.Aggregation{Fn: fn, Column: a.Col, As: a.As}
}

// Apply computes the model value of the aggregation over rows (frame order) of c and
// appends it to out (a column of the result kind).
func (a Agg) Apply(c Col, rows []int, out *Col) {
	if a.Fn == "count" {
		out.I = append(out.I, len(rows))
		return
	}
	switch c.Kind {
	case KInt:
		v := make([]int, len(rows))
		for i, r := range rows {
			v[i] = c.I[r]
		}
		var x int
		switch a.Fn {
		case "sum":
			for _, y := range v {
				x += y
			}
		case "min":
			x = v[0]
			for _, y := range v {
				if y < x {
					x = y
				}
			}
		case "max":
			x = v[0]
			for _, y := range v {
				if y > x {
					x = y
				}
			}
		case "wsum":
			x = wsumI(v)
		case "first":
			x = v[0]
		case "last":
			x = v[len(v)-1]
		case "nth0", "nth1", "nth2":
			x = v[nthPos(int(a.Fn[3]-'0'), len(v))]
		}
		out.I = append(out.I, x)
	case KFloat:
		v := make([]float64, len(rows))
		for i, r := range rows {
			v[i] = c.F[r]
		}
		var x float64
		switch a.Fn {
		case "sum":
			for _, y := range v {
				x += y
			}
		case "avg":
			for _, y := range v {
				x += y
			}
			x = x / float64(len(v))
		case "min":
			x = v[0]
			for _, y := range v[1:] {
				x = math.Min(x, y)
			}
		case "max":
			x = v[0]
			for _, y := range v[1:] {
				x = math.Max(x, y)
			}
		case "wsum":
			x = wsumF(v)
		case "first":
			x = v[0]
		case "last":
			x = v[len(v)-1]
		case "nth0", "nth1", "nth2":
			x = v[nthPos(int(a.Fn[3]-'0'), len(v))]
		}
		out.F = append(out.F, x)
	case KBool:
		v := make([]bool, len(rows))
		for i, r := range rows {
			v[i] = c.B[r]
		}
		var x bool
		switch a.Fn {
		case "majority":
			tc := 0
			for _, y := range v {
				if y {
					tc++
				}
			}
			x = tc > len(v)-tc
		case "first":
			x = v[0]
		case "last":
			x = v[len(v)-1]
		case "nth0", "nth1", "nth2":
			x = v[nthPos(int(a.Fn[3]-'0'), len(v))]
		case "xorchain":
			x = xorChainB(v)
		}
		out.B = append(out.B, x)
	default:
		v := make([]*string, len(rows))
		for i, r := range rows {
			v[i] = c.S[r]
		}
		var x *string
		switch a.Fn {
		case "concat":
			x = concatS(v)
		case "strjoin":
			// documented: joins the non-null strings with the separator
			var parts []string
			for _, p := range v {
				if p != nil {
					parts = append(parts, *p)
				}
			}
			x = Sp(strings.Join(parts, "|"))
		case "first":
			x = firstS(v)
		case "last":
			x = lastS(v)
		case "nth0", "nth1", "nth2":
			x = v[nthPos(int(a.Fn[3]-'0'), len(v))]
		case "strjoin,":
			var parts []string
			for _, p := range v {
				if p != nil {
					parts = append(parts, *p)
				}
			}
			x = Sp(strings.Join(parts, ","))
		}
		out.S = append(out.S, x)
	}
}

// ResultKind is the kind of the aggregate column.
func (a Agg) ResultKind(k Kind) Kind {
	if a.Fn == "count" {
		return KInt
	}
	if k == KEnum {
		return KString // aggregating an enum column yields a string column
	}
	return k
}
