package hx

import (
	"bytes"
	"fmt"
	"io"
	"math"
	"strconv"
	"strings"
)

// CSVDoc is a document model of an RFC 4180 document: what it denotes (header, cells)
// plus the free syntactic choices (optional quoting, row terminators, final break).
// The expected frame comes from the model, never from parsing the serialised bytes.
type CSVDoc struct {
	Header     []string   // nil when the document has no header row (Headers option used)
	Rows       [][]string // cells, any bytes but CR
	QuoteHdr   []bool     // quote the header field although not required
	Quote      [][]bool   // quote the field although not required
	RowEnd     []string   // terminator of each line (header line first, if any): "\n" or "\r\n"
	FinalBreak bool       // whether the last line is terminated
	Delim      byte
	BlankAfter []bool // a blank line is injected after line i (only with IgnoreEmptyLines)
}

func needsQuote(field string, delim byte) bool {
	return strings.IndexByte(field, delim) >= 0 || strings.ContainsAny(field, "\"\n")
}

func writeField(buf *bytes.Buffer, field string, delim byte, optional bool) {
	if needsQuote(field, delim) || optional {
		buf.WriteByte('"')
		buf.WriteString(strings.ReplaceAll(field, `"`, `""`))
		buf.WriteByte('"')
		return
	}
	buf.WriteString(field)
}

// Bytes serialises the document.
func (d CSVDoc) Bytes() []byte {
	var buf bytes.Buffer
	line := 0
	lines := len(d.Rows)
	if d.Header != nil {
		lines++
	}
	endLine := func() {
		if line < lines-1 || d.FinalBreak {
			buf.WriteString(d.RowEnd[line])
		}
		if line < len(d.BlankAfter) && d.BlankAfter[line] && (line < lines-1 || d.FinalBreak) {
			buf.WriteString(d.RowEnd[line])
		}
		line++
	}
	if d.Header != nil {
		for i, h := range d.Header {
			if i > 0 {
				buf.WriteByte(d.Delim)
			}
			writeField(&buf, h, d.Delim, d.QuoteHdr[i])
		}
		endLine()
	}
	for r, row := range d.Rows {
		for i, c := range row {
			if i > 0 {
				buf.WriteByte(d.Delim)
			}
			writeField(&buf, c, d.Delim, d.Quote[r][i])
		}
		endLine()
	}
	return buf.Bytes()
}

// CSVConf is the data-only reader configuration.
type CSVConf struct {
	EmptyNull        bool
	IgnoreEmptyLines bool
	Headers          []string          // when set the document has no header row
	Types            map[string]string // column -> type name
	EnumValues       map[string][]string
	RenameDuplicates bool
	MissingAlias     string
	RowCountHint     int
}

func (c CSVConf) String() string {
	return fmt.Sprintf("emptyNull=%v ignoreEmptyLines=%v headers=%q types=%v enumValues=%v rename=%v alias=%q hint=%d",
		c.EmptyNull, c.IgnoreEmptyLines, c.Headers, c.Types, c.EnumValues, c.RenameDuplicates, c.MissingAlias, c.RowCountHint)
}

// CSVExpect is what ReadCSV must produce for a document and configuration.
type CSVExpect struct {
	Err         string // non-empty: an error is predicted (the text is for the report only)
	Table       Table  // expected frame (column names as they are when no renaming happened)
	Renamed     bool   // names must be checked by predicate, not literally
	OrigNames   []string
	UntypedZero bool // zero rows without declared types: only names and Len are specified
}

func legalName(name string) bool {
	if name == "" {
		return false
	}
	if len(name) > 2 && ((strings.HasPrefix(name, "'") && strings.HasSuffix(name, "'")) || (strings.HasPrefix(name, `"`) && strings.HasSuffix(name, `"`))) {
		return false
	}
	return !strings.HasPrefix(name, "$")
}

// Expect computes the denotation of the document under the configuration.
func (d CSVDoc) Expect(conf CSVConf) CSVExpect {
	names := d.Header
	if conf.Headers != nil {
		names = conf.Headers
	}
	names = append([]string(nil), names...)
	exp := CSVExpect{OrigNames: append([]string(nil), names...)}
	if conf.MissingAlias != "" {
		for i, n := range names {
			if n == "" {
				names[i] = conf.MissingAlias
			}
		}
	}
	seen := map[string]bool{}
	dup := false
	for _, n := range names {
		if seen[n] {
			dup = true
		}
		seen[n] = true
	}
	if dup {
		if !conf.RenameDuplicates {
			exp.Err = "duplicate column names"
			return exp
		}
		exp.Renamed = true
	}
	for _, n := range names {
		if !legalName(n) {
			exp.Err = fmt.Sprintf("illegal column name %q", n)
			return exp
		}
	}
	n := len(d.Rows)
	for ci, name := range names {
		cells := make([]string, n)
		for r := range d.Rows {
			cells[r] = d.Rows[r][ci]
		}
		typ := ""
		if !exp.Renamed {
			typ = conf.Types[name]
		}
		col, err := csvColumn(name, cells, typ, conf.EnumValues[name], conf.EmptyNull)
		if err != "" {
			exp.Err = err
			return exp
		}
		if n == 0 && typ == "" {
			exp.UntypedZero = true
		}
		exp.Table.Cols = append(exp.Table.Cols, col)
	}
	for name := range conf.EnumValues {
		if conf.Types[name] != "enum" {
			exp.Err = "enum values for a non enum column"
		}
	}
	return exp
}

func csvColumn(name string, cells []string, typ string, enumVals []string, emptyNull bool) (Col, string) {
	parseInts := func() ([]int, bool) {
		out := make([]int, len(cells))
		for i, c := range cells {
			v, err := strconv.Atoi(c)
			if err != nil {
				return nil, false
			}
			out[i] = v
		}
		return out, true
	}
	parseFloats := func() ([]float64, bool) {
		out := make([]float64, len(cells))
		for i, c := range cells {
			if c == "" {
				out[i] = math.NaN()
				continue
			}
			v, err := strconv.ParseFloat(c, 64)
			if err != nil {
				return nil, false
			}
			out[i] = v
		}
		return out, true
	}
	parseBools := func() ([]bool, bool) {
		out := make([]bool, len(cells))
		for i, c := range cells {
			v, err := strconv.ParseBool(c)
			if err != nil {
				return nil, false
			}
			out[i] = v
		}
		return out, true
	}
	strs := func() []*string {
		out := make([]*string, len(cells))
		for i, c := range cells {
			if c == "" && emptyNull {
				continue
			}
			out[i] = Sp(c)
		}
		return out
	}
	switch typ {
	case "int":
		v, ok := parseInts()
		if !ok {
			return Col{}, "declared int column holds a cell that is no int"
		}
		return Col{Name: name, Kind: KInt, I: v}, ""
	case "float":
		v, ok := parseFloats()
		if !ok {
			return Col{}, "declared float column holds a cell that is no float"
		}
		return Col{Name: name, Kind: KFloat, F: v}, ""
	case "bool":
		v, ok := parseBools()
		if !ok {
			return Col{}, "declared bool column holds a cell that is no bool"
		}
		return Col{Name: name, Kind: KBool, B: v}, ""
	case "string":
		return Col{Name: name, Kind: KString, S: strs()}, ""
	case "enum":
		s := strs()
		if len(enumVals) > 0 {
			ok := map[string]bool{}
			for _, v := range enumVals {
				ok[v] = true
			}
			for _, p := range s {
				if p != nil && !ok[*p] {
					return Col{}, fmt.Sprintf("undeclared enum value %q", *p)
				}
			}
			return Col{Name: name, Kind: KEnum, S: s, Enum: enumVals}, ""
		}
		distinct := map[string]bool{}
		for _, p := range s {
			if p != nil {
				distinct[*p] = true
			}
		}
		if len(distinct) > 255 {
			return Col{}, "more than 255 distinct enum values"
		}
		return Col{Name: name, Kind: KEnum, S: s}, ""
	case "":
		if len(cells) == 0 {
			return Col{Name: name, Kind: KUndef}, ""
		}
		if v, ok := parseInts(); ok {
			return Col{Name: name, Kind: KInt, I: v}, ""
		}
		if v, ok := parseFloats(); ok {
			return Col{Name: name, Kind: KFloat, F: v}, ""
		}
		if v, ok := parseBools(); ok {
			return Col{Name: name, Kind: KBool, B: v}, ""
		}
		return Col{Name: name, Kind: KString, S: strs()}, ""
	}
	return Col{}, "unknown type " + typ
}

// ChunkReader delivers data in the given chunk sizes (cycling through the schedule),
// never more than the caller's buffer holds. EOF arrives together with the last bytes
// (EOFWithData) or in a separate call.
type ChunkReader struct {
	Data        []byte
	Schedule    []int
	NoCycle     bool // after the schedule is used up everything left comes in one read
	EOFWithData bool
	// FailAt >= 0: after delivering FailAt bytes the reader returns FailErr instead of
	// further data (fault injection, C15). FailWithData delivers the error together
	// with the last permitted bytes.
	FailAt       int
	FailErr      error
	FailWithData bool
	pos          int
	k            int
	Reads        int
}

func NewChunkReader(data []byte, schedule []int, eofWithData bool) *ChunkReader {
	return &ChunkReader{Data: data, Schedule: schedule, EOFWithData: eofWithData, FailAt: -1}
}

func (c *ChunkReader) Read(p []byte) (int, error) {
	c.Reads++
	limit := len(c.Data)
	if c.FailAt >= 0 && c.FailAt < limit {
		limit = c.FailAt
	}
	if c.pos >= limit {
		if c.FailAt >= 0 && c.FailAt <= len(c.Data) && c.pos >= c.FailAt {
			return 0, c.FailErr
		}
		return 0, io.EOF
	}
	n := 1 << 30
	if len(c.Schedule) > 0 && !(c.NoCycle && c.k >= len(c.Schedule)) {
		n = c.Schedule[c.k%len(c.Schedule)]
		c.k++
		if n < 1 {
			n = 1
		}
	}
	if n > len(p) {
		n = len(p)
	}
	if n > limit-c.pos {
		n = limit - c.pos
	}
	if n == 0 {
		return 0, nil
	}
	copy(p, c.Data[c.pos:c.pos+n])
	c.pos += n
	if c.pos >= limit {
		if c.FailAt >= 0 && c.FailAt <= len(c.Data) && limit == c.FailAt {
			if c.FailWithData {
				return n, c.FailErr
			}
			return n, nil
		}
		if c.EOFWithData {
			return n, io.EOF
		}
	}
	return n, nil
}

// LenReader is a ChunkReader that also reports how many bytes are left, like strings.Reader and bytes.Buffer do.
type LenReader struct{ *ChunkReader }

// Len returns the number of bytes not yet delivered.
func (l LenReader) Len() int { return len(l.Data) - l.pos }

// SeekReader is a ChunkReader that can also Seek (as files and in-memory readers can); FailSeekAt >= 0 makes the
// n-th Seek call fail (and leaves the position where it was).
type SeekReader struct {
	*ChunkReader
	FailSeekAt int
	Seeks      *int // number of Seek calls so far
	Failed     *bool
}

// Seek implements io.Seeker over the delivered data.
func (s SeekReader) Seek(offset int64, whence int) (int64, error) {
	n := *s.Seeks
	*s.Seeks = n + 1
	if s.FailSeekAt == n {
		*s.Failed = true
		return int64(s.pos), fmt.Errorf("seek failed")
	}
	var abs int64
	switch whence {
	case io.SeekStart:
		abs = offset
	case io.SeekCurrent:
		abs = int64(s.pos) + offset
	default:
		abs = int64(len(s.Data)) + offset
	}
	if abs < 0 {
		return int64(s.pos), fmt.Errorf("negative position")
	}
	if abs > int64(len(s.Data)) {
		abs = int64(len(s.Data))
	}
	s.ChunkReader.pos = int(abs)
	return abs, nil
}
