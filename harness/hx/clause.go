package hx

import (
	"fmt"
	"math"
	"regexp"
	"strings"
	"sync/atomic"

	"github.com/tobgu/qframe"
	"github.com/tobgu/qframe/types"
)

// Clause is a data-only filter clause tree: it can be rendered, turned into a real
// qframe.FilterClause and evaluated row by row by the reference model.
type Clause struct {
	Op   string // "leaf", "and", "or", "not", "null"
	Kids []Clause

	// leaf
	Col     string
	Comp    string // built-in comparator name, or "fn1"/"fn2" for predicate functions
	Arg     string // "none", "const", "col", "list"
	I       int
	F       float64
	B       bool
	S       string
	ArgCol  string
	LI      []int
	LS      []string
	Fn      int // predicate function id (see PredFns)
	Inverse bool
	// ListForm selects how an "in" list is handed over: 0 typed slice, 1 []interface{},
	// 2 (int columns only) []float64 holding the same whole numbers
	ListForm int
}

func (c Clause) String() string {
	switch c.Op {
	case "null":
		return "Null()"
	case "not":
		return "Not(" + c.Kids[0].String() + ")"
	case "and", "or":
		parts := make([]string, len(c.Kids))
		for i, k := range c.Kids {
			parts[i] = k.String()
		}
		return strings.Title(c.Op) + "(" + strings.Join(parts, ", ") + ")"
	}
	var arg string
	switch c.Arg {
	case "none":
		arg = ""
	case "col":
		arg = "col:" + c.ArgCol
	case "list":
		if c.LS != nil {
			arg = fmt.Sprintf("%q/form%d", c.LS, c.ListForm)
		} else {
			arg = fmt.Sprintf("%v/form%d", c.LI, c.ListForm)
		}
	default:
		arg = c.constString()
	}
	comp := c.Comp
	if comp == "fn1" || comp == "fn2" {
		comp = fmt.Sprintf("%s#%d", comp, c.Fn)
	}
	s := fmt.Sprintf("{%s %s %s}", c.Col, comp, arg)
	if c.Inverse {
		s = "Inv" + s
	}
	return s
}

func (c Clause) constString() string {
	switch c.S {
	case "\x01int":
		return fmt.Sprint(c.I)
	case "\x01float":
		return fmt.Sprintf("%v#%x", c.F, math.Float64bits(c.F))
	case "\x01bool":
		return fmt.Sprint(c.B)
	}
	return fmt.Sprintf("%q", c.S)
}

// The constant kind is encoded in S for non-string constants to keep Clause flat.
func IntConst(col, comp string, v int) Clause {
	return Clause{Op: "leaf", Col: col, Comp: comp, Arg: "const", I: v, S: "\x01int"}
}
func FloatConst(col, comp string, v float64) Clause {
	return Clause{Op: "leaf", Col: col, Comp: comp, Arg: "const", F: v, S: "\x01float"}
}
func BoolConst(col, comp string, v bool) Clause {
	return Clause{Op: "leaf", Col: col, Comp: comp, Arg: "const", B: v, S: "\x01bool"}
}
func StrConst(col, comp string, v string) Clause {
	return Clause{Op: "leaf", Col: col, Comp: comp, Arg: "const", S: v}
}
func ColArg(col, comp, other string) Clause {
	return Clause{Op: "leaf", Col: col, Comp: comp, Arg: "col", ArgCol: other}
}
func NoArg(col, comp string) Clause { return Clause{Op: "leaf", Col: col, Comp: comp, Arg: "none"} }

// Leaves counts the leaves of the tree.
func (c Clause) Leaves() int {
	if c.Op == "leaf" {
		return 1
	}
	n := 0
	for _, k := range c.Kids {
		n += k.Leaves()
	}
	return n
}

// Walk visits every node.
func (c Clause) Walk(f func(Clause)) {
	f(c)
	for _, k := range c.Kids {
		k.Walk(f)
	}
}

// ---------------------------------------------------------------------------
// predicate function library: pure functions selected by id. Every call is counted
// (C10 needs "no callback after an error").

var PredCalls int64

type predFn struct {
	Name string
	I1   func(int) bool
	F1   func(float64) bool
	B1   func(bool) bool
	S1   func(*string) bool
	I2   func(int, int) bool
	F2   func(float64, float64) bool
	B2   func(bool, bool) bool
	S2   func(*string, *string) bool
}

// PredFns is indexed by Clause.Fn modulo len.
var PredFns = []predFn{
	{
		Name: "even/pos/id/nonempty",
		I1:   func(x int) bool { atomic.AddInt64(&PredCalls, 1); return x%2 == 0 },
		F1:   func(x float64) bool { atomic.AddInt64(&PredCalls, 1); return x > 0 },
		B1:   func(x bool) bool { atomic.AddInt64(&PredCalls, 1); return x },
		S1:   func(x *string) bool { atomic.AddInt64(&PredCalls, 1); return x != nil && len(*x) > 0 },
		I2:   func(x, y int) bool { atomic.AddInt64(&PredCalls, 1); return x < y },
		F2:   func(x, y float64) bool { atomic.AddInt64(&PredCalls, 1); return x < y },
		B2:   func(x, y bool) bool { atomic.AddInt64(&PredCalls, 1); return x && !y },
		S2:   func(x, y *string) bool { atomic.AddInt64(&PredCalls, 1); return x != nil && y != nil && *x < *y },
	},
	{
		Name: "neg/nan/not/isnil",
		I1:   func(x int) bool { atomic.AddInt64(&PredCalls, 1); return x < 0 },
		F1:   func(x float64) bool { atomic.AddInt64(&PredCalls, 1); return math.IsNaN(x) || x < 0 },
		B1:   func(x bool) bool { atomic.AddInt64(&PredCalls, 1); return !x },
		S1:   func(x *string) bool { atomic.AddInt64(&PredCalls, 1); return x == nil },
		I2:   func(x, y int) bool { atomic.AddInt64(&PredCalls, 1); return x == y },
		F2: func(x, y float64) bool {
			atomic.AddInt64(&PredCalls, 1)
			return x == y || (math.IsNaN(x) && math.IsNaN(y))
		},
		B2: func(x, y bool) bool { atomic.AddInt64(&PredCalls, 1); return x == y },
		S2: func(x, y *string) bool { atomic.AddInt64(&PredCalls, 1); return (x == nil) == (y == nil) },
	},
	{
		Name: "mod3/small/true/hasa",
		I1:   func(x int) bool { atomic.AddInt64(&PredCalls, 1); return x%3 == 0 },
		F1:   func(x float64) bool { atomic.AddInt64(&PredCalls, 1); return x >= -1 && x <= 1 },
		B1:   func(x bool) bool { atomic.AddInt64(&PredCalls, 1); return true },
		S1:   func(x *string) bool { atomic.AddInt64(&PredCalls, 1); return x != nil && strings.Contains(*x, "a") },
		I2:   func(x, y int) bool { atomic.AddInt64(&PredCalls, 1); return x+y > 0 },
		F2:   func(x, y float64) bool { atomic.AddInt64(&PredCalls, 1); return x+y > 0 },
		B2:   func(x, y bool) bool { atomic.AddInt64(&PredCalls, 1); return x || y },
		S2: func(x, y *string) bool {
			atomic.AddInt64(&PredCalls, 1)
			return x != nil && y != nil && len(*x) == len(*y)
		},
	},
}

func (c Clause) pred() predFn { return PredFns[((c.Fn%len(PredFns))+len(PredFns))%len(PredFns)] }

// ---------------------------------------------------------------------------
// building the real clause

// Build turns the tree into a real FilterClause. kinds maps column name -> kind (needed
// to pick the right predicate function signature).
func (c Clause) Build(kinds map[string]Kind) qframe.FilterClause {
	switch c.Op {
	case "null":
		return qframe.Null()
	case "not":
		return qframe.Not(c.Kids[0].Build(kinds))
	case "and", "or":
		kids := make([]qframe.FilterClause, len(c.Kids))
		for i, k := range c.Kids {
			kids[i] = k.Build(kinds)
		}
		if c.Op == "and" {
			return qframe.And(kids...)
		}
		return qframe.Or(kids...)
	}
	f := qframe.Filter{Column: c.Col, Inverse: c.Inverse}
	switch c.Comp {
	case "fn1":
		p := c.pred()
		switch kinds[c.Col] {
		case KInt:
			f.Comparator = p.I1
		case KFloat:
			f.Comparator = p.F1
		case KBool:
			f.Comparator = p.B1
		default:
			f.Comparator = p.S1
		}
	case "fn2":
		p := c.pred()
		switch kinds[c.Col] {
		case KInt:
			f.Comparator = p.I2
		case KFloat:
			f.Comparator = p.F2
		case KBool:
			f.Comparator = p.B2
		default:
			f.Comparator = p.S2
		}
	default:
		f.Comparator = c.Comp
	}
	switch c.Arg {
	case "none":
	case "col":
		f.Arg = types.ColumnName(c.ArgCol)
	case "list":
		switch {
		case c.LS != nil && c.ListForm == 1:
			l := make([]interface{}, len(c.LS))
			for i, v := range c.LS {
				l[i] = v
			}
			f.Arg = l
		case c.LS != nil:
			f.Arg = append([]string(nil), c.LS...)
		case c.ListForm == 1:
			l := make([]interface{}, len(c.LI))
			for i, v := range c.LI {
				l[i] = v
			}
			f.Arg = l
		case c.ListForm == 2 && intsFitFloat(c.LI):
			l := make([]float64, len(c.LI))
			for i, v := range c.LI {
				l[i] = float64(v)
			}
			f.Arg = l
		default:
			f.Arg = append([]int(nil), c.LI...)
		}
	default:
		switch c.S {
		case "\x01int":
			f.Arg = c.I
		case "\x01float":
			f.Arg = c.F
		case "\x01bool":
			f.Arg = c.B
		default:
			f.Arg = c.S
		}
	}
	return f
}

// KindMap returns column name -> kind for a table.
func KindMap(t Table) map[string]Kind {
	m := map[string]Kind{}
	for _, c := range t.Cols {
		m[c.Name] = c.Kind
	}
	return m
}

// ---------------------------------------------------------------------------
// reference semantics

// Eval evaluates the clause for row r of t under the row-wise semantics of the
// property statement. It panics on clauses the generators never produce.
func (c Clause) Eval(t Table, r int) bool {
	switch c.Op {
	case "null":
		return true
	case "not":
		return !c.Kids[0].Eval(t, r)
	case "and":
		for _, k := range c.Kids {
			if !k.Eval(t, r) {
				return false
			}
		}
		return true
	case "or":
		for _, k := range c.Kids {
			if k.Eval(t, r) {
				return true
			}
		}
		return false
	}
	v := c.evalLeaf(t, r)
	if c.Inverse {
		return !v
	}
	return v
}

func cmpOrd(comp string, lt, eq bool) bool {
	switch comp {
	case "<":
		return lt
	case "<=":
		return lt || eq
	case ">":
		return !lt && !eq
	case ">=":
		return !lt
	case "=":
		return eq
	case "!=":
		return !eq
	}
	panic("harness: comparator " + comp)
}

func cmpFloat(comp string, a, b float64) bool {
	if math.IsNaN(a) || math.IsNaN(b) {
		return comp == "!="
	}
	return cmpOrd(comp, a < b, a == b)
}

func enumRank(decl []string, s string) int {
	for i, v := range decl {
		if v == s {
			return i
		}
	}
	return -1
}

func (c Clause) evalLeaf(t Table, r int) bool {
	col := t.MustCol(c.Col)
	switch c.Comp {
	case "isnull":
		return col.IsNull(r)
	case "isnotnull":
		return !col.IsNull(r)
	case "fn1":
		p := c.pred()
		switch col.Kind {
		case KInt:
			return p.I1(col.I[r])
		case KFloat:
			return p.F1(col.F[r])
		case KBool:
			return p.B1(col.B[r])
		default:
			return p.S1(col.S[r])
		}
	case "fn2":
		p := c.pred()
		o := t.MustCol(c.ArgCol)
		switch col.Kind {
		case KInt:
			return p.I2(col.I[r], o.I[r])
		case KFloat:
			return p.F2(col.F[r], o.F[r])
		case KBool:
			return p.B2(col.B[r], o.B[r])
		default:
			return p.S2(col.S[r], o.S[r])
		}
	case "like", "ilike":
		if col.S[r] == nil {
			return false
		}
		m, err := LikeModel(c.S, c.Comp == "ilike")
		if err != nil {
			panic("harness: C02 generates only valid like patterns: " + err.Error())
		}
		return m(*col.S[r])
	case "in":
		switch col.Kind {
		case KInt:
			for _, v := range c.LI {
				if v == col.I[r] {
					return true
				}
			}
			return false
		default:
			if col.S[r] == nil {
				return false
			}
			for _, v := range c.LS {
				if v == *col.S[r] {
					return true
				}
			}
			return false
		}
	case "any_bits":
		return col.I[r]&c.I != 0
	case "all_bits":
		return col.I[r]&c.I == c.I
	}
	// ordering and equality comparators
	if c.Arg == "col" {
		o := t.MustCol(c.ArgCol)
		switch {
		case col.Kind == KInt && o.Kind == KInt:
			return cmpOrd(c.Comp, col.I[r] < o.I[r], col.I[r] == o.I[r])
		case (col.Kind == KInt || col.Kind == KFloat) && (o.Kind == KInt || o.Kind == KFloat):
			a, b := 0.0, 0.0
			if col.Kind == KInt {
				a = float64(col.I[r])
			} else {
				a = col.F[r]
			}
			if o.Kind == KInt {
				b = float64(o.I[r])
			} else {
				b = o.F[r]
			}
			return cmpFloat(c.Comp, a, b)
		case col.Kind == KBool:
			return cmpOrd(c.Comp, !col.B[r] && o.B[r], col.B[r] == o.B[r])
		case col.Kind == KString:
			if col.S[r] == nil || o.S[r] == nil {
				return c.Comp == "!="
			}
			return cmpOrd(c.Comp, *col.S[r] < *o.S[r], *col.S[r] == *o.S[r])
		case col.Kind == KEnum:
			if col.S[r] == nil || o.S[r] == nil {
				return c.Comp == "!="
			}
			a, b := enumRank(col.Enum, *col.S[r]), enumRank(o.Enum, *o.S[r])
			return cmpOrd(c.Comp, a < b, a == b)
		}
		panic("harness: column comparison kinds")
	}
	switch col.Kind {
	case KInt:
		return cmpOrd(c.Comp, col.I[r] < c.I, col.I[r] == c.I)
	case KFloat:
		return cmpFloat(c.Comp, col.F[r], c.F)
	case KBool:
		return cmpOrd(c.Comp, !col.B[r] && c.B, col.B[r] == c.B)
	case KString:
		if col.S[r] == nil {
			return c.Comp == "!="
		}
		return cmpOrd(c.Comp, *col.S[r] < c.S, *col.S[r] == c.S)
	case KEnum:
		if col.S[r] == nil {
			return c.Comp == "!="
		}
		if col.Enum == nil {
			// derived enum: only = and != are generated
			return cmpOrd(c.Comp, false, *col.S[r] == c.S)
		}
		a, b := enumRank(col.Enum, *col.S[r]), enumRank(col.Enum, c.S)
		return cmpOrd(c.Comp, a < b, a == b)
	}
	panic("harness: leaf kind")
}

// LikeModel is the reference semantics of like/ilike as stated in C18: a leading
// and/or trailing % stands for any prefix/suffix and the remainder must occur
// literally (no % = whole-string equality), ilike compares after Unicode upper
// casing of both sides; a pattern with regexp metacharacters is a Go regexp anchored
// at each end that has no %, (?i) for ilike.
func LikeModel(pattern string, insensitive bool) (func(string) bool, error) {
	start := strings.HasPrefix(pattern, "%")
	end := strings.HasSuffix(pattern, "%")
	if regexp.QuoteMeta(pattern) != pattern {
		p := pattern
		if start {
			p = p[1:]
		} else {
			p = "^" + p
		}
		if end {
			p = p[:len(p)-1]
		} else {
			p = p + "$"
		}
		if insensitive {
			p = "(?i)" + p
		}
		re, err := regexp.Compile(p)
		if err != nil {
			return nil, err
		}
		return re.MatchString, nil
	}
	lit := strings.TrimSuffix(strings.TrimPrefix(pattern, "%"), "%")
	if pattern == "%" {
		lit = ""
	}
	norm := func(s string) string { return s }
	if insensitive {
		norm = strings.ToUpper
		lit = strings.ToUpper(lit)
	}
	switch {
	case start && end:
		return func(s string) bool { return strings.Contains(norm(s), lit) }, nil
	case start:
		return func(s string) bool { return strings.HasSuffix(norm(s), lit) }, nil
	case end:
		return func(s string) bool { return strings.HasPrefix(norm(s), lit) }, nil
	}
	return func(s string) bool { return norm(s) == lit }, nil
}

// intsFitFloat reports if every value survives the round trip through float64.
func intsFitFloat(l []int) bool {
	for _, v := range l {
		if v > 1<<52 || v < -(1<<52) {
			return false
		}
	}
	return true
}
