// Package hx holds the shared building blocks of the verification harness:
// a naive row-oriented reference table, observation of real frames through the
// public API only, construction of real frames from tables, and rapid generators.
package hx

import (
	"fmt"
	"math"
	"sort"
	"strconv"
	"strings"
)

// Kind is the column type of the reference model.
type Kind uint8

const (
	KInt Kind = iota
	KFloat
	KBool
	KString
	KEnum
	KUndef
)

func (k Kind) String() string {
	switch k {
	case KInt:
		return "int"
	case KFloat:
		return "float"
	case KBool:
		return "bool"
	case KString:
		return "string"
	case KEnum:
		return "enum"
	}
	return "Undefined"
}

// KindOf maps a qframe types.DataType string to a Kind.
func KindOf(s string) Kind {
	switch s {
	case "int":
		return KInt
	case "float":
		return KFloat
	case "bool":
		return KBool
	case "string":
		return KString
	case "enum":
		return KEnum
	}
	return KUndef
}

// Col is one column of the reference table. Exactly one of the typed slices is
// used, S serves both string and enum columns (nil pointer = null).
type Col struct {
	Name string
	Kind Kind
	I    []int
	F    []float64
	B    []bool
	S    []*string
	// Enum holds the declared enum values (strict enum). nil means that the values
	// are derived from the data (rank order unspecified).
	Enum []string
}

func (c Col) Len() int {
	switch c.Kind {
	case KInt:
		return len(c.I)
	case KFloat:
		return len(c.F)
	case KBool:
		return len(c.B)
	case KString, KEnum:
		return len(c.S)
	}
	return 0
}

// Take returns a copy of the column holding the given rows in the given order.
func (c Col) Take(sel []int) Col {
	r := Col{Name: c.Name, Kind: c.Kind, Enum: c.Enum}
	switch c.Kind {
	case KInt:
		r.I = make([]int, len(sel))
		for i, s := range sel {
			r.I[i] = c.I[s]
		}
	case KFloat:
		r.F = make([]float64, len(sel))
		for i, s := range sel {
			r.F[i] = c.F[s]
		}
	case KBool:
		r.B = make([]bool, len(sel))
		for i, s := range sel {
			r.B[i] = c.B[s]
		}
	case KString, KEnum:
		r.S = make([]*string, len(sel))
		for i, s := range sel {
			r.S[i] = c.S[s]
		}
	}
	return r
}

// IsNull reports if the cell is null in the sense of qframe (NaN or nil pointer).
func (c Col) IsNull(r int) bool {
	switch c.Kind {
	case KFloat:
		return math.IsNaN(c.F[r])
	case KString, KEnum:
		return c.S[r] == nil
	}
	return false
}

// HasNull reports if any cell of the column is null.
func (c Col) HasNull() bool {
	for r := 0; r < c.Len(); r++ {
		if c.IsNull(r) {
			return true
		}
	}
	return false
}

// Cell renders one cell canonically: ints in decimal, floats by bit pattern (all
// NaNs alike), strings quoted, null as <nil>.
func (c Col) Cell(r int) string {
	switch c.Kind {
	case KInt:
		return strconv.Itoa(c.I[r])
	case KFloat:
		f := c.F[r]
		if math.IsNaN(f) {
			return "NaN"
		}
		return strconv.FormatFloat(f, 'g', -1, 64) + "#" + strconv.FormatUint(math.Float64bits(f), 16)
	case KBool:
		return strconv.FormatBool(c.B[r])
	case KString, KEnum:
		if c.S[r] == nil {
			return "<nil>"
		}
		return strconv.Quote(*c.S[r])
	}
	return "?"
}

// CellEq compares cell r of c with cell q of d: ints ==, floats bit for bit with all
// NaNs alike, "" != null, enum by string value.
func CellEq(c Col, r int, d Col, q int) bool {
	switch c.Kind {
	case KInt:
		return c.I[r] == d.I[q]
	case KFloat:
		a, b := c.F[r], d.F[q]
		if math.IsNaN(a) || math.IsNaN(b) {
			return math.IsNaN(a) && math.IsNaN(b)
		}
		return math.Float64bits(a) == math.Float64bits(b)
	case KBool:
		return c.B[r] == d.B[q]
	case KString, KEnum:
		a, b := c.S[r], d.S[q]
		if a == nil || b == nil {
			return a == nil && b == nil
		}
		return *a == *b
	}
	return true
}

// Table is the reference table: ordered, named, typed columns of equal length.
type Table struct {
	Cols []Col
}

// N is the number of rows.
func (t Table) N() int {
	if len(t.Cols) == 0 {
		return 0
	}
	return t.Cols[0].Len()
}

func (t Table) Names() []string {
	r := make([]string, len(t.Cols))
	for i, c := range t.Cols {
		r[i] = c.Name
	}
	return r
}

// Find returns the position of the named column or -1.
func (t Table) Find(name string) int {
	for i, c := range t.Cols {
		if c.Name == name {
			return i
		}
	}
	return -1
}

func (t Table) MustCol(name string) Col {
	i := t.Find(name)
	if i < 0 {
		panic("harness: no column " + name)
	}
	return t.Cols[i]
}

// Rows returns the table restricted to the given rows in the given order.
func (t Table) Rows(sel []int) Table {
	r := Table{Cols: make([]Col, len(t.Cols))}
	for i, c := range t.Cols {
		r.Cols[i] = c.Take(sel)
	}
	return r
}

// Project returns the table with only the named columns in the given order.
func (t Table) Project(names []string) Table {
	r := Table{}
	for _, n := range names {
		r.Cols = append(r.Cols, t.MustCol(n))
	}
	return r
}

// Without returns the table without the named columns.
func (t Table) Without(names ...string) Table {
	r := Table{}
outer:
	for _, c := range t.Cols {
		for _, n := range names {
			if c.Name == n {
				continue outer
			}
		}
		r.Cols = append(r.Cols, c)
	}
	return r
}

// With returns a table where column c replaces the column of the same name in its
// position, or is appended last.
func (t Table) With(c Col) Table {
	r := Table{Cols: append([]Col(nil), t.Cols...)}
	if i := r.Find(c.Name); i >= 0 {
		r.Cols[i] = c
	} else {
		r.Cols = append(r.Cols, c)
	}
	return r
}

// Iota returns 0..n-1.
func Iota(n int) []int {
	r := make([]int, n)
	for i := range r {
		r[i] = i
	}
	return r
}

// String renders the table compactly and canonically (used for hashing, samples and
// failure output).
func (t Table) String() string {
	var sb strings.Builder
	fmt.Fprintf(&sb, "table %d rows\n", t.N())
	for _, c := range t.Cols {
		fmt.Fprintf(&sb, "  %q %s", c.Name, c.Kind)
		if c.Kind == KEnum {
			if c.Enum == nil {
				sb.WriteString("(derived)")
			} else {
				fmt.Fprintf(&sb, "%q", c.Enum)
			}
		}
		sb.WriteString(": ")
		n := c.Len()
		for r := 0; r < n; r++ {
			if r > 0 {
				sb.WriteByte(' ')
			}
			if r == 60 && n > 64 {
				fmt.Fprintf(&sb, "…(%d more)", n-r)
				break
			}
			sb.WriteString(c.Cell(r))
		}
		sb.WriteByte('\n')
	}
	return sb.String()
}

// Diff describes the first difference between two tables ("" when they are equal:
// same column names in the same order, same kinds, same cells). Declared enum value
// lists are not compared (they are not observable through the public API).
func Diff(want, got Table) string {
	if len(want.Cols) != len(got.Cols) {
		return fmt.Sprintf("column count: want %d %q, got %d %q", len(want.Cols), want.Names(), len(got.Cols), got.Names())
	}
	for i, w := range want.Cols {
		g := got.Cols[i]
		if w.Name != g.Name {
			return fmt.Sprintf("column %d name: want %q, got %q (want %q got %q)", i, w.Name, g.Name, want.Names(), got.Names())
		}
		if w.Kind != g.Kind {
			return fmt.Sprintf("column %q type: want %s, got %s", w.Name, w.Kind, g.Kind)
		}
		if w.Len() != g.Len() {
			return fmt.Sprintf("column %q length: want %d, got %d", w.Name, w.Len(), g.Len())
		}
		for r := 0; r < w.Len(); r++ {
			if !CellEq(w, r, g, r) {
				return fmt.Sprintf("column %q row %d: want %s, got %s", w.Name, r, w.Cell(r), g.Cell(r))
			}
		}
	}
	return ""
}

// RowKey renders row r over the given columns (all when cols is nil) as one string;
// used to compare tables as multisets of rows.
func (t Table) RowKey(r int, cols []int) string {
	var sb strings.Builder
	if cols == nil {
		for i := range t.Cols {
			sb.WriteString(t.Cols[i].Cell(r))
			sb.WriteByte('|')
		}
		return sb.String()
	}
	for _, i := range cols {
		sb.WriteString(t.Cols[i].Cell(r))
		sb.WriteByte('|')
	}
	return sb.String()
}

// DiffUnordered compares two tables as multisets of rows (column names, order and
// kinds must still agree).
func DiffUnordered(want, got Table) string {
	if len(want.Cols) != len(got.Cols) {
		return fmt.Sprintf("column count: want %d %q, got %d %q", len(want.Cols), want.Names(), len(got.Cols), got.Names())
	}
	for i, w := range want.Cols {
		g := got.Cols[i]
		if w.Name != g.Name || w.Kind != g.Kind {
			return fmt.Sprintf("column %d: want %q %s, got %q %s", i, w.Name, w.Kind, g.Name, g.Kind)
		}
	}
	if want.N() != got.N() {
		return fmt.Sprintf("row count: want %d, got %d", want.N(), got.N())
	}
	wk, gk := make([]string, want.N()), make([]string, got.N())
	for r := range wk {
		wk[r] = want.RowKey(r, nil)
		gk[r] = got.RowKey(r, nil)
	}
	sort.Strings(wk)
	sort.Strings(gk)
	for r := range wk {
		if wk[r] != gk[r] {
			return fmt.Sprintf("row multisets differ: want has %s, got has %s", wk[r], gk[r])
		}
	}
	return ""
}

// Sp returns a pointer to a copy of s.
func Sp(s string) *string { return &s }
