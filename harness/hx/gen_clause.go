package hx

import (
	"math"
	"regexp"
	"strings"
	"unicode/utf8"

	"pgregory.net/rapid"
)

// ClauseOpt configures GenClause.
type ClauseOpt struct {
	MaxDepth int  // depth of And/Or/Not nesting (leaf = 0)
	NoFuncs  bool // no predicate functions (used where callbacks must not be involved)
	NoLike   bool
	Focus    string // a column half of the leaves are about ("" = none)
	Sparse   string // an int column of unique values: half of the leaves select one or two rows by it ("" = none)
}

var ordComps = []string{"<", "<=", ">", ">=", "=", "!="}
var eqComps = []string{"=", "!="}

// simple like patterns: C18 goes deep, C02 only needs the comparator to take part
var likePatterns = []string{"a", "a%", "%a", "%a%", "%", "", "ab", "%b%", "A%", "%B", "a.*", "^a", "[ab]%", "%b$", "%%a%", "a%%", "%%", "%%b", "b%%%"}

func colsOfKind(t Table, kinds ...Kind) []Col {
	var r []Col
	for _, c := range t.Cols {
		for _, k := range kinds {
			if c.Kind == k {
				r = append(r, c)
			}
		}
	}
	return r
}

func sameDecl(a, b []string) bool {
	if a == nil || b == nil || len(a) != len(b) {
		return false
	}
	for i := range a {
		if a[i] != b[i] {
			return false
		}
	}
	return true
}

// constFromCol prefers a value that occurs in the column (so that = and boundaries hit).
func intConstFor(t *rapid.T, c Col) int {
	if len(c.I) > 0 && rapid.IntRange(0, 2).Draw(t, "fromcol") > 0 {
		return c.I[rapid.IntRange(0, len(c.I)-1).Draw(t, "pos")]
	}
	return GenInt(t)
}

func floatConstFor(t *rapid.T, c Col) float64 {
	var f float64
	if len(c.F) > 0 && rapid.IntRange(0, 2).Draw(t, "fromcol") > 0 {
		f = c.F[rapid.IntRange(0, len(c.F)-1).Draw(t, "pos")]
	} else {
		f = GenFloat(t, false)
	}
	if math.IsNaN(f) {
		// NaN is rejected as a filter argument (documented error)
		f = 0.5
	}
	return f
}

func strConstFor(t *rapid.T, c Col) string {
	if c.Kind == KEnum && c.Enum != nil {
		return rapid.SampledFrom(c.Enum).Draw(t, "enumconst")
	}
	if len(c.S) > 0 && rapid.IntRange(0, 2).Draw(t, "fromcol") > 0 {
		if p := c.S[rapid.IntRange(0, len(c.S)-1).Draw(t, "pos")]; p != nil {
			return *p
		}
	}
	return GenStr(t, false)
}

// likePatternFor draws one of the fixed patterns or derives one from a value of the column: the value in
// another case (so that ilike has to map letters whose other case has another byte length) with % at
// either end. Derived patterns stay within the plain-pattern route (valid UTF-8, no regexp metacharacter).
func likePatternFor(t *rapid.T, c Col) string {
	if rapid.IntRange(0, 2).Draw(t, "patternfromcol") > 0 {
		return rapid.SampledFrom(likePatterns).Draw(t, "pattern")
	}
	p := strConstFor(t, c)
	switch rapid.IntRange(0, 2).Draw(t, "patterncase") {
	case 1:
		p = strings.ToUpper(p)
	case 2:
		p = strings.ToLower(p)
	}
	if !utf8.ValidString(p) || regexp.QuoteMeta(p) != p || strings.Contains(p, "%") {
		return rapid.SampledFrom(likePatterns).Draw(t, "pattern")
	}
	switch rapid.IntRange(0, 5).Draw(t, "patternends") {
	case 0:
		p = "%" + p
	case 1:
		p = p + "%"
	case 2:
		p = "%" + p + "%"
	}
	return p
}

// GenLeaf draws a well-typed leaf over the columns of tab.
func GenLeaf(t *rapid.T, tab Table, o ClauseOpt) Clause {
	if o.Sparse != "" && tab.Find(o.Sparse) >= 0 && tab.N() > 0 && rapid.Bool().Draw(t, "sparseleaf") {
		return sparseLeaf(t, tab, o)
	}
	return genLeaf(t, tab, o)
}

// sparseLeaf: a leaf that keeps one or two rows: results that are small next to the frame.
func sparseLeaf(t *rapid.T, tab Table, o ClauseOpt) Clause {
	{
		sc := tab.MustCol(o.Sparse)
		v := sc.I[rapid.IntRange(0, len(sc.I)-1).Draw(t, "sparserow")]
		if rapid.Bool().Draw(t, "sparsepair") {
			w := sc.I[rapid.IntRange(0, len(sc.I)-1).Draw(t, "sparserow2")]
			return Clause{Op: "leaf", Col: sc.Name, Comp: "in", Arg: "list", LI: []int{v, w}, ListForm: rapid.IntRange(0, 2).Draw(t, "listform")}
		}
		return IntConst(sc.Name, "=", v)
	}
}

func genLeaf(t *rapid.T, tab Table, o ClauseOpt) Clause {
	c := tab.Cols[rapid.IntRange(0, len(tab.Cols)-1).Draw(t, "leafcol")]
	if o.Focus != "" && tab.Find(o.Focus) >= 0 && rapid.Bool().Draw(t, "leaffocus") {
		c = tab.MustCol(o.Focus)
	}
	var l Clause
	pick := rapid.IntRange(0, 9).Draw(t, "leafkind")
	switch c.Kind {
	case KInt:
		switch {
		case pick <= 2:
			l = IntConst(c.Name, rapid.SampledFrom(ordComps).Draw(t, "comp"), intConstFor(t, c))
		case pick == 3:
			others := colsOfKind(tab, KInt, KFloat)
			l = ColArg(c.Name, rapid.SampledFrom(ordComps).Draw(t, "comp"), others[rapid.IntRange(0, len(others)-1).Draw(t, "other")].Name)
		case pick == 4:
			n := rapid.IntRange(0, 4).Draw(t, "listn")
			if rapid.IntRange(0, 5).Draw(t, "longlist") == 0 {
				n = longListLen(t) // long enough for set implementations other than a scan
			}
			li := make([]int, n)
			for i := range li {
				li[i] = intConstFor(t, c)
			}
			if rapid.IntRange(0, 5).Draw(t, "denselist") == 0 {
				// a long list that almost covers a range of consecutive integers around the column's small values: as many
				// entries as the range is wide, but with repeats, so some integers of the range are missing
				a := rapid.IntRange(-6, 0).Draw(t, "densemin")
				w := rapid.IntRange(16, 24).Draw(t, "densewidth")
				li = make([]int, w)
				for i := range li {
					li[i] = a + rapid.IntRange(0, w-1).Draw(t, "denseval")
				}
				li[rapid.IntRange(0, w-1).Draw(t, "densepos")] = a
				if li[0] != a {
					li[0] = a + w - 1
				} else {
					li[w-1] = a + w - 1
				}
			}
			l = Clause{Op: "leaf", Col: c.Name, Comp: "in", Arg: "list", LI: li, ListForm: rapid.IntRange(0, 2).Draw(t, "listform")}
		case pick == 5:
			l = NoArg(c.Name, rapid.SampledFrom([]string{"isnull", "isnotnull"}).Draw(t, "comp"))
		case pick == 6:
			l = IntConst(c.Name, rapid.SampledFrom([]string{"any_bits", "all_bits"}).Draw(t, "comp"), rapid.IntRange(0, 15).Draw(t, "mask"))
		case pick == 7 && !o.NoFuncs:
			l = Clause{Op: "leaf", Col: c.Name, Comp: "fn1", Arg: "none", Fn: rapid.IntRange(0, len(PredFns)-1).Draw(t, "fn")}
		case pick == 8 && !o.NoFuncs:
			others := colsOfKind(tab, KInt)
			l = Clause{Op: "leaf", Col: c.Name, Comp: "fn2", Arg: "col", ArgCol: others[rapid.IntRange(0, len(others)-1).Draw(t, "other")].Name,
				Fn: rapid.IntRange(0, len(PredFns)-1).Draw(t, "fn")}
		default:
			l = IntConst(c.Name, rapid.SampledFrom(ordComps).Draw(t, "comp"), intConstFor(t, c))
		}
	case KFloat:
		switch {
		case pick <= 3:
			l = FloatConst(c.Name, rapid.SampledFrom(ordComps).Draw(t, "comp"), floatConstFor(t, c))
		case pick == 4:
			others := colsOfKind(tab, KInt, KFloat)
			l = ColArg(c.Name, rapid.SampledFrom(ordComps).Draw(t, "comp"), others[rapid.IntRange(0, len(others)-1).Draw(t, "other")].Name)
		case pick <= 6:
			l = NoArg(c.Name, rapid.SampledFrom([]string{"isnull", "isnotnull"}).Draw(t, "comp"))
		case pick == 7 && !o.NoFuncs:
			l = Clause{Op: "leaf", Col: c.Name, Comp: "fn1", Arg: "none", Fn: rapid.IntRange(0, len(PredFns)-1).Draw(t, "fn")}
		case pick == 8 && !o.NoFuncs:
			others := colsOfKind(tab, KFloat)
			l = Clause{Op: "leaf", Col: c.Name, Comp: "fn2", Arg: "col", ArgCol: others[rapid.IntRange(0, len(others)-1).Draw(t, "other")].Name,
				Fn: rapid.IntRange(0, len(PredFns)-1).Draw(t, "fn")}
		default:
			l = FloatConst(c.Name, rapid.SampledFrom(ordComps).Draw(t, "comp"), floatConstFor(t, c))
		}
	case KBool:
		switch {
		case pick <= 3:
			l = BoolConst(c.Name, rapid.SampledFrom(eqComps).Draw(t, "comp"), rapid.Bool().Draw(t, "bconst"))
		case pick <= 5:
			others := colsOfKind(tab, KBool)
			l = ColArg(c.Name, rapid.SampledFrom(eqComps).Draw(t, "comp"), others[rapid.IntRange(0, len(others)-1).Draw(t, "other")].Name)
		case pick == 6 && !o.NoFuncs:
			l = Clause{Op: "leaf", Col: c.Name, Comp: "fn1", Arg: "none", Fn: rapid.IntRange(0, len(PredFns)-1).Draw(t, "fn")}
		case pick == 7 && !o.NoFuncs:
			others := colsOfKind(tab, KBool)
			l = Clause{Op: "leaf", Col: c.Name, Comp: "fn2", Arg: "col", ArgCol: others[rapid.IntRange(0, len(others)-1).Draw(t, "other")].Name,
				Fn: rapid.IntRange(0, len(PredFns)-1).Draw(t, "fn")}
		default:
			l = BoolConst(c.Name, rapid.SampledFrom(eqComps).Draw(t, "comp"), rapid.Bool().Draw(t, "bconst"))
		}
	case KString, KEnum:
		derived := c.Kind == KEnum && c.Enum == nil
		comps := ordComps
		if derived {
			comps = eqComps
		}
		switch {
		case pick <= 2:
			l = StrConst(c.Name, rapid.SampledFrom(comps).Draw(t, "comp"), strConstFor(t, c))
		case pick == 3:
			// column argument: same kind; enums need the same declared list
			var others []Col
			for _, o := range colsOfKind(tab, c.Kind) {
				if c.Kind == KString || sameDecl(c.Enum, o.Enum) {
					others = append(others, o)
				}
			}
			if len(others) == 0 {
				l = NoArg(c.Name, "isnull")
			} else {
				l = ColArg(c.Name, rapid.SampledFrom(comps).Draw(t, "comp"), others[rapid.IntRange(0, len(others)-1).Draw(t, "other")].Name)
			}
		case pick == 4:
			n := rapid.IntRange(0, 4).Draw(t, "listn")
			if rapid.IntRange(0, 5).Draw(t, "longlist") == 0 {
				n = longListLen(t)
			}
			ls := make([]string, n)
			for i := range ls {
				ls[i] = strConstFor(t, c)
			}
			l = Clause{Op: "leaf", Col: c.Name, Comp: "in", Arg: "list", LS: ls, ListForm: rapid.IntRange(0, 1).Draw(t, "listform")}
		case pick == 5:
			l = NoArg(c.Name, rapid.SampledFrom([]string{"isnull", "isnotnull"}).Draw(t, "comp"))
		case pick == 6 && !o.NoLike:
			l = StrConst(c.Name, rapid.SampledFrom([]string{"like", "ilike"}).Draw(t, "comp"), likePatternFor(t, c))
		case pick == 7 && !o.NoFuncs:
			l = Clause{Op: "leaf", Col: c.Name, Comp: "fn1", Arg: "none", Fn: rapid.IntRange(0, len(PredFns)-1).Draw(t, "fn")}
		case pick == 8 && !o.NoFuncs:
			others := colsOfKind(tab, c.Kind)
			l = Clause{Op: "leaf", Col: c.Name, Comp: "fn2", Arg: "col", ArgCol: others[rapid.IntRange(0, len(others)-1).Draw(t, "other")].Name,
				Fn: rapid.IntRange(0, len(PredFns)-1).Draw(t, "fn")}
		default:
			l = StrConst(c.Name, rapid.SampledFrom(comps).Draw(t, "comp"), strConstFor(t, c))
		}
	default:
		panic("harness: GenLeaf on column kind " + c.Kind.String())
	}
	if rapid.IntRange(0, 3).Draw(t, "inverse") == 0 {
		l.Inverse = true
	}
	return l
}

// GenClause draws a clause tree of at most the given depth.
func GenClause(t *rapid.T, tab Table, depth int, o ClauseOpt) Clause {
	if depth <= 0 {
		return GenLeaf(t, tab, o)
	}
	if o.Sparse != "" && tab.Find(o.Sparse) >= 0 && tab.N() > 0 && rapid.Bool().Draw(t, "sparseor") {
		// an Or whose members keep a row or two each, at least one of them composite (composite members are
		// evaluated on their own and merged into the result of the others)
		n := rapid.IntRange(2, 3).Draw(t, "sparsekids")
		kids := make([]Clause, n)
		composite := rapid.IntRange(0, n-1).Draw(t, "sparsecomposite")
		for i := range kids {
			kids[i] = sparseLeaf(t, tab, o)
			if i == composite || rapid.IntRange(0, 2).Draw(t, "alsocomposite") == 0 {
				switch rapid.IntRange(0, 2).Draw(t, "compositekind") {
				case 0:
					kids[i] = Clause{Op: "and", Kids: []Clause{kids[i]}}
				case 1:
					kids[i] = Clause{Op: "and", Kids: []Clause{genLeaf(t, tab, o), kids[i]}}
				default:
					kids[i] = Clause{Op: "or", Kids: []Clause{kids[i], sparseLeaf(t, tab, o)}}
				}
			}
		}
		return Clause{Op: "or", Kids: kids}
	}
	switch rapid.IntRange(0, 9).Draw(t, "node") {
	case 0, 1, 2:
		return GenLeaf(t, tab, o)
	case 3, 4:
		return Clause{Op: "and", Kids: genKids(t, tab, depth, o)}
	case 5, 6, 7:
		return Clause{Op: "or", Kids: genKids(t, tab, depth, o)}
	case 8:
		return Clause{Op: "not", Kids: []Clause{GenClause(t, tab, depth-1, o)}}
	default:
		if rapid.IntRange(0, 3).Draw(t, "nullclause") == 0 {
			return Clause{Op: "null"}
		}
		return Clause{Op: "not", Kids: []Clause{GenLeaf(t, tab, o)}}
	}
}

func genKids(t *rapid.T, tab Table, depth int, o ClauseOpt) []Clause {
	if nums := colsOfKind(tab, KInt, KFloat); len(nums) >= 3 && rapid.IntRange(0, 7).Draw(t, "colargsiblings") == 0 {
		// sibling leaves that compare one numeric column with two or three other numeric columns (the plain leaves
		// of one combinator are evaluated together; int and float columns are converted for the comparison)
		perm := rapid.Permutation(nums).Draw(t, "siblingcols")
		n := rapid.IntRange(2, len(perm)-1).Draw(t, "nsiblings")
		if n > 3 {
			n = 3
		}
		kids := make([]Clause, n)
		for i := range kids {
			kids[i] = ColArg(perm[0].Name, rapid.SampledFrom(ordComps).Draw(t, "comp"), perm[1+i].Name)
			kids[i].Inverse = rapid.IntRange(0, 3).Draw(t, "siblinginv") == 0
		}
		return kids
	}
	n := rapid.IntRange(1, 4).Draw(t, "kids")
	kids := make([]Clause, n)
	for i := range kids {
		kids[i] = GenClause(t, tab, depth-1, o)
	}
	return kids
}

// longListLen: 12-20 entries, or a length at the sizes at which a set implementation may change its representation
// (sorted slice and binary search, bitmap, map) - the entries stay unsorted and repeat.
func longListLen(t *rapid.T) int {
	if rapid.IntRange(0, 2).Draw(t, "verylonglist") == 0 {
		return rapid.SampledFrom([]int{31, 32, 33, 40, 63, 64, 65, 70, 127, 128, 129, 255, 256, 257, 300}).Draw(t, "verylonglistn")
	}
	return rapid.IntRange(12, 20).Draw(t, "longlistn")
}
