package hx

import (
	"fmt"
	"math"
	"reflect"
	"strconv"
	"strings"

	"github.com/tobgu/qframe"
	"github.com/tobgu/qframe/config/eval"
	"github.com/tobgu/qframe/types"
	"pgregory.net/rapid"
)

// Expr is a data-only expression tree for QFrame.Eval.
type Expr struct {
	Op string // "const", "col", "call"
	// const
	CK Kind
	CI int
	CF float64
	CB bool
	CS *string
	// col
	Col string
	// call
	Fn   string
	Args []Expr
	Raw  bool // built as a raw []interface{}{fn, args...} list instead of qframe.Expr
	// Wrap hands a constant/column operand over as an Expression object (qframe.Val(x))
	// instead of the bare value.
	Wrap bool
}

func (e Expr) String() string {
	switch e.Op {
	case "const":
		switch e.CK {
		case KInt:
			return strconv.Itoa(e.CI)
		case KFloat:
			return fmt.Sprintf("%vf", e.CF)
		case KBool:
			return strconv.FormatBool(e.CB)
		}
		if e.CS == nil {
			return "nil"
		}
		return strconv.Quote(*e.CS)
	case "col":
		if e.Wrap {
			return "Val($" + e.Col + ")"
		}
		return "$" + e.Col
	case "bad":
		return "<bad:" + e.Fn + ">"
	}
	parts := make([]string, len(e.Args))
	for i, a := range e.Args {
		parts[i] = a.String()
	}
	raw := ""
	if e.Raw {
		raw = "raw:"
	}
	return fmt.Sprintf("(%s%s %s)", raw, e.Fn, strings.Join(parts, " "))
}

func (e Expr) Depth() int {
	d := 0
	for _, a := range e.Args {
		if x := a.Depth(); x > d {
			d = x
		}
	}
	if e.Op == "call" {
		return d + 1
	}
	return 0
}

func (e Expr) MaxArity() int {
	m := len(e.Args)
	for _, a := range e.Args {
		if x := a.MaxArity(); x > m {
			m = x
		}
	}
	return m
}

func (e Expr) rawValue() interface{} {
	if e.Wrap && (e.Op == "const" || e.Op == "col") {
		u := e
		u.Wrap = false
		return qframe.Val(u.rawValue())
	}
	switch e.Op {
	case "const":
		switch e.CK {
		case KInt:
			return e.CI
		case KFloat:
			return e.CF
		case KBool:
			return e.CB
		}
		if e.CS == nil {
			return nil
		}
		return *e.CS
	case "col":
		return types.ColumnName(e.Col)
	case "bad":
		return e.badValue()
	}
	if e.Raw && len(e.Args) >= 1 && len(e.Args) <= 2 {
		l := []interface{}{e.Fn}
		for _, a := range e.Args {
			l = append(l, a.rawValue())
		}
		return l
	}
	return e.Build()
}

// Build returns the real expression.
func (e Expr) Build() qframe.Expression {
	switch e.Op {
	case "const", "col":
		return qframe.Val(e.rawValue())
	case "bad":
		if x, ok := e.badValue().(qframe.Expression); ok {
			return x
		}
		return qframe.Val(e.badValue())
	}
	if e.Raw && len(e.Args) >= 1 && len(e.Args) <= 2 {
		return qframe.Val(e.rawValue())
	}
	args := make([]interface{}, len(e.Args))
	for i, a := range e.Args {
		args[i] = a.rawValue()
	}
	if len(args) >= 3 {
		// the argument slice belongs to the caller, who may build further expressions from it: the expression
		// that counts is the second one built from the same slice
		_ = qframe.Expr(e.Fn, args...)
	}
	return qframe.Expr(e.Fn, args...)
}

// Val is a model value.
type Val struct {
	K Kind
	I int
	F float64
	B bool
	S *string
}

// userFns are the functions a case may register in its own eval.Context.
// name -> (argument sort, arity) -> function and model.
type userFn struct {
	Name  string
	Arg   Kind // KInt, KFloat, KBool, KString
	Arity int
	Res   Kind
	Real  interface{}
}

var UserFns = []userFn{
	{"f_i2s", KInt, 1, KString, IntToStr},
	{"f_s2i", KString, 1, KInt, StrToInt},
	{"f_f2b", KFloat, 1, KBool, FloatToBool},
	{"f_b2f", KBool, 1, KFloat, BoolToFloat},
	{"f_i2f", KInt, 1, KFloat, IntToFloat},
	{"f_f2i", KFloat, 1, KInt, FloatToInt},
	{"f_i2b", KInt, 1, KBool, IntToBool},
	{"f_s2f", KString, 1, KFloat, StrToFloat},
	{"abs", KInt, 1, KInt, IntToInt},         // shadows the built-in
	{"sub2", KInt, 2, KInt, Int2},            // non-commutative
	{"sub2", KFloat, 2, KFloat, Float2},      // same name, other type
	{"+", KString, 2, KString, Str2},         // shadows string concatenation
	{"nimp", KBool, 2, KBool, Bool2},         // non-commutative
	{"upper", KString, 1, KString, StrToStr}, // shadows upper
	// one name under both arities (lookup is by name, operand type AND arity)
	{"-", KInt, 1, KInt, IntToInt},    // unary, next to the built-in binary minus
	{"!", KBool, 2, KBool, Bool2},     // binary, next to the built-in unary not
	{"sub2", KInt, 1, KInt, IntToInt}, // unary, next to the user's binary sub2
	// function names are case sensitive
	{"Twice", KInt, 1, KInt, IntToInt},
	{"ABS", KFloat, 1, KFloat, FloatToFloat}, // not the built-in abs
}

// SetDecoys registers, under every user function's name, a function of the same signature that returns zero values.
func SetDecoys(ctx *eval.Context) {
	for _, f := range UserFns {
		typ := reflect.TypeOf(f.Real)
		decoy := reflect.MakeFunc(typ, func([]reflect.Value) []reflect.Value { return []reflect.Value{reflect.Zero(typ.Out(0))} })
		if err := ctx.SetFunc(f.Name, decoy.Interface()); err != nil {
			panic(err)
		}
	}
}

// SetReal registers the user functions (again).
func SetReal(ctx *eval.Context) {
	for _, f := range UserFns {
		if err := ctx.SetFunc(f.Name, f.Real); err != nil {
			panic(err)
		}
	}
}

// NewCtx returns a context with the user functions registered.
func NewCtx() *eval.Context {
	ctx := eval.NewDefaultCtx()
	for _, f := range UserFns {
		if err := ctx.SetFunc(f.Name, f.Real); err != nil {
			panic(err)
		}
	}
	return ctx
}

func sortOf(k Kind) Kind {
	if k == KEnum {
		return KString
	}
	return k
}

// lookup resolves a function by name, arity and the sort of the first operand, as
// documented: user functions of the context first (when custom), then the defaults.
// It returns the result kind and an evaluator.
func lookup(name string, arity int, arg Kind, custom bool) (Kind, func(a, b Val) Val, bool) {
	arg = sortOf(arg)
	if custom {
		for _, f := range UserFns {
			if f.Name == name && f.Arity == arity && f.Arg == arg {
				return f.Res, userEval(f), true
			}
		}
	}
	type key struct {
		n string
		a int
		k Kind
	}
	switch (key{name, arity, arg}) {
	// float
	case key{"abs", 1, KFloat}:
		return KFloat, func(a, _ Val) Val { return Val{K: KFloat, F: math.Abs(a.F)} }, true
	case key{"str", 1, KFloat}:
		return KString, func(a, _ Val) Val { return Val{K: KString, S: Sp(strconv.FormatFloat(a.F, 'f', 6, 64))} }, true
	case key{"+", 2, KFloat}:
		return KFloat, func(a, b Val) Val { return Val{K: KFloat, F: a.F + b.F} }, true
	case key{"-", 2, KFloat}:
		return KFloat, func(a, b Val) Val { return Val{K: KFloat, F: a.F - b.F} }, true
	case key{"*", 2, KFloat}:
		return KFloat, func(a, b Val) Val { return Val{K: KFloat, F: a.F * b.F} }, true
	case key{"/", 2, KFloat}:
		return KFloat, func(a, b Val) Val { return Val{K: KFloat, F: a.F / b.F} }, true
	// int
	case key{"abs", 1, KInt}:
		return KInt, func(a, _ Val) Val {
			if a.I < 0 {
				return Val{K: KInt, I: -a.I}
			}
			return Val{K: KInt, I: a.I}
		}, true
	case key{"str", 1, KInt}:
		return KString, func(a, _ Val) Val { return Val{K: KString, S: Sp(strconv.Itoa(a.I))} }, true
	case key{"bool", 1, KInt}:
		return KBool, func(a, _ Val) Val { return Val{K: KBool, B: a.I != 0} }, true
	case key{"float", 1, KInt}:
		return KFloat, func(a, _ Val) Val { return Val{K: KFloat, F: float64(a.I)} }, true
	case key{"+", 2, KInt}:
		return KInt, func(a, b Val) Val { return Val{K: KInt, I: a.I + b.I} }, true
	case key{"-", 2, KInt}:
		return KInt, func(a, b Val) Val { return Val{K: KInt, I: a.I - b.I} }, true
	case key{"*", 2, KInt}:
		return KInt, func(a, b Val) Val { return Val{K: KInt, I: a.I * b.I} }, true
	case key{"/", 2, KInt}:
		return KInt, func(a, b Val) Val { return Val{K: KInt, I: a.I / b.I} }, true
	// bool
	case key{"!", 1, KBool}:
		return KBool, func(a, _ Val) Val { return Val{K: KBool, B: !a.B} }, true
	case key{"str", 1, KBool}:
		return KString, func(a, _ Val) Val { return Val{K: KString, S: Sp(strconv.FormatBool(a.B))} }, true
	case key{"int", 1, KBool}:
		return KInt, func(a, _ Val) Val {
			if a.B {
				return Val{K: KInt, I: 1}
			}
			return Val{K: KInt}
		}, true
	case key{"&", 2, KBool}:
		return KBool, func(a, b Val) Val { return Val{K: KBool, B: a.B && b.B} }, true
	case key{"|", 2, KBool}:
		return KBool, func(a, b Val) Val { return Val{K: KBool, B: a.B || b.B} }, true
	case key{"!=", 2, KBool}:
		return KBool, func(a, b Val) Val { return Val{K: KBool, B: a.B != b.B} }, true
	case key{"nand", 2, KBool}:
		return KBool, func(a, b Val) Val { return Val{K: KBool, B: !(a.B && b.B)} }, true
	// string
	case key{"upper", 1, KString}:
		return KString, func(a, _ Val) Val {
			if a.S == nil {
				return Val{K: KString}
			}
			return Val{K: KString, S: Sp(strings.ToUpper(*a.S))}
		}, true
	case key{"lower", 1, KString}:
		return KString, func(a, _ Val) Val {
			if a.S == nil {
				return Val{K: KString}
			}
			return Val{K: KString, S: Sp(strings.ToLower(*a.S))}
		}, true
	case key{"str", 1, KString}:
		return KString, func(a, _ Val) Val { return Val{K: KString, S: a.S} }, true
	case key{"len", 1, KString}:
		return KInt, func(a, _ Val) Val {
			if a.S == nil {
				return Val{K: KInt}
			}
			return Val{K: KInt, I: len(*a.S)}
		}, true
	case key{"+", 2, KString}:
		return KString, func(a, b Val) Val {
			switch {
			case a.S == nil:
				return Val{K: KString, S: b.S}
			case b.S == nil:
				return Val{K: KString, S: a.S}
			}
			return Val{K: KString, S: Sp(*a.S + *b.S)}
		}, true
	}
	return 0, nil, false
}

func userEval(f userFn) func(a, b Val) Val {
	return func(a, b Val) Val {
		switch fn := f.Real.(type) {
		case func(int) *string:
			return Val{K: KString, S: fn(a.I)}
		case func(*string) int:
			return Val{K: KInt, I: fn(a.S)}
		case func(float64) bool:
			return Val{K: KBool, B: fn(a.F)}
		case func(bool) float64:
			return Val{K: KFloat, F: fn(a.B)}
		case func(int) int:
			return Val{K: KInt, I: fn(a.I)}
		case func(int) float64:
			return Val{K: KFloat, F: fn(a.I)}
		case func(float64) int:
			return Val{K: KInt, I: fn(a.F)}
		case func(int) bool:
			return Val{K: KBool, B: fn(a.I)}
		case func(*string) float64:
			return Val{K: KFloat, F: fn(a.S)}
		case func(int, int) int:
			return Val{K: KInt, I: fn(a.I, b.I)}
		case func(float64, float64) float64:
			return Val{K: KFloat, F: fn(a.F, b.F)}
		case func(*string, *string) *string:
			return Val{K: KString, S: fn(a.S, b.S)}
		case func(bool, bool) bool:
			return Val{K: KBool, B: fn(a.B, b.B)}
		case func(*string) *string:
			return Val{K: KString, S: fn(a.S)}
		case func(float64) float64:
			return Val{K: KFloat, F: fn(a.F)}
		}
		panic("harness: user function type")
	}
}

// Type type-checks the expression against t as documented (function chosen by name,
// arity and the type of the first operand; both operands of a binary call must have the
// same column type; n-ary calls fold from the left) and returns the column kind of the
// result, or an error when Eval must report Err.
func (e Expr) Type(t Table, custom bool) (Kind, error) {
	switch e.Op {
	case "const":
		if e.CK == KEnum {
			return KString, nil
		}
		return e.CK, nil
	case "col":
		i := t.Find(e.Col)
		if i < 0 {
			return 0, fmt.Errorf("unknown column %q", e.Col)
		}
		return t.Cols[i].Kind, nil
	case "bad":
		return 0, fmt.Errorf("malformed expression %s", e.Fn)
	}
	if len(e.Args) == 0 {
		return 0, fmt.Errorf("no arguments")
	}
	k0, err := e.Args[0].Type(t, custom)
	if err != nil {
		return 0, err
	}
	if len(e.Args) == 1 {
		rk, _, ok := lookup(e.Fn, 1, k0, custom)
		if !ok {
			return 0, fmt.Errorf("no unary function %q for %s", e.Fn, k0)
		}
		return rk, nil
	}
	acc := k0
	for _, a := range e.Args[1:] {
		ka, err := a.Type(t, custom)
		if err != nil {
			return 0, err
		}
		rk, _, ok := lookup(e.Fn, 2, acc, custom)
		if !ok {
			return 0, fmt.Errorf("no binary function %q for %s", e.Fn, acc)
		}
		if ka != acc {
			return 0, fmt.Errorf("operand column types differ: %s vs %s", acc, ka)
		}
		acc = rk
	}
	return acc, nil
}

// Eval evaluates a well-typed expression for row r.
func (e Expr) Eval(t Table, r int, custom bool) Val {
	switch e.Op {
	case "const":
		return Val{K: sortOf(e.CK), I: e.CI, F: e.CF, B: e.CB, S: e.CS}
	case "col":
		c := t.MustCol(e.Col)
		v := Val{K: c.Kind}
		switch c.Kind {
		case KInt:
			v.I = c.I[r]
		case KFloat:
			v.F = c.F[r]
		case KBool:
			v.B = c.B[r]
		default:
			v.S = c.S[r]
		}
		return v
	}
	a := e.Args[0].Eval(t, r, custom)
	if len(e.Args) == 1 {
		_, f, _ := lookup(e.Fn, 1, a.K, custom)
		return f(a, Val{})
	}
	for _, x := range e.Args[1:] {
		b := x.Eval(t, r, custom)
		rk, f, _ := lookup(e.Fn, 2, a.K, custom)
		a = f(a, b)
		a.K = rk
	}
	return a
}

// EvalCol evaluates a well-typed expression for every row into a column named dst.
func (e Expr) EvalCol(t Table, dst string, custom bool) Col {
	k, _ := e.Type(t, custom)
	n := t.N()
	c := Col{Name: dst, Kind: k}
	if e.Op == "col" {
		src := t.MustCol(e.Col)
		c = src.Take(Iota(n))
		c.Name = dst
		return c
	}
	if k == KEnum {
		c.Kind = KString
	}
	switch c.Kind {
	case KInt:
		c.I = make([]int, n)
	case KFloat:
		c.F = make([]float64, n)
	case KBool:
		c.B = make([]bool, n)
	default:
		c.S = make([]*string, n)
	}
	for r := 0; r < n; r++ {
		v := e.Eval(t, r, custom)
		switch c.Kind {
		case KInt:
			c.I[r] = v.I
		case KFloat:
			c.F[r] = v.F
		case KBool:
			c.B[r] = v.B
		default:
			c.S[r] = v.S
		}
	}
	return c
}

// --- generator -------------------------------------------------------------

var unaryBySort = map[Kind][]string{
	KInt:    {"abs", "str", "bool", "float"},
	KFloat:  {"abs", "str"},
	KBool:   {"!", "str", "int"},
	KString: {"upper", "lower", "str", "len"},
}
var binaryBySort = map[Kind][]string{
	KInt:    {"+", "-", "*", "/"},
	KFloat:  {"+", "-", "*", "/"},
	KBool:   {"&", "|", "!=", "nand"},
	KString: {"+"},
}

func resultSortOfUnary(name string, arg Kind, custom bool) Kind {
	k, _, _ := lookup(name, 1, arg, custom)
	return k
}

// GenExprOfKind draws a well-typed expression whose result column kind is `want`
// (KString results may come from string or enum sources; an expression of kind KEnum
// is a reference to an enum column).
func GenExprOfKind(t *rapid.T, tab Table, want Kind, depth int, custom bool) Expr {
	leaf := func() Expr {
		cols := colsOfKind(tab, want)
		wrap := rapid.IntRange(0, 3).Draw(t, "wrapval") == 0
		if len(cols) > 0 && (want == KEnum || rapid.IntRange(0, 2).Draw(t, "leafcol") > 0) {
			return Expr{Op: "col", Col: cols[rapid.IntRange(0, len(cols)-1).Draw(t, "col")].Name, Wrap: wrap}
		}
		e := Expr{Op: "const", CK: want, Wrap: wrap}
		switch want {
		case KInt:
			e.CI = GenInt(t)
		case KFloat:
			e.CF = GenFloat(t, false) // (-0.0 included: a constant is the value written, D24)
		case KBool:
			e.CB = rapid.Bool().Draw(t, "cb")
		default:
			e.CS = GenStrPtr(t, false, false)
		}
		return e
	}
	if depth <= 0 || want == KEnum || rapid.IntRange(0, 3).Draw(t, "leaf") == 0 {
		if want == KEnum && len(colsOfKind(tab, KEnum)) == 0 {
			want = KString
		}
		return leaf()
	}
	// pick a production yielding `want`
	type prod struct {
		fn    string
		arg   Kind // argument sort
		arity int
	}
	var prods []prod
	for _, arg := range []Kind{KInt, KFloat, KBool, KString} {
		for _, fn := range unaryBySort[arg] {
			if resultSortOfUnary(fn, arg, custom) == want {
				prods = append(prods, prod{fn, arg, 1})
			}
		}
		if custom {
			for _, f := range UserFns {
				if f.Arg == arg && f.Res == want {
					prods = append(prods, prod{f.Name, arg, f.Arity})
				}
			}
		}
		if arg == want {
			for _, fn := range binaryBySort[arg] {
				prods = append(prods, prod{fn, arg, 2})
			}
		}
	}
	p := prods[rapid.IntRange(0, len(prods)-1).Draw(t, "prod")]
	e := Expr{Op: "call", Fn: p.fn, Raw: rapid.IntRange(0, 3).Draw(t, "raw") == 0}
	if p.arity == 1 {
		argKind := p.arg
		if p.arg == KString && len(colsOfKind(tab, KEnum)) > 0 && rapid.IntRange(0, 2).Draw(t, "enumarg") == 0 {
			argKind = KEnum
		}
		e.Args = []Expr{GenExprOfKind(t, tab, argKind, depth-1, custom)}
		return e
	}
	n := 2
	// n-ary only when the function maps its sort to itself
	if rk, _, _ := lookup(p.fn, 2, p.arg, custom); rk == p.arg && rapid.IntRange(0, 3).Draw(t, "nary") == 0 {
		n = rapid.IntRange(3, 5).Draw(t, "arity")
	}
	argKind := p.arg
	if p.arg == KString && len(colsOfKind(tab, KEnum)) > 0 && rapid.IntRange(0, 3).Draw(t, "enumargs") == 0 {
		argKind = KEnum // enum + enum -> string, only for plain binary calls
		n = 2
	}
	for i := 0; i < n; i++ {
		a := GenExprOfKind(t, tab, argKind, depth-1, custom)
		if p.fn == "/" && p.arg == KInt && i >= 1 {
			// integer division by zero is a documented panic: non-zero constant divisors only
			a = Expr{Op: "const", CK: KInt, CI: rapid.SampledFrom([]int{1, 2, 3, -1, -2, 7}).Draw(t, "divisor")}
		}
		e.Args = append(e.Args, a)
	}
	return e
}

// BadExpr kinds produce malformed input; Type reports an error for all of them.
//
//	"len1"  -> []interface{}{"abs"}
//	"len4"  -> []interface{}{"+", col, 1, 2}
//	"nonstring-op" -> []interface{}{1, col, col}
//	"unsupported-const" -> int32 constant
//	"noargs" -> qframe.Expr("abs")
func BadExpr(kind, col string) Expr { return Expr{Op: "bad", Fn: kind, Col: col} }

func (e Expr) badValue() interface{} {
	c := types.ColumnName(e.Col)
	switch e.Fn {
	case "len1":
		return []interface{}{"abs"}
	case "len4":
		return []interface{}{"+", c, 1, 2}
	case "nonstring-op":
		return []interface{}{1, c, c}
	case "unsupported-const":
		return int32(5)
	}
	return qframe.Expr("abs")
}
